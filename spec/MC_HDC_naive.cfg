SPECIFICATION Spec
CONSTANTS S1 = 5 S2 = 0 S3 = 0  MaxV = 3  Start = "P"  Strict = FALSE  Cross = FALSE  Close = FALSE  LabelBoundary = FALSE  RankByArray = FALSE  Coarse = 1
CHECK_DEADLOCK FALSE
INVARIANT NaiveEq
