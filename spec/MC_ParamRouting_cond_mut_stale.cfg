SPECIFICATION Spec
CONSTANTS Scen = "cond"  NGiven = 2  MutKind = "stale"  MutFam = "none"  MutName = "none"
CHECK_DEADLOCK FALSE
INVARIANT ChainedSameGiven
