SPECIFICATION Spec
CONSTANTS MaxRound = 3  Mutation = "none"  EmitBeh = FALSE
CHECK_DEADLOCK FALSE
INVARIANT FittedAfterConditioners
INVARIANT IndependentFitImmediately
INVARIANT NoPrematureFit
