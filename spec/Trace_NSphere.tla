--------------------------- MODULE Trace_NSphere ---------------------------
(* One record = one real NSphere(dim, n) construction with _pot_energy wrapped: the sequence *)
(* of energies (1e-6 relative to the initial energy, so init = 1 000 000), the energy of the  *)
(* returned configuration, unit-norm deviation (1e-15 units), minimum pairwise distance       *)
(* (1e-9 units), and whether a second construction returned the identical array.              *)
EXTENDS Naturals, Sequences, Fix, Json, IOUtils, TLC
TraceLog == ndJsonDeserialize(IOEnv.TRACE_FILE)
VARIABLE l
MaxItersOf(n) == Max2(10, 10000 \div n)
Clauses(r) == <<
    <<"IterationCount", Len(r.energies) = MaxItersOf(r.n)>>,       \* initial + (max_iters - 1) iterations
    <<"ReturnsBestSeen", r.final = MinSeq(r.energies)>>,
    <<"NeverWorseThanStart", r.final <= r.energies[1]>>,
    <<"UnitNorm", r.normdev <= 1000>>,                             \* 1e-12
    <<"DirectionsDistinct", r.mindist > 1000>>,                    \* > 1e-6
    <<"PointCount", r.npoints = r.n /\ r.ncols = r.dim>>,
    <<"Deterministic", r.same>> >>
Verdict(r) == Failing(Clauses(r))
Init == l = 1
Next == /\ l <= Len(TraceLog)
        /\ LET r == TraceLog[l] v == Verdict(r) IN
             IF v = <<>> THEN TRUE ELSE PrintT(<<"VERDICT", r.id, v>>)
        /\ l' = l + 1
Spec == Init /\ [][Next]_l
Consumed == l = Len(TraceLog) + 1 => PrintT(<<"CONSUMED", l - 1>>)
=============================================================================
