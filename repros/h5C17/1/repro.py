"""calculate_design_conditions: default abscissae for a contour with narrow integer coordinates.

The extent np.max(x) - np.min(x) is formed in the dtype of the coordinates; for int8 / int16
coordinates whose extent exceeds the type's maximum it wraps to a negative number, so the
'small spacer' is negative, the default limits lie OUTSIDE the contour and the abscissae no
longer span the contour's extent (and fewer than the requested number are returned).
"""
import sys
import numpy as np
from virocon import calculate_design_conditions


class Poly:
    def __init__(self, coordinates):
        self.coordinates = coordinates


bad = 0
diamond = np.array([[-100, 0], [0, -100], [100, 0], [0, 100]])
for dtype, scale in ((np.int64, 1), (np.int8, 1), (np.int16, 200)):
    coords = (diamond * scale).astype(dtype)
    ref = calculate_design_conditions(Poly((diamond * scale).astype(float)), steps=5)
    for swap in (False, True):
        got = calculate_design_conditions(Poly(coords), steps=5, swap_axis=swap)
        same = got.shape == ref.shape and np.allclose(got, ref, rtol=1e-12, atol=0)
        print(np.dtype(dtype).name, "swap" if swap else "", "->", len(got), "of 5 design conditions,",
              "abscissae", got[:, 0].round(3).tolist(), "OK" if same else "WRONG")
        bad += not same
    got = calculate_design_conditions(Poly(coords))  # steps=None
    ref = calculate_design_conditions(Poly((diamond * scale).astype(float)))
    same = got.shape == ref.shape and np.allclose(got, ref, rtol=1e-12, atol=0)
    print(np.dtype(dtype).name, "steps=None ->", len(got), "of 10", "OK" if same else "WRONG")
    bad += not same
sys.exit(1 if bad else 0)
