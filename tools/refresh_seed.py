#!/usr/bin/env python3
"""tools/refresh_seed.py seeded/<id> [checks]  - re-run try_seed.py and store the result in meta.json (confirmed_by_lead)"""
import json, subprocess, sys
d = sys.argv[1].rstrip('/')
m = json.load(open(d + '/meta.json'))
checks = sys.argv[2] if len(sys.argv) > 2 else m.get('property')
extra = sys.argv[3:]
out = subprocess.run(['/venv/bin/python', 'tools/try_seed.py', d, '--checks', checks] + extra, capture_output=True, text=True).stdout.strip().split('\n')[-1]
res = json.loads(out)
old = m.get('confirmed_by_lead', {})
m['confirmed_by_lead'] = dict(
    demo_passes_without_change=res.get('demo_clean_rc') == 0, demo_fails_with_change=res.get('demo_patched_rc') not in (0, None),
    existing_tests_pass_with_change=res.get('tests_ok', old.get('existing_tests_pass_with_change')), tests=res.get('tests', old.get('tests')),
    checks=res.get('checks'), ran="tools/try_seed.py %s --checks %s %s" % (d, checks, ' '.join(extra)))
json.dump(m, open(d + '/meta.json', 'w'), indent=1)
print(d, {k: (v['caught'], v['clauses'][:4]) for k, v in res['checks'].items()})
