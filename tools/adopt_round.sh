#!/bin/sh
# tools/adopt_round.sh ROUND CNN...  - adopt out/1 and out/2 of every named property of a seeding round, PAR at a time
R=$1; shift
mkdir -p .work/adopt$R
for p in "$@"; do for k in 1 2; do echo "$p $k"; done; done | xargs -P ${PAR:-4} -L1 sh -c 'ROUND='$R' tools/adopt_seed.sh $0 $1 > .work/adopt'$R'/$0-$1.log 2>&1; tail -1 .work/adopt'$R'/$0-$1.log | cut -c1-400'
