SPECIFICATION Spec
CONSTANTS MaxN = 3  K = 1  Shapes = {2,3,4}  Mut = "none"  EmitCfg = TRUE
CHECK_DEADLOCK FALSE
INVARIANT Emit
