SPECIFICATION Spec
CONSTANTS MaxLen = 4  WithFit = FALSE  Frozen = FALSE
CHECK_DEADLOCK FALSE
INVARIANT Emit
