# C18: slicing that leaves fewer intervals than the explicitly requested min_n_intervals
# is not rejected by NumberOfIntervalsSlicer (the explicit option is silently overwritten).
import sys
import numpy as np
from virocon import (GlobalHierarchicalModel, WeibullDistribution, LogNormalDistribution,
                     DependenceFunction, NumberOfIntervalsSlicer, WidthOfIntervalSlicer)

def lin(x, a=1.0, b=0.1):
    return a + b * x
def const(x, a=0.3):
    return a + 0 * x

data = np.linspace(0.0, 10.0, 1001)
s = NumberOfIntervalsSlicer(5, min_n_points=1, min_n_intervals=6)
violation = False
try:
    slices, refs, bounds = s.slice_(data)
    print(f"slice_ returned {len(slices)} intervals although min_n_intervals=6 was requested "
          f"(slicer.min_n_intervals is now {s.min_n_intervals})")
    violation = len(slices) < 6
except RuntimeError as e:
    print("rejected:", e)

# same request with the sibling slicer is rejected (reference behaviour):
try:
    WidthOfIntervalSlicer(2.0, min_n_points=1, min_n_intervals=7).slice_(data)
    print("WidthOfIntervalSlicer: not rejected")
except RuntimeError as e:
    print("WidthOfIntervalSlicer rejects the same situation:", e)

# and through a model fit
m = GlobalHierarchicalModel([
    {"distribution": WeibullDistribution(2, 1.5),
     "intervals": NumberOfIntervalsSlicer(5, min_n_points=1, min_n_intervals=6)},
    {"distribution": LogNormalDistribution(), "conditional_on": 0,
     "parameters": {"mu": DependenceFunction(lin), "sigma": DependenceFunction(const)}}])
sample = m.draw_sample(1000, random_state=1)
try:
    m.fit(sample)
    print("model.fit computed a fit from 5 intervals although at least 6 were demanded")
    violation = True
except RuntimeError as e:
    print("fit rejected:", e)
sys.exit(1 if violation else 0)
