SPECIFICATION Spec
CONSTANTS Scen = "cond"  NGiven = 2  MutKind = "none"  MutFam = "none"  MutName = "none"
CHECK_DEADLOCK FALSE
INVARIANT CondEqualsTemplateAtValues
INVARIANT VectorisedEqualsPointwise
INVARIANT ChainedSameGiven
INVARIANT FixedSameForAllGiven
INVARIANT OneResultPerGiven
