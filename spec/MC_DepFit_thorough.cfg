SPECIFICATION Spec
CONSTANTS MaxRound = 3  NoRefit = FALSE  EmitBeh = FALSE
CHECK_DEADLOCK FALSE
INVARIANT FittedAfterConditioners
INVARIANT IndependentFitImmediately
