--------------------------- MODULE DesignCondOps ---------------------------
(* Design conditions of a closed polygon (virocon.utils.calculate_design_conditions).   *)
(* Lattice form: vertices <<x, y>> and abscissae are integers (the driver halves them,   *)
(* so abscissae between vertex abscissae exist); an ordinate is a rational <<num, den>>, *)
(* den > 0.  Float form (recorded executions): everything is fixed point 1e-6 and the    *)
(* driver lists per abscissa the ordinates of all edges spanning it.                     *)
EXTENDS Integers, Sequences, FiniteSets, Fix

Closed(P) == P \o <<P[1]>>
SwapXY(P) == [i \in 1..Len(P) |-> <<P[i][2], P[i][1]>>]
NEdge(P) == Len(P)                                  \* edges of the closed polygon
EdgeA(P, i) == P[i]
EdgeB(P, i) == IF i = Len(P) THEN P[1] ELSE P[i + 1]

Rat(n, d) == IF d > 0 THEN <<n, d>> ELSE <<-n, -d>>
RatLeq(r, s) == r[1] * s[2] <= s[1] * r[2]
RatEq(r, s) == r[1] * s[2] = s[1] * r[2]
MaxRat(S) == CHOOSE r \in S : \A s \in S : RatLeq(s, r)
MinRat(S) == CHOOSE r \in S : \A s \in S : RatLeq(r, s)

Spans(a, b, x) == Min2(a[1], b[1]) <= x /\ x <= Max2(a[1], b[1])
(* ordinate of the line through a, b at abscissa x (a, b not on one vertical) *)
OrdAt(a, b, x) == Rat(a[2] * (b[1] - a[1]) + (x - a[1]) * (b[2] - a[2]), b[1] - a[1])

(* the ordinates at which the polygon meets the vertical line at x *)
Hits(P, x) ==
    UNION {LET a == EdgeA(P, i) b == EdgeB(P, i) IN
             IF ~Spans(a, b, x) THEN {}
             ELSE IF a[1] = b[1] THEN {Rat(a[2], 1), Rat(b[2], 1)}
             ELSE {OrdAt(a, b, x)} : i \in 1..NEdge(P)}

(* THE PROPERTY: one row per abscissa that meets the polygon, in the order of X, carrying *)
(* the requested abscissa and the largest ordinate                                       *)
RECURSIVE DesignFrom(_, _, _)
DesignFrom(P, X, k) ==
    IF k > Len(X) THEN <<>>
    ELSE (IF Hits(P, X[k]) = {} THEN <<>> ELSE << <<X[k], MaxRat(Hits(P, X[k]))>> >>)
         \o DesignFrom(P, X, k + 1)
Design(P, X) == DesignFrom(P, X, 1)

XMin(P) == SetMin({P[i][1] : i \in 1..Len(P)})
XMax(P) == SetMax({P[i][1] : i \in 1..Len(P)})
YMin(P) == SetMin({P[i][2] : i \in 1..Len(P)})
YMax(P) == SetMax({P[i][2] : i \in 1..Len(P)})

(* default abscissae: n equally spaced values from min + 1e-4 range to max - 1e-4 range. *)
(* In units of 1 / (10000 (n-1)) (n >= 2):                                                *)
(*   x_i = min * 10000 (n-1) + range (n-1) + i * range * 9998,   i = 0 .. n-1             *)
SpanDen(n) == 10000 * (n - 1)
SpanNum(P, n, i) == XMin(P) * SpanDen(n) + (XMax(P) - XMin(P)) * (n - 1) + i * (XMax(P) - XMin(P)) * 9998

(* ---- float form ---------------------------------------------------------------------- *)
(* a * i / m for 0 <= a, 0 <= i <= m without forming a * i *)
MulDiv(a, i, m) == (a \div m) * i + ((a % m) * i) \div m
(* expected default abscissa i (0-based) of n between lo and hi, fixed point *)
SpanQ(xmin, xmax, n, i) ==
    LET rng == xmax - xmin
        lo == xmin + rng \div 10000
        hi == xmax - rng \div 10000
    IN IF n = 1 THEN lo ELSE lo + MulDiv(hi - lo, i, n - 1)
=============================================================================
