SPECIFICATION Spec
CONSTANTS MaxLen = 4  MaxV = 6  Upw = 2  Skew = 0
CHECK_DEADLOCK FALSE
INVARIANT AtMostOne
INVARIANT ExactlyOne
INVARIANT MembershipIdeal
INVARIANT MaxIncluded
INVARIANT PointsChunkSizes
INVARIANT DropExactlySmall
INVARIANT ErrorIffTooFew
