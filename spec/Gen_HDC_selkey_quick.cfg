SPECIFICATION SpecSelKey
CONSTANTS SelN = 4  SelMaxV = 3
CHECK_DEADLOCK FALSE
