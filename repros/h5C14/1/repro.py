"""C14: constrained fit of a + b*exp(c*x) (exp3 of the predefined models) to small-magnitude
data stops on a slope: the result is not a local minimiser (d ln E / d ln c is about 1) and
its residual is 1.7 % of sum(y^2) although the data are fitted exactly by admissible parameters."""
import sys, warnings
import numpy as np
from virocon import DependenceFunction

warnings.filterwarnings("ignore")


def exp3(x, a, b, c):
    return a + b * np.exp(c * x)


x = np.linspace(0.5, 14.5, 15)                      # 15 support points
ptrue = (0.0026, 0.00136, 0.0997)
y = exp3(x, *ptrue)                                 # exact data, values 0.004 .. 0.008
bounds = [(None, None), (0, None), (0, None)]       # inactive at ptrue
constraint = {"type": "ineq", "fun": lambda p: 1e6 - p[0]}   # a <= 1e6: inactive everywhere near

dep = DependenceFunction(exp3, bounds, constraint)
dep.fit(x, y)
p = np.array(list(dep.parameters.values()))


def E(q):
    return np.sum((exp3(x, *q) - y) ** 2)


Ep = E(p)
print("fitted parameters", p, " residual", Ep, " residual / sum(y^2)", Ep / np.sum(y * y))
print("residual at the (admissible) generating parameters", E(ptrue))

# the same shape, bounds and data without the inactive constraint:
dep2 = DependenceFunction(exp3, bounds)
dep2.fit(x, y)
print("fit without constraint", list(dep2.parameters.values()), E(list(dep2.parameters.values())))

# admissible perturbation: c lowered by 0.1 % (c stays > 0, b stays > 0, constraint inactive)
q = p.copy()
q[2] *= 1 - 1e-3
assert q[1] >= 0 and q[2] >= 0 and constraint["fun"](q) >= 0
Eq = E(q)
# analytic logarithmic derivative of the residual with respect to c
r = exp3(x, *p) - y
dE_dc = 2 * np.sum(r * p[1] * x * np.exp(p[2] * x))
print("E(perturbed)/E(fitted) =", Eq / Ep, "  d ln E / d ln c =", dE_dc * p[2] / Ep)

interior = p[1] > 1e-9 and p[2] > 1e-6
violated = interior and Eq < Ep * (1 - 5e-4) and Ep > 1e-3 * np.sum(y * y)
print("VIOLATION" if violated else "ok")
sys.exit(1 if violated else 0)
