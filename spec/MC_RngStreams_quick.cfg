SPECIFICATION Spec
CONSTANTS Objs = {1,2}  Ns = {3,5}  MaxLen = 3  Mut = "none"  EmitHist = FALSE
CHECK_DEADLOCK FALSE
INVARIANT SameSeedSameSample
INVARIANT DifferentSeedsDiffer
INVARIANT GeneratorAdvances
INVARIANT EqualGeneratorsEqualSample
INVARIANT StreamsIndependent
INVARIANT IdentsAgree
