SPECIFICATION Spec
CONSTANTS
  MaxLen = 12
  MaxMut = 4
  MaxContours = 3
  Deviation = "none"
  EmitBeh = TRUE
INVARIANT Emit
CHECK_DEADLOCK FALSE
