SPECIFICATION Spec
CONSTANTS Scen = "override"  NGiven = 2  MutKind = "inttrunc"  MutFam = "GenGamma"  MutName = "lambda_"
CHECK_DEADLOCK FALSE
INVARIANT OverrideEqualsInstance
