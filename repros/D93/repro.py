"""C08: integer-typed conditioning values given as list / array are evaluated in
integer arithmetic, so one vectorised call differs from evaluating the pairs one
at a time (and from the same values given as floats)."""
import sys
import numpy as np
from virocon import NormalDistribution
from virocon.distributions import ConditionalDistribution
from virocon.dependencies import DependenceFunction

bad = 0


# (a) a + b / x written with an integer exponent
def inverse(x, a=1.0, b=2.0):
    return a + b * x**-1


cd = ConditionalDistribution(
    NormalDistribution(f_sigma=1.0), {"mu": DependenceFunction(inverse)}
)
template = NormalDistribution()
g = [1, 2, 4]
x = [1.5, 2.5, 1.0]
one_at_a_time = np.array([cd.cdf(x_i, g_i) for x_i, g_i in zip(x, g)])
oracle = np.array(
    [template.cdf(x_i, mu=1.0 + 2.0 / g_i, sigma=1.0) for x_i, g_i in zip(x, g)]
)
assert np.allclose(one_at_a_time, oracle, rtol=1e-14)
try:
    vectorised = cd.cdf(x, g)
    if not np.allclose(vectorised, oracle, rtol=1e-12):
        print("(a) vectorised", vectorised, "!= one at a time", one_at_a_time)
        bad += 1
except Exception as e:
    print("(a) one at a time:", one_at_a_time, "- vectorised call raises:", repr(e))
    bad += 1
for meth in ("pdf", "icdf", "draw_sample"):
    try:
        getattr(cd, meth)(*((3, g) if meth == "draw_sample" else ([0.5] * 3, g)))
    except ValueError as e:
        print(f"(a) {meth} with given={g} raises:", e)


# (b) quadratic dependence, conditioning values stored as int16 (e.g. a direction
#     in whole degrees): x**2 wraps around silently.
def poly2(x, a=1e-4, b=0.0, c=1.0):
    return a * x**2 + b * x + c


cd = ConditionalDistribution(
    NormalDistribution(f_sigma=1.0), {"mu": DependenceFunction(poly2)}
)
g16 = np.array([100, 200, 300], dtype=np.int16)
x = np.array([2.0, 5.0, 10.0])
vectorised = cd.cdf(x, g16)
oracle = np.array(
    [template.cdf(x_i, mu=1e-4 * int(g_i) ** 2 + 1.0, sigma=1.0) for x_i, g_i in zip(x, g16)]
)
one_at_a_time = np.array([cd.cdf(x_i, int(g_i)) for x_i, g_i in zip(x, g16)])
assert np.allclose(one_at_a_time, oracle, rtol=1e-14)
if not np.allclose(vectorised, oracle, rtol=1e-12):
    print("(b) vectorised", vectorised, "!= one at a time / template", oracle)
    bad += 1

# (d) the same quadratic dependence with float16 conditioning values: 300**2 is inf
#     in half precision (the interval slicers and the HDC grid already compute in
#     double for narrow float types; the joint model converts its points to float64).
g_half = np.array([100, 200, 300], dtype=np.float16)
cd = ConditionalDistribution(
    NormalDistribution(f_sigma=1.0), {"mu": DependenceFunction(poly2)}
)
vectorised = cd.cdf(x, g_half)
if not np.allclose(vectorised, oracle, rtol=1e-12):
    print("(d) float16 given: vectorised", vectorised, "!= template", oracle)
    bad += 1

# (c) list of Python ints (int64): a high integer power overflows
def power(x, a=0.0, b=1.0, c=10):
    return a + b * x**c


cd = ConditionalDistribution(
    NormalDistribution(f_sigma=1.0), {"mu": DependenceFunction(power)}
)
v = cd.cdf([1e20], [100])[0]
s = cd.cdf(1e20, 100)
f = cd.cdf([1e20], [100.0])[0]
if not (v == s == f):
    print(f"(c) cdf([1e20],[100])={v}, cdf(1e20,100)={s}, cdf([1e20],[100.0])={f}")
    bad += 1

# (e) the joint model disagrees with its own conditional distribution for the same
#     integer-typed points (the model converts them to float, the distribution not)
from virocon import GlobalHierarchicalModel, WeibullDistribution

m = GlobalHierarchicalModel(
    [
        {"distribution": WeibullDistribution(alpha=200, beta=2)},
        {
            "distribution": NormalDistribution(f_sigma=1.0),
            "conditional_on": 0,
            "parameters": {"mu": DependenceFunction(poly2)},
        },
    ]
)
pts = np.array([[100, 2], [200, 5], [300, 10]], dtype=np.int16)
joint = m.pdf(pts)
factors = m.distributions[0].pdf(pts[:, 0]) * m.distributions[1].pdf(
    pts[:, 1], given=pts[:, 0]
)
if not np.allclose(joint, factors, rtol=1e-12):
    print("(e) model.pdf", joint, "!= product of its factors", factors)
    bad += 1

sys.exit(1 if bad else 0)
