#!/usr/bin/env python3
"""Regenerates the per-property coverage table of DESIGN.md 9.3 (between the COVERAGE-TABLE markers) from
evidence/*.json (quick tier, written by the checks) and, where present, .work/thorough/CNN.out (last thorough run)."""
import glob, json, os, re
V = os.path.dirname(os.path.dirname(os.path.abspath(__file__)))
rows = []
for f in sorted(glob.glob(os.path.join(V, "evidence", "C*.json"))):
    e = json.load(open(f))
    pid = e["property_id"]
    c = e["coverage"]
    runs = c.get("model_checking_runs", [])
    mods = []
    for r in runs:
        if r["module"] not in mods:
            mods.append(r["module"])
    must = sum(1 for r in runs if r.get("violated"))
    th = ""
    p = os.path.join(V, ".work", "thorough", f"{pid}.out")
    if os.path.exists(p):
        last = open(p).read().strip().split("\n")[-1]
        m = re.search(r"tier=thorough seed=\d+: (\d+) cases .*?(\d+) TLC states, (\d+) impl traces accepted, ([\d.]+)s", last)
        if m:
            th = f"{int(m.group(1)):,} cases, {int(m.group(2)):,} states, {float(m.group(4)) / 60:.1f} min".replace(",", " ")
    rows.append(f"| {pid} | {', '.join(mods)} | {c.get('states', 0):,} in {len(runs)} runs ({must} named deviations violate as required) | "
                f"{c['evaluations']:,} cases ({c['distinct_nontrivial']:,} distinct non-trivial), {c.get('traces_validated_against_impl', 0):,} records judged by TLC | "
                f"{e.get('wall_s', 0):.0f} s | {th or '-'} |".replace(",", " "))
table = ("| id | TLA+ modules model-checked | TLC states (quick) | executions of the real code (quick) | wall (quick) | thorough (last run) |\n"
         "|---|---|---|---|---|---|\n" + "\n".join(rows))
p = os.path.join(V, "DESIGN.md")
s = open(p).read()
s = re.sub(r"<!-- COVERAGE-TABLE-BEGIN -->.*<!-- COVERAGE-TABLE-END -->", "<!-- COVERAGE-TABLE-BEGIN -->\n" + table + "\n<!-- COVERAGE-TABLE-END -->", s, flags=re.S)
open(p, "w").write(s)
print(len(rows), "rows")
