SPECIFICATION Spec
CONSTANTS Depth = 1  MaxLen = 4  Memo = TRUE
CHECK_DEADLOCK FALSE
INVARIANT CondEqualsTemplateAlongHistory
