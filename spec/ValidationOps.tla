---------------------------- MODULE ValidationOps ----------------------------
(* C18 - ill-formed model, fit and contour specifications are rejected, not computed.    *)
(*                                                                                       *)
(* A CASE is everything a user supplies on the way  describe/construct -> slice -> fit   *)
(* -> compute, over abstract field domains:                                              *)
(*   dims : one record per dimension (0-based index i0 = position - 1)                   *)
(*          dist   in {"Ok", "Missing", "None"}            key 'distribution' (None: the  *)
(*                   mandatory key is present, its value is None)                        *)
(*          cond   in {Absent, CondNone} \cup -1..n        key 'conditional_on'          *)
(*          params in {"Absent", "Exact", "MissingOne", "UnknownName",                   *)
(*                     "FixedAndDependent", "DepUnknownParam", "DepMisspeltOption",      *)
(*                     "EntryNone", "EntryNumber"}  (an entry that is None / a number)   *)
(*                     key 'parameters' (the last two: a dependence function built with  *)
(*                     a keyword that is neither an option nor a parameter of its func)  *)
(*          extra  in BOOLEAN                              an unknown key                *)
(*          slicer in {"Ok", "UnknownKwarg", "UnknownRef", "RefWrongType", "TooFew",     *)
(*                     "RangeAboveData"}                                                  *)
(*   fit  : [kind, pos]  fit_descriptions: "None" | "Ok" | "TooShort" | "TooLong" |      *)
(*          "MissingMethod" | "UnknownMethod" | "UnknownWeights" | "UnknownKey" |        *)
(*          "UnknownKeyPlus" (an unknown key next to valid 'method' and 'weights')       *)
(*          (at dimension pos)                                                           *)
(*   data : "Ok" | "TooFewCols" | "TooManyCols" | "OneDim" | "Ndim3"                     *)
(*   op   : [kind, arg, pos]  what is computed from the fitted model:                    *)
(*          kind in {"iform", "hdc", "ds", "and", "or", "pdf", "cdf", "mpdf", "mcdf",    *)
(*          "micdf", "ccdf", "cicdf" (marginal_* / conditional_* of dimension pos),      *)
(*          "tpdf" (TransformedModel.pdf)}, arg "Ok" or the malformed argument           *)
(*   mal  : the malformations that were injected (for keys and CatalogueConsistent)      *)
(*   ctx  : the CONTEXT in which they are injected - the rest of the call, which a        *)
(*          validation must not depend on:                                                *)
(*          fixed  : 0-based unconditional dimension whose carrier has EVERY parameter    *)
(*                   fixed (f_<par> given for all), -1 = none                             *)
(*          sample : "none" | "two" | "ndim"  a caller-supplied Monte-Carlo sample with   *)
(*                   2 / n columns for the 2-D-only contours                              *)
(*          fitted : FALSE = the operation is applied to the constructed, unfitted model  *)
(*          opt    : "given" | "omitted"  the other optional arguments (HDC deltas)       *)
(*          fixval : the fixed value of a parameter that is both fixed and dependent        *)
(*                   ("nonzero" | zero as int / float / -0.0 / numpy float / numpy int)     *)
(*          container : the container / dtype of non-finite evaluation points               *)
(*          skind  : "any" | "Width" | "Number" | "Points"  which slicer class carries    *)
(*                   the unknown option, skw : its name ("bogus" = no slicer knows it)    *)
(* Stages are numbered construct 1 < slice 2 < fit 3 < compute 4; 5 = a result exists.   *)
EXTENDS Integers, Sequences, FiniteSets, Fix

Absent == -9       \* key 'conditional_on' not present
CondNone == -8     \* 'conditional_on': None written out

(* valid dependency structures of 1-4 dimensional models *)
Bases == << <<Absent>>,
            <<Absent, Absent>>, <<Absent, 0>>,
            <<Absent, 0, 0>>, <<Absent, 0, 1>>, <<Absent, Absent, 1>>,
            <<Absent, 0, 1, 2>>, <<Absent, 0, 0, 1>>, <<Absent, Absent, 1, 0>> >>

OkOp(kind) == [kind |-> kind, arg |-> "Ok", pos |-> 0]
DefaultCtx == [fixed |-> -1, sample |-> "none", fitted |-> TRUE, opt |-> "given",
               skind |-> "any", skw |-> "bogus", fixval |-> "nonzero", container |-> "float64"]

(* how non-finite evaluation points are handed over: a float64 ndarray, an ndarray of dtype *)
(* object, an object-typed pandas DataFrame / Series, a float32 ndarray, a nested list      *)
Containers == {"float64", "object", "pandas", "float32", "list"}

(* the value at which the parameter that is "both fixed and dependent" is fixed: a value is  *)
(* fixed when it is not None - zero in any spelling is a fixed value like every other        *)
FixedValues == {"nonzero", "int0", "float0", "negzero", "npfloat0", "npint0"}

(* documented constructor options of the three slicers; an option of a SIBLING slicer is  *)
(* as unknown to a slicer as a bogus name                                                 *)
SlicerKinds == {"Width", "Number", "Points"}
CommonOptions == {"min_n_points", "min_n_intervals"}
OwnOptions(k) == CASE k = "Width"  -> {"width", "reference", "right_open", "value_range"}
                   [] k = "Number" -> {"n_intervals", "reference", "include_max", "value_range"}
                   [] k = "Points" -> {"n_points", "reference", "last_full"}
ForeignOptions(k) == (UNION {OwnOptions(j) : j \in SlicerKinds}) \ OwnOptions(k)
BaseCase(b, op, fitkind) ==
    [b |-> b, n |-> Len(Bases[b]),
     dims |-> [i \in 1..Len(Bases[b]) |->
                 [dist |-> "Ok", cond |-> Bases[b][i],
                  params |-> IF Bases[b][i] = Absent THEN "Absent" ELSE "Exact",
                  extra |-> FALSE, slicer |-> "Ok"]],
     fit |-> [kind |-> fitkind, pos |-> 0], data |-> "Ok", op |-> op, mal |-> <<>>,
     ctx |-> DefaultCtx]

----------------------------------------------------------------------------
(* the documented rules                                                        *)

IsCond(dm) == dm.cond \notin {Absent, CondNone}
(* hierarchy rule: a conditional dimension i0 >= 1 depends on an EARLIER one *)
HierarchyOk(i0, cond) == i0 >= 1 /\ 0 <= cond /\ cond < i0

DescOk(i0, dm) ==                       \* what the model description must satisfy
    /\ dm.dist = "Ok"
    /\ ~dm.extra
    \* 'parameters' describes the dependence of a CONDITIONAL variable: without (or with None)
    \* 'conditional_on' it is ill-formed (it used to be dropped silently)
    /\ IF ~IsCond(dm) THEN dm.params = "Absent"
       ELSE HierarchyOk(i0, dm.cond) /\ dm.params = "Exact"
(* a slicer is checked where it is supplied, i.e. when it is constructed: option names and  *)
(* the reference (keyword / type); what only the data can tell is checked when slicing       *)
SlicerBuildOk(dm) == dm.slicer \notin {"UnknownKwarg", "UnknownRef", "RefWrongType"}
SlicerUseOk(dm) == dm.slicer \notin {"TooFew", "RangeAboveData"}
FitOk(c) == c.fit.kind \in {"None", "Ok"} /\ c.data = "Ok"
TwoDimOnly == {"ds", "and", "or"}
OpOk(c) == c.op.arg = "Ok" /\ (c.op.kind \in TwoDimOnly => c.n = 2)

WellFormed(c) ==
    /\ \A i \in 1..c.n : DescOk(i - 1, c.dims[i]) /\ SlicerBuildOk(c.dims[i]) /\ SlicerUseOk(c.dims[i])
    /\ FitOk(c)
    /\ OpOk(c)

(* where the first ill-formed input is supplied (5 = nowhere) *)
Stage(c) ==
    IF \E i \in 1..c.n : ~DescOk(i - 1, c.dims[i]) \/ ~SlicerBuildOk(c.dims[i]) THEN 1
    ELSE IF \E i \in 1..c.n : ~SlicerUseOk(c.dims[i]) THEN 2
    ELSE IF ~FitOk(c) THEN 3
    ELSE IF ~OpOk(c) THEN 4
    ELSE 5

(* 'conditional_on': None is only enumerated together with 'parameters' *)
(* the malformed arguments that are non-finite evaluation points (x, p or given) *)
NonFiniteArgs == {"PdfNaN", "PdfInf", "CdfNaN", "CdfInf", "MpdfNaN", "MpdfInf", "McdfNaN", "McdfInf", "MicdfNaN",
                  "MicdfInf", "CcdfNaN", "CcdfInf", "CcdfGivenNaN", "CcdfGivenInf", "CicdfNaN", "CicdfInf",
                  "CicdfGivenNaN", "CicdfGivenInf", "TpdfNaN", "TpdfInf"}
FitAtNames == {"MissingMethod", "MethodNone", "UnknownMethod", "UnknownWeights", "UnknownKey", "UnknownKeyPlus"}
InDomain(c) ==
    /\ \A i \in 1..c.n : c.dims[i].cond = CondNone => c.dims[i].params # "Absent"
    \* an all-fixed carrier only where the fit description of that (unconditional) dimension is
    \* malformed: scipy itself refuses a well-formed fit of a distribution with nothing to estimate
    /\ (c.ctx.fixed # -1 => /\ c.ctx.fixed \in 0..(c.n - 1)
                             /\ c.dims[c.ctx.fixed + 1].cond = Absent
                             /\ c.dims[c.ctx.fixed + 1].params = "Absent"
                             /\ c.fit.kind \in FitAtNames /\ c.fit.pos = c.ctx.fixed)
    \* an unfitted model only where everything up to the fit is well-formed
    /\ (~c.ctx.fitted => c.fit.kind \in {"None", "Ok"} /\ c.data = "Ok")
    /\ (c.ctx.sample # "none" => c.op.kind \in TwoDimOnly)
    /\ (c.ctx.opt # "given" => c.op.kind = "hdc")
    /\ (c.ctx.container # "float64" => c.op.arg \in NonFiniteArgs)
    /\ (c.ctx.fixval # "nonzero" => \E i \in 1..c.n : c.dims[i].params = "FixedAndDependent")
    /\ (c.ctx.skind # "any" =>
          \/ /\ \E i \in 1..c.n : c.dims[i].slicer = "UnknownKwarg"
             /\ (c.ctx.skw = "bogus" \/ c.ctx.skw \in ForeignOptions(c.ctx.skind))
          \/ /\ \E i \in 1..c.n : c.dims[i].slicer \in {"UnknownRef", "RefWrongType"}
             /\ c.ctx.skw = "reference"
          \/ /\ \E i \in 1..c.n : c.dims[i].slicer = "RangeAboveData"
             /\ c.ctx.skw = "value_range" /\ c.ctx.skind \in {"Width", "Number"})

Documented == {"ValueError", "TypeError", "RuntimeError", "NotImplementedError"}

----------------------------------------------------------------------------
(* the catalogue of malformations: [name, pos] with pos = 0-based dimension (0 if none)  *)

M(name, pos) == [name |-> name, pos |-> pos]
CondNames == {"CondSelf", "CondLater", "CondNonexistent", "CondNegative", "FirstConditional"}
ParamNames == {"CondNoParams", "ParamMissingOne", "ParamUnknownName", "ParamFixedAndDependent",
               "ParamDepUnknownParam", "ParamDepMisspeltOption", "ParamEntryNone", "ParamEntryNumber"}
UncondParamNames == {"ParamsNoCond", "ParamsNoCondUnknown"}       \* 'parameters' on an unconditional variable
SlicerNames == {"SlicerUnknownKwarg", "SlicerUnknownRef", "SlicerRefWrongType", "SlicerTooFew",
                "SlicerRangeAboveData"}
(* non-finite / surplus evaluation points of the marginal_*, conditional_* and TransformedModel entry points *)
PointNames == {"MpdfNaN", "MpdfInf", "McdfNaN", "McdfInf", "MicdfNaN", "MicdfInf", "CcdfNaN", "CcdfInf",
               "CcdfGivenNaN", "CcdfGivenInf", "CicdfNaN", "CicdfInf", "CicdfGivenNaN", "CicdfGivenInf",
               "TpdfNaN", "TpdfInf"}
SurplusNames == {"PdfSurplus", "CdfSurplus", "TpdfSurplus"}
SingleOnly == PointNames \cup SurplusNames \cup {"DataNdim3", "CondNoneParams"}          \* injected singly, not in pairs

Malformations(b) ==
    LET n == Len(Bases[b]) D == 0..(n - 1) IN
      {M("NoDistribution", i) : i \in D} \cup {M("ExtraKey", i) : i \in D} \cup {M("DistributionNone", i) : i \in D}
      \cup {M("FitMethodNone", i) : i \in D}
      \cup {M(nm, i) : nm \in ParamNames, i \in {k \in D : Bases[b][k + 1] # Absent}}
      \cup {M(nm, i) : nm \in UncondParamNames \cup {"CondNoneParams"}, i \in {k \in D : Bases[b][k + 1] = Absent}}
      \cup {M(nm, i) : nm \in PointNames, i \in D} \cup {M(nm, 0) : nm \in SurplusNames}
      \cup {M(nm, i) : nm \in {"CondSelf", "CondNonexistent", "CondNegative"}, i \in D \ {0}}
      \cup {M("CondLater", i) : i \in {k \in D : k >= 1 /\ k + 1 <= n - 1}}
      \cup {M("FirstConditional", 0)}
      \cup {M(nm, i) : nm \in SlicerNames, i \in D}
      \cup {M("FitTooShort", 0), M("FitTooLong", 0)}
      \cup {M(nm, i) : nm \in {"FitMissingMethod", "FitUnknownMethod", "FitUnknownWeights", "FitUnknownKey",
                               "FitUnknownKeyPlus"}, i \in D}
      \cup {M("DataTooFewCols", 0), M("DataTooManyCols", 0), M("DataOneDim", 0), M("DataNdim3", 0)}
      \cup {M(nm, 0) : nm \in {"HdcLimitsShort", "HdcLimitsLong", "HdcDeltasShort", "HdcDeltasLong",
                               "IformString", "IformDist", "IformNone"}}
      \cup {M(nm, i) : nm \in {"HdcLimitsNotPair", "HdcLimitsScalar", "PdfNaN", "PdfInf", "CdfNaN", "CdfInf"},
                       i \in D}
      \cup (IF n # 2 THEN {M("NonTwoDimDs", 0), M("NonTwoDimAnd", 0), M("NonTwoDimOr", 0)} ELSE {})

(* the field a malformation writes: two malformations of the same field are not combined *)
Field(m) ==
    CASE m.name \in {"NoDistribution", "DistributionNone"} -> <<"dist", m.pos>>
      [] m.name = "ExtraKey"       -> <<"extra", m.pos>>
      [] m.name \in CondNames \cup {"CondNoneParams"} -> <<"cond", m.pos>>
      [] m.name \in ParamNames \cup UncondParamNames -> <<"params", m.pos>>
      [] m.name \in SlicerNames    -> <<"slicer", m.pos>>
      [] m.name \in {"FitTooShort", "FitTooLong", "FitMissingMethod", "FitUnknownMethod",
                     "FitUnknownWeights", "FitUnknownKey", "FitUnknownKeyPlus", "FitMethodNone"} -> <<"fit", 0>>
      [] m.name \in {"DataTooFewCols", "DataTooManyCols", "DataOneDim", "DataNdim3"} -> <<"data", 0>>
      [] OTHER -> <<"op", 0>>

OpOf(m) ==
    CASE m.name \in {"HdcLimitsShort", "HdcLimitsLong", "HdcDeltasShort", "HdcDeltasLong",
                     "HdcLimitsNotPair", "HdcLimitsScalar"} -> [kind |-> "hdc", arg |-> m.name, pos |-> m.pos]
      [] m.name \in {"PdfNaN", "PdfInf", "PdfSurplus"} -> [kind |-> "pdf", arg |-> m.name, pos |-> m.pos]
      [] m.name \in {"CdfNaN", "CdfInf", "CdfSurplus"} -> [kind |-> "cdf", arg |-> m.name, pos |-> m.pos]
      [] m.name \in {"MpdfNaN", "MpdfInf"} -> [kind |-> "mpdf", arg |-> m.name, pos |-> m.pos]
      [] m.name \in {"McdfNaN", "McdfInf"} -> [kind |-> "mcdf", arg |-> m.name, pos |-> m.pos]
      [] m.name \in {"MicdfNaN", "MicdfInf"} -> [kind |-> "micdf", arg |-> m.name, pos |-> m.pos]
      [] m.name \in {"CcdfNaN", "CcdfInf", "CcdfGivenNaN", "CcdfGivenInf"} -> [kind |-> "ccdf", arg |-> m.name, pos |-> m.pos]
      [] m.name \in {"CicdfNaN", "CicdfInf", "CicdfGivenNaN", "CicdfGivenInf"} -> [kind |-> "cicdf", arg |-> m.name, pos |-> m.pos]
      [] m.name \in {"TpdfNaN", "TpdfInf", "TpdfSurplus"} -> [kind |-> "tpdf", arg |-> m.name, pos |-> m.pos]
      [] m.name \in {"IformString", "IformDist", "IformNone"} -> [kind |-> "iform", arg |-> m.name, pos |-> 0]
      [] m.name = "NonTwoDimDs"  -> OkOp("ds")
      [] m.name = "NonTwoDimAnd" -> OkOp("and")
      [] m.name = "NonTwoDimOr"  -> OkOp("or")

SetCond(c, i, v) ==
    [c EXCEPT !.dims[i].cond = v, !.dims[i].params = IF @ = "Absent" THEN "Exact" ELSE @]

ApplyOne(c, m) ==
    LET i == m.pos + 1 IN
    CASE m.name = "NoDistribution"   -> [c EXCEPT !.dims[i].dist = "Missing"]
      [] m.name = "DistributionNone" -> [c EXCEPT !.dims[i].dist = "None"]
      [] m.name = "FitMethodNone"    -> [c EXCEPT !.fit = [kind |-> "MethodNone", pos |-> m.pos]]
      [] m.name = "ExtraKey"         -> [c EXCEPT !.dims[i].extra = TRUE]
      [] m.name = "CondNoParams"     -> [c EXCEPT !.dims[i].params = "Absent"]
      [] m.name = "ParamMissingOne"  -> [c EXCEPT !.dims[i].params = "MissingOne"]
      [] m.name = "ParamUnknownName" -> [c EXCEPT !.dims[i].params = "UnknownName"]
      [] m.name = "ParamFixedAndDependent" -> [c EXCEPT !.dims[i].params = "FixedAndDependent"]
      [] m.name = "ParamDepUnknownParam" -> [c EXCEPT !.dims[i].params = "DepUnknownParam"]
      [] m.name = "ParamDepMisspeltOption" -> [c EXCEPT !.dims[i].params = "DepMisspeltOption"]
      [] m.name = "ParamEntryNone"   -> [c EXCEPT !.dims[i].params = "EntryNone"]     \* neither fixed nor dependent (D107)
      [] m.name = "ParamEntryNumber" -> [c EXCEPT !.dims[i].params = "EntryNumber"]   \* a number is not a dependence function
      [] m.name = "ParamsNoCond"     -> [c EXCEPT !.dims[i].params = "Exact"]
      [] m.name = "ParamsNoCondUnknown" -> [c EXCEPT !.dims[i].params = "UnknownName"]
      [] m.name = "CondNoneParams"   -> [c EXCEPT !.dims[i].cond = CondNone, !.dims[i].params = "Exact"]
      [] m.name = "CondSelf"         -> SetCond(c, i, m.pos)
      [] m.name = "CondLater"        -> SetCond(c, i, m.pos + 1)
      [] m.name = "CondNonexistent"  -> SetCond(c, i, c.n)
      [] m.name = "CondNegative"     -> SetCond(c, i, -1)
      [] m.name = "FirstConditional" -> SetCond(c, 1, 0)
      [] m.name = "SlicerUnknownKwarg" -> [c EXCEPT !.dims[i].slicer = "UnknownKwarg"]
      [] m.name = "SlicerUnknownRef"   -> [c EXCEPT !.dims[i].slicer = "UnknownRef"]
      [] m.name = "SlicerRefWrongType" -> [c EXCEPT !.dims[i].slicer = "RefWrongType"]
      [] m.name = "SlicerTooFew"       -> [c EXCEPT !.dims[i].slicer = "TooFew"]
      [] m.name = "SlicerRangeAboveData" -> [c EXCEPT !.dims[i].slicer = "RangeAboveData"]
      [] m.name = "FitTooShort"      -> [c EXCEPT !.fit = [kind |-> "TooShort", pos |-> 0]]
      [] m.name = "FitTooLong"       -> [c EXCEPT !.fit = [kind |-> "TooLong", pos |-> 0]]
      [] m.name = "FitMissingMethod" -> [c EXCEPT !.fit = [kind |-> "MissingMethod", pos |-> m.pos]]
      [] m.name = "FitUnknownMethod" -> [c EXCEPT !.fit = [kind |-> "UnknownMethod", pos |-> m.pos]]
      [] m.name = "FitUnknownWeights" -> [c EXCEPT !.fit = [kind |-> "UnknownWeights", pos |-> m.pos]]
      [] m.name = "FitUnknownKey"    -> [c EXCEPT !.fit = [kind |-> "UnknownKey", pos |-> m.pos]]
      [] m.name = "FitUnknownKeyPlus" -> [c EXCEPT !.fit = [kind |-> "UnknownKeyPlus", pos |-> m.pos]]
      [] m.name = "DataTooFewCols"   -> [c EXCEPT !.data = "TooFewCols"]
      [] m.name = "DataTooManyCols"  -> [c EXCEPT !.data = "TooManyCols"]
      [] m.name = "DataOneDim"       -> [c EXCEPT !.data = "OneDim"]
      [] m.name = "DataNdim3"        -> [c EXCEPT !.data = "Ndim3"]
      [] OTHER                       -> [c EXCEPT !.op = OpOf(m)]

(* canonical order of a pair: by catalogue index, the 'conditional_on' malformations first *)
(* (one may add the 'parameters' that a 'parameters' malformation then spoils)             *)
AllNames == <<"CondSelf", "CondLater", "CondNonexistent", "CondNegative", "FirstConditional",
              "NoDistribution", "ExtraKey", "CondNoParams", "ParamMissingOne", "ParamUnknownName",
              "ParamFixedAndDependent", "SlicerUnknownKwarg", "SlicerUnknownRef", "SlicerRefWrongType",
              "SlicerTooFew", "FitTooShort", "FitTooLong", "FitMissingMethod", "FitUnknownMethod",
              "FitUnknownWeights", "DataTooFewCols", "DataTooManyCols", "DataOneDim", "HdcLimitsShort",
              "HdcLimitsLong", "HdcDeltasShort", "HdcDeltasLong", "HdcLimitsNotPair", "HdcLimitsScalar",
              "PdfNaN", "PdfInf", "CdfNaN", "CdfInf", "IformString", "IformDist", "IformNone",
              "NonTwoDimDs", "NonTwoDimAnd", "NonTwoDimOr", "CondNoneParams", "ParamsNoCond",
              "ParamsNoCondUnknown", "SlicerRangeAboveData", "DataNdim3", "PdfSurplus", "CdfSurplus",
              "TpdfSurplus", "MpdfNaN", "MpdfInf", "McdfNaN", "McdfInf", "MicdfNaN", "MicdfInf", "CcdfNaN",
              "CcdfInf", "CcdfGivenNaN", "CcdfGivenInf", "CicdfNaN", "CicdfInf", "CicdfGivenNaN",
              "CicdfGivenInf", "TpdfNaN", "TpdfInf", "FitUnknownKey", "FitUnknownKeyPlus",
              "ParamDepUnknownParam", "ParamDepMisspeltOption", "DistributionNone", "FitMethodNone",
              "ParamEntryNone", "ParamEntryNumber">>
Idx(name) == CHOOSE k \in 1..Len(AllNames) : AllNames[k] = name
Key(m) == IF m.name = "CondNoneParams" THEN m.pos ELSE 10 * Idx(m.name) + m.pos   \* cond-type first

Single(b, m) == [ApplyOne(BaseCase(b, OkOp("iform"), "None"), m) EXCEPT !.mal = <<m>>]
Pair(b, m1, m2) ==      \* m1 is applied first
    [ApplyOne(ApplyOne(BaseCase(b, OkOp("iform"), "None"), m1), m2) EXCEPT !.mal = <<m1, m2>>]

(* well-formed cases: every base with every valid operation and fit description *)
ValidOps(n) == {"iform", "pdf", "mpdf", "mcdf", "micdf", "ccdf", "cicdf", "tpdf"} \cup (IF n = 1 THEN {"cdf"} ELSE {})
                \cup (IF n <= 2 THEN {"hdc"} ELSE {}) \cup (IF n = 2 THEN TwoDimOnly ELSE {})
GoodCases(BS) ==
    UNION {{BaseCase(b, OkOp(k), fk) : k \in ValidOps(Len(Bases[b])), fk \in {"None", "Ok"}} : b \in BS}
Singles(BS) == UNION {{Single(b, m) : m \in Malformations(b)} : b \in BS}
Pairs(BS) ==
    UNION {{Pair(b, mm[1], mm[2]) :
              mm \in {x \in (Malformations(b) \ {y \in Malformations(b) : y.name \in SingleOnly})
                           \X (Malformations(b) \ {y \in Malformations(b) : y.name \in SingleOnly}) :
                         Key(x[1]) < Key(x[2]) /\ Field(x[1]) # Field(x[2])}} : b \in BS}
(* the contexts in which a well-formed case / a single malformation is additionally run *)
Ctx(fx, sm, ft, op) == [DefaultCtx EXCEPT !.fixed = fx, !.sample = sm, !.fitted = ft, !.opt = op]
Contexts(c) ==
    {DefaultCtx}
    \cup (IF Len(c.mal) = 1 /\ c.fit.kind \in FitAtNames /\ c.dims[c.fit.pos + 1].cond = Absent
          THEN {Ctx(c.fit.pos, "none", TRUE, "given")} ELSE {})
    \cup (IF c.op.kind \in TwoDimOnly /\ Len(c.mal) <= 1 /\ (c.mal = <<>> \/ Field(c.mal[1]) = <<"op", 0>>)
          THEN {Ctx(-1, "two", TRUE, "given"), Ctx(-1, "ndim", TRUE, "given"), Ctx(-1, "two", FALSE, "given")}
          ELSE {})
    \cup (IF Len(c.mal) <= 1 /\ (c.mal = <<>> \/ Field(c.mal[1]) = <<"op", 0>>)
          THEN {Ctx(-1, "none", FALSE, "given")} ELSE {})
    \cup (IF Len(c.mal) = 1 /\ c.op.kind = "hdc" /\ c.op.arg \in {"HdcLimitsShort", "HdcLimitsLong",
                                                                  "HdcLimitsNotPair", "HdcLimitsScalar"}
          THEN {Ctx(-1, "none", TRUE, "omitted"), Ctx(-1, "none", FALSE, "omitted")} ELSE {})
SlicerCtxs(c) ==      \* every slicer class x (a bogus name and every option only a sibling knows)
    IF Len(c.mal) = 1 /\ c.mal[1].name = "SlicerUnknownKwarg"
    THEN UNION {{[DefaultCtx EXCEPT !.skind = k, !.skw = o] : o \in {"bogus"} \cup ForeignOptions(k)} :
                 k \in SlicerKinds}
    ELSE IF Len(c.mal) = 1 /\ c.mal[1].name \in {"SlicerUnknownRef", "SlicerRefWrongType"}
    THEN {[DefaultCtx EXCEPT !.skind = k, !.skw = "reference"] : k \in SlicerKinds}     \* all three slicers
    ELSE IF Len(c.mal) = 1 /\ c.mal[1].name = "SlicerRangeAboveData"
    THEN {[DefaultCtx EXCEPT !.skind = k, !.skw = "value_range"] : k \in {"Width", "Number"}}
    ELSE {}
ContainerCtxs(c) ==
    IF Len(c.mal) = 1 /\ c.mal[1].name \in NonFiniteArgs
    THEN {[DefaultCtx EXCEPT !.container = k] : k \in Containers} ELSE {}
FixedCtxs(c) ==
    IF Len(c.mal) = 1 /\ c.mal[1].name = "ParamFixedAndDependent"
    THEN {[DefaultCtx EXCEPT !.fixval = v] : v \in FixedValues} ELSE {}
InContexts(S) == UNION {{[c EXCEPT !.ctx = x] : x \in Contexts(c) \cup SlicerCtxs(c) \cup FixedCtxs(c) \cup ContainerCtxs(c)} : c \in S}
AllCases(BS, PairBS) == InContexts(GoodCases(BS) \cup Singles(BS)) \cup Pairs(PairBS)

----------------------------------------------------------------------------
(* the checks as the code performs them, in its order: first exception class per stage   *)
(* ("none" = the stage passes).  hc = FALSE models the deviation D10 "no hierarchy check" *)
ConstructExc(c, hc, sc) ==
    IF (\E i \in 1..c.n : c.dims[i].slicer = "UnknownKwarg")
       /\ ~(sc = "slicerkw" /\ c.ctx.skw = "value_range")    \* deviation: option hoisted into the base class
    THEN "TypeError"                                                             \* building the slicer
    ELSE IF sc # "depkwignored" /\ \E i \in 1..c.n : c.dims[i].params \in {"DepUnknownParam", "DepMisspeltOption"}
         THEN "TypeError"                                          \* building the dependence function
    ELSE IF sc # "lateref" /\ \E i \in 1..c.n : c.dims[i].slicer = "RefWrongType" THEN "TypeError"
    ELSE IF sc # "lateref" /\ \E i \in 1..c.n : c.dims[i].slicer = "UnknownRef" THEN "ValueError"
    ELSE IF \E i \in 1..c.n :                                                  \* _check_dist_descriptions
              LET dm == c.dims[i] IN
                \/ dm.dist = "Missing"
                \/ (dm.dist = "None" /\ sc # "noneaccepted")       \* a mandatory key whose value is None
                \/ (IsCond(dm) /\ dm.params = "Absent")
                \/ (sc # "paramsignored" /\ ~IsCond(dm) /\ dm.params # "Absent")
                \/ (hc /\ i > 1 /\ IsCond(dm) /\ ~HierarchyOk(i - 1, dm.cond))
                \/ dm.extra
         THEN "ValueError"
    ELSE IF \E i \in 1..c.n : IsCond(c.dims[i]) /\ c.dims[i].params # "Exact"
                             /\ c.dims[i].params \notin {"DepUnknownParam", "DepMisspeltOption"}   \* (dropped silently)
                             \* deviation: "fixed" tested by truth value, so a parameter fixed at zero is not seen
                             /\ ~(sc = "falsyfixed" /\ c.dims[i].params = "FixedAndDependent"
                                  /\ c.ctx.fixval # "nonzero")
                             \* deviation (before D107): an entry that is None / a number passes the constructor
                             /\ ~(sc = "entryaccepted" /\ c.dims[i].params \in {"EntryNone", "EntryNumber"})
         THEN "ValueError"                                                      \* ConditionalDistribution
    ELSE IF IsCond(c.dims[1]) THEN "RuntimeError"                                \* first dimension
    ELSE "none"
SliceExc(c, sc) ==
    LET bad == {i \in 1..c.n : ~SlicerUseOk(c.dims[i])
                              \/ (sc = "lateref" /\ c.dims[i].slicer \in {"UnknownRef", "RefWrongType"})} IN
      IF bad = {} THEN "none"
      ELSE LET s == c.dims[SetMin(bad)].slicer IN
             CASE s = "UnknownRef" -> "ValueError" [] s = "RefWrongType" -> "TypeError"
               [] OTHER -> "RuntimeError"
(* sc = named shortcut deviations: "allfixed" = fit returns before validating the method   *)
(* when nothing is to be estimated; "sample" = the 2-D check of DirectSampling is only      *)
(* made when the sample has to be drawn                                                     *)
FitExc(c, sc) ==
    IF FitOk(c) THEN "none"
    ELSE IF sc = "noneaccepted" /\ c.data = "Ok" /\ c.fit.kind = "MethodNone"
            /\ IsCond(c.dims[c.fit.pos + 1]) THEN "none"      \* (was fitted as mle at conditional positions)
    ELSE IF sc = "fitkeyignored" /\ c.data = "Ok" /\ c.fit.kind \in {"UnknownKey", "UnknownKeyPlus"} THEN "none"
    ELSE IF sc = "allfixed" /\ c.data = "Ok" /\ c.fit.kind \in {"UnknownMethod", "UnknownWeights"}
            /\ c.ctx.fixed = c.fit.pos THEN "none"
    ELSE "ValueError"
ComputeExc(c, sc) ==
    IF sc = "entryaccepted" /\ \E i \in 1..c.n : c.dims[i].params \in {"EntryNone", "EntryNumber"}
    THEN "TypeError"                                  \* 'NoneType' object is not callable, at the first evaluation
    ELSE IF OpOk(c) THEN "none"
    \* deviation: the finiteness check does not look into object-typed containers
    ELSE IF sc = "objectunchecked" /\ c.ctx.container \in {"object", "pandas"} /\ c.op.arg \in NonFiniteArgs
         THEN "none"
    ELSE IF sc = "sample" /\ c.op.kind = "ds" /\ c.op.arg = "Ok" /\ c.ctx.sample = "two" THEN "none"
    ELSE IF c.op.kind \in TwoDimOnly THEN "NotImplementedError"
    ELSE IF c.op.kind = "iform" THEN "TypeError"
    ELSE "ValueError"
=============================================================================
