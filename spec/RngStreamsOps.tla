--------------------------- MODULE RngStreamsOps ---------------------------
(* Random streams behind draw_sample(n, random_state=rs)  (C07, reproducibility part).   *)
(*                                                                                      *)
(* rs is one of                                                                         *)
(*   "none"          the process-global stream is consumed (and advances)               *)
(*   "seedA","seedB" a fresh stream determined by the integer seed, read from its start *)
(*                   (the driver concretises seedA as the integer 0, seedB as a positive *)
(*                   integer: 0 is a legal seed that is falsy in Python).  A seed IS its *)
(*                   integer VALUE: the driver also spells it draw by draw as python int, *)
(*                   np.int64, np.int32 or np.uint32 (field ty of a draw, not read here) - *)
(*                   "seedA" spelled 0 and np.int64(0) is the same stream "A", and a seed  *)
(*                   of any integer type gives ONE stream for all variables of a model    *)
(*   "gen1","gen2"   two numpy Generator objects, both created from the same seed C;     *)
(*                   a draw consumes from the object and advances it                     *)
(* The POSITION of a stream is the sequence of <<obj, n>> draws it has served so far     *)
(* (how many raw numbers a draw consumes depends on the family, e.g. rejection steps, so *)
(* positions are compared as histories: equal histories = equal position, a strict       *)
(* prefix = strictly earlier position, anything else = not comparable).                  *)
(* A sample's identity is <<obj, n, stream, position>>.                                   *)
EXTENDS Integers, Sequences, FiniteSets, Fix

Seeds == {"seedA", "seedB"}
Gens == {"gen1", "gen2"}
RsValues == {"none"} \cup Seeds \cup Gens

InitStreams == [glob |-> <<>>, gen1 |-> <<>>, gen2 |-> <<>>]

StreamOf(rs) == CASE rs = "none" -> "global" [] rs = "seedA" -> "A" [] rs = "seedB" -> "B"
                  [] rs \in Gens -> "C"

(* deviation switches: "noadvance" = a Generator is not advanced by a draw;               *)
(*                     "ignoreseed" = an integer seed is ignored (global stream is used) *)
EffRs(d, mut) == IF mut = "ignoreseed" /\ d.rs \in Seeds THEN "none" ELSE d.rs

Ident(st, d, mut) ==
    LET rs == EffRs(d, mut) IN
    [obj |-> d.obj, n |-> d.n, stream |-> StreamOf(rs),
     pos |-> CASE rs = "none" -> st.glob [] rs \in Seeds -> <<>>
               [] rs = "gen1" -> st.gen1 [] rs = "gen2" -> st.gen2]

After(st, d, mut) ==
    LET rs == EffRs(d, mut) c == <<d.obj, d.n>> IN
    CASE rs = "none" -> [st EXCEPT !.glob = Append(@, c)]
      [] rs \in Seeds -> st
      [] rs = "gen1" -> IF mut = "noadvance" THEN st ELSE [st EXCEPT !.gen1 = Append(@, c)]
      [] rs = "gen2" -> IF mut = "noadvance" THEN st ELSE [st EXCEPT !.gen2 = Append(@, c)]

IsPrefix(a, b) == Len(a) <= Len(b) /\ \A k \in 1..Len(a) : a[k] = b[k]
StrictPrefix(a, b) == Len(a) < Len(b) /\ IsPrefix(a, b)

(* predicted relation of two samples: "eq" bit-for-bit equal, "ne" different, "unk" the   *)
(* model does not decide (same stream at positions that are not comparable)              *)
Rel(a, b) ==
    IF a.stream # b.stream THEN "ne"
    ELSE IF a.pos = b.pos THEN (IF a.obj = b.obj /\ a.n = b.n THEN "eq" ELSE "ne")
    ELSE IF StrictPrefix(a.pos, b.pos) \/ StrictPrefix(b.pos, a.pos) THEN "ne"
    ELSE "unk"

(* identities of all draws of a history *)
RECURSIVE IdentsFrom(_, _, _, _)
IdentsFrom(st, draws, k, mut) ==
    IF k > Len(draws) THEN <<>>
    ELSE <<Ident(st, draws[k], mut)>> \o IdentsFrom(After(st, draws[k], mut), draws, k + 1, mut)
Idents(draws) == IdentsFrom(InitStreams, draws, 1, "none")

(* the clauses of the property, as statements about a history of draws and the relation   *)
(* rel(i, j) between its samples (rel is the model's prediction in RngStreams.tla and the *)
(* observed digest equality in Trace_C07.tla)                                            *)
SameCall(draws, i, j) == draws[i].obj = draws[j].obj /\ draws[i].n = draws[j].n
Pairs(draws) == {p \in (1..Len(draws)) \X (1..Len(draws)) : p[1] < p[2]}

SameSeedSameSampleOn(draws, eq(_, _)) ==
    \A p \in Pairs(draws) :
       draws[p[1]].rs \in Seeds /\ draws[p[1]].rs = draws[p[2]].rs /\ SameCall(draws, p[1], p[2])
         => eq(p[1], p[2])
DifferentSeedsDifferOn(draws, eq(_, _)) ==
    \A p \in Pairs(draws) :
       draws[p[1]].rs \in Seeds /\ draws[p[2]].rs \in Seeds /\ draws[p[1]].rs # draws[p[2]].rs
         => ~eq(p[1], p[2])
(* the same Generator object (or the global stream) never serves the same numbers twice *)
GeneratorAdvancesOn(draws, eq(_, _)) ==
    \A p \in Pairs(draws) :
       draws[p[1]].rs \in (Gens \cup {"none"}) /\ draws[p[1]].rs = draws[p[2]].rs => ~eq(p[1], p[2])
(* two Generators created from the same seed that have served the same calls so far give *)
(* the same sample for the same call                                                    *)
Served(draws, k, g) == SelectSeq(SubSeq(draws, 1, k - 1), LAMBDA d : d.rs = g)
CallsOf(s) == [k \in 1..Len(s) |-> <<s[k].obj, s[k].n>>]
EqualGeneratorsEqualSampleOn(draws, eq(_, _)) ==
    \A p \in Pairs(draws) :
       /\ draws[p[1]].rs \in Gens /\ draws[p[2]].rs \in Gens /\ draws[p[1]].rs # draws[p[2]].rs
       /\ SameCall(draws, p[1], p[2])
       /\ CallsOf(Served(draws, p[1], draws[p[1]].rs)) = CallsOf(Served(draws, p[2], draws[p[2]].rs))
       => eq(p[1], p[2])
(* a seeded / generator draw is never equal to a draw from an unrelated stream *)
StreamsIndependentOn(draws, eq(_, _)) ==
    \A p \in Pairs(draws) :
       StreamOf(draws[p[1]].rs) # StreamOf(draws[p[2]].rs) => ~eq(p[1], p[2])
=============================================================================
