"""C07: MultivariateModel.conditional_sample only ever samples in (1e-16, 100]:
a conditional variable with mass above 100 or below 0 is silently truncated
(no warning), so the sample does not follow the conditional distribution.

The two variables are independent, hence the conditional distribution of the
second given the first IS its marginal, whose cdf is known in closed form.
"""
import sys
import math
import warnings
import numpy as np
from scipy.special import ndtr
from virocon import GlobalHierarchicalModel, WeibullDistribution, NormalDistribution

n = 100_000
eps = math.sqrt(math.log(2 / 1e-12) / (2 * n))  # DKW, error probability 1e-12
failed = False

# (a) a direction in degrees, Normal(180, 40); (b) a temperature / current
# component that takes both signs, Normal(0, 1).
for mu, sigma, x0 in [(180.0, 40.0, 100.0), (0.0, 1.0, 0.0)]:
    model = GlobalHierarchicalModel(
        [
            {"distribution": WeibullDistribution(alpha=2, beta=1.5)},
            {"distribution": NormalDistribution(mu=mu, sigma=sigma)},
        ]
    )
    with warnings.catch_warnings(record=True) as w:
        warnings.simplefilter("always")
        s = model.conditional_sample(n, 1, 2.0, random_state=1)
    joint = model.draw_sample(n, random_state=1)[:, 1]
    F_true = float(ndtr((x0 - mu) / sigma))  # independent oracle
    frac = np.mean(s <= x0)
    print(
        f"Normal({mu}, {sigma}): conditional_sample size {len(s)}, range "
        f"[{s.min():.3g}, {s.max():.3g}], warnings: {len(w)}; "
        f"fraction(sample <= {x0}) = {frac:.4f}, true = {F_true:.4f} "
        f"(draw_sample: {np.mean(joint <= x0):.4f}); DKW eps = {eps:.4f}"
    )
    if abs(frac - F_true) > eps:
        failed = True

if failed:
    print("VIOLATION: conditional_sample does not follow the conditional distribution")
    sys.exit(1)
print("ok")
