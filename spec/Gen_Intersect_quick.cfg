SPECIFICATION Spec
CONSTANTS L = 3  NP = 3  NQ = 2  TouchToo = TRUE
CHECK_DEADLOCK FALSE
INVARIANT Emit
