#!/usr/bin/env python3
"""developer tool: tools/virocon_sessions.py REPO [n] [seed] - run n TLC-simulated sessions of spec/Virocon.tla against the
checkout REPO and print the steps whose result differs from the canonical one (no verdict; the check is ./check C19)."""
import json, os, re, subprocess, sys, tempfile
sys.path.insert(0, '/verif')
repo = sys.argv[1]; n = int(sys.argv[2]) if len(sys.argv) > 2 else 12; seed = int(sys.argv[3]) if len(sys.argv) > 3 else 7
os.environ['VIROCON_REPO'] = repo
from harness import ext_virocon, common
ext_virocon.REPO = repo
from concurrent.futures import ThreadPoolExecutor
with tempfile.TemporaryDirectory(dir='/var/tmp') as td:
    out = subprocess.run(['java', '-cp', common.TLA_CP, 'tlc2.TLC', '-workers', '1', '-metadir', td + '/m', '-noGenerateSpecTE', '-config', 'Gen_Virocon.cfg',
                          '-simulate', f'num={n * 40}', '-depth', '14', '-seed', str(seed), 'Virocon.tla'], cwd='/verif/spec', capture_output=True, text=True).stdout
    sessions = [json.loads(json.loads('"' + m + '"'))['hist'] for m in re.findall(r'<<"BEH", "(.*)">>', out)]
    sessions = ext_virocon.select_sessions(sessions, n)
    tasks = [(ext_virocon.DESCS[k % len(ext_virocon.DESCS)], ops, td) for k, ops in enumerate(sessions)]
    with ThreadPoolExecutor(12) as ex:
        res = list(ex.map(ext_virocon.run_one, tasks))
    nbad = 0
    for (desc, ops, _), (ses, can) in zip(tasks, res):
        bad = [(i, ops[i]['op'], ops[i]['kind'], ops[i]['basis']) for i in range(len(ops)) if ops[i]['basis'] >= 0 and ses[i]['obs'] != can.get(str(i))]
        if bad:
            nbad += 1
            print(desc, ext_virocon.key_of(desc, ops), bad)
    print('sessions', len(tasks), 'with differences', nbad)
