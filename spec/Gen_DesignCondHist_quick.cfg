SPECIFICATION Spec
CONSTANTS MaxLen = 4  KeepPolyline = FALSE
CHECK_DEADLOCK FALSE
INVARIANT UsesCurrent
INVARIANT Emit
