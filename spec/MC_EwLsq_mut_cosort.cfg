SPECIFICATION Spec
CONSTANTS MaxLen = 2  MaxV = 3  Wts = {1, 2}  CoSort = FALSE  ZerosFirst = FALSE  PosRule = "mid"  TieByWeight = TRUE  SharedPos = FALSE  StaleDelta = FALSE  StalePositions = FALSE  HistLen = 1
CHECK_DEADLOCK FALSE
INVARIANT OrderInvariant
