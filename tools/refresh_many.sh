#!/bin/sh
# tools/refresh_many.sh <id>...   - tools/refresh_seed.py --notests for each id, PAR at a time; one summary line each
mkdir -p .work/refresh
for id in "$@"; do echo $id; done | xargs -P ${PAR:-4} -I{} sh -c '/venv/bin/python tools/refresh_seed.py seeded/{} $(python3 -c "import json;print(json.load(open(\"seeded/{}/meta.json\")).get(\"property\"))") --notests 2>&1 | tail -1 | cut -c1-250'
