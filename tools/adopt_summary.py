#!/usr/bin/env python3
import sys,json,glob
for f in sorted(glob.glob('/verif/.work/adopt%s/*.log' % sys.argv[1])):
    ls=[l for l in open(f).read().split('\n') if l.startswith('{')]
    if not ls: print(f.split('/')[-1],'(running)'); continue
    r=json.loads(ls[-1])
    print(f.split('/')[-1][:-4], 'demo_ok',r.get('demo_ok'),'tests_ok',r.get('tests_ok'), r.get('apply_failed','')[:80], {k:(v['caught'],v['rc'],v['clauses'][:3],v['wall_s']) for k,v in r['checks'].items()})
