------------------------------ MODULE Trace_C11 ------------------------------
(* Trace validation for C11.  Records:                                                     *)
(*  "fit"      one TLC-generated case (ParamRouting!Emit, scenario "fit": family, fixed set   *)
(*             F, fit method, data kind) run through the life cycle of ParamRouting.tla on    *)
(*             the real class:  NewDist(start values, f_<n> for n in F) -> Eval -> FitDist     *)
(*             (data 1) -> FitDist (data 2, re-fit).  Measured: deviation of every fixed       *)
(*             parameter from its declared value, relative, in 1e-15 (cdev after construction, *)
(*             fdev1 / fdev2 after the fits), fattr (the f_<n> attributes are the declared      *)
(*             values / None throughout), evalsame (pdf, cdf, icdf bitwise equal to an instance *)
(*             constructed with the resolved values), evalkeep (parameters untouched by         *)
(*             evaluation), outcome1/2 ("ok" or exception class), free*changed / free*finite    *)
(*             (every free parameter moved away from its previous value and is finite).         *)
(*  "fitspecial" the same life cycle with ONE parameter fixed at a special value             *)
(*             (ParamRoutingOps!SpecialKinds: 0.0, integer 0, -0.0, negative, outside [-pi, pi], *)
(*             integer-typed, far from the data), MLE; same clauses; deviation from a declared    *)
(*             value of zero is absolute.                                                         *)
(*  "fitvm"    the life cycle on a ScipyDistribution subclass of scipy's vonmises             *)
(*             (ParamRoutingOps!VmSubCases: f_scale = 1.3, f_loc = 0.42 / 4.0, f_kappa).            *)
(*  "fitnone"  the life cycle with f_<sname> = None passed explicitly: nothing is fixed (F = <<>>), *)
(*             the instance evaluates like the one built from the plain values, the fit succeeds.   *)
(*  "condfix"  a ConditionalDistribution whose template has the non-empty proper subset F      *)
(*             fixed and the other parameters dependent: fixed values for several scalar and    *)
(*             vector conditioning values before (preok) and after (postok) ConditionalDistribution.fit, *)
(*             and the deviation in every per-interval fit (fitdev).                             *)
(*  "summary"  TLC asserts the executed cases are exactly FitCases (x reps) and CondFixCases.    *)
EXTENDS ParamRoutingOps, Json, IOUtils, TLC

TraceLog == ndJsonDeserialize(IOEnv.TRACE_FILE)
VARIABLE l

(* 2e-3 in the log-likelihood: scipy's simplex optimiser stops at xtol = ftol = 1e-4, which     *)
(* leaves the log-likelihood of 250..900 observations within ~1e-4 of its maximum; a 1 % change   *)
(* of an identified parameter lowers it by ~ n * 1e-4 * (relative Fisher information) / 2 >= 1e-2. *)
LlTolE6 == 2000

FitClauses(r) ==
  LET F == Range(r.F) spec == FitOutcome(r.fam, r.fitm, F) IN
  IF r.exc # "" THEN << <<"UnexpectedException", FALSE>> >>
  ELSE <<
    <<"FixedAtConstruction", r.cdev <= FixedTolE15>>,
    <<"FixedAttributesKept", r.fattr>>,
    <<"EvalUsesFixed", r.evalsame /\ r.evalkeep>>,
    <<"FitOutcomeAsSpecified", r.outcome1 = spec /\ r.outcome2 = spec>>,
    <<"FixedStable", r.fdev1 <= FixedTolE15 /\ r.fdev2 <= FixedTolE15>>,
    (* "estimated" = moved, finite, admissible (free*adm: every free parameter that the family      *)
    (* defines as positive is > 0), and - for maximum likelihood - a maximiser of the constrained  *)
    (* likelihood: the log-likelihood at the fit (llgen / llpert: differences in 1e-6, 2e9 = not     *)
    (* applicable) is not lower than at the generating parameters, which satisfy the constraints     *)
    (* (own-family data are drawn with the fixed parameters at their fixed values), nor at + / - 1 %  *)
    (* of any free parameter, up to LlTolE6.  Not applicable (2e9) while a parameter that moves the   *)
    (* support boundary is free (Weibull gamma, Scipy loc, beta scale), for lsq/wlsq and for the       *)
    (* scipy-vonmises subclass; for the norm-fit log-normal llpert = 0 iff the free parameters are     *)
    (* exactly the sample mean / sample standard deviation (the estimator that defines the family)     *)
    <<"FreeEstimated",
        /\ (r.outcome1 = "ok" => r.free1changed /\ r.free1finite /\ r.free1adm /\ r.llgen1 >= -LlTolE6 /\ r.llpert1 >= -LlTolE6)
        /\ (r.outcome2 = "ok" => r.free2changed /\ r.free2finite /\ r.free2adm /\ r.llgen2 >= -LlTolE6 /\ r.llpert2 >= -LlTolE6)>>,
    (* ParamRoutingHist!InstancesShareNoState: the life cycle run at two positions of two       *)
    (* shuffled sequential runs of ALL life cycles in one process reproduces the outcomes and    *)
    (* the fitted parameters of its own run bit for bit                                          *)
    <<"CaseOrderIndependent", r.ordsame>>
  >>

CondFixClauses(r) ==
  IF r.exc # "" THEN << <<"UnexpectedException", FALSE>> >>
  ELSE <<
    (* dtypeok: pdf / cdf / icdf / seeded draw_sample with the conditioning values as int64 array, *)
    (* list of python ints, float32 array equal, bit for bit, the call with the same values as     *)
    (* float64 array (a fixed value must not take the dtype of given), before and after the fit    *)
    <<"FixedSameForAllGiven", r.preok /\ r.postok /\ r.ngiven >= 4 /\ r.dtypeok>>,
    <<"FixedStableInIntervals", r.fitdev <= FixedTolE15 /\ r.nint >= 3>>,
    (* ConditionalDistribution.fit(data, values, boundaries) without `method` ("defaults to the   *)
    (* distribution's default") gives bit for bit the per-interval parameters of method = "mle"    *)
    <<"DefaultFitMethod", r.defsame>>
  >>

Idx(kind) == {i \in 1..Len(TraceLog) : TraceLog[i].kind = kind}
FitSeen == {<<TraceLog[i].fam, TraceLog[i].F, TraceLog[i].fitm, TraceLog[i].data>> : i \in Idx("fit")}
CondFixSeen == {<<TraceLog[i].fam, TraceLog[i].F>> : i \in Idx("condfix")}
SpecialSeen == {<<TraceLog[i].fam, TraceLog[i].sname, TraceLog[i].special>> : i \in Idx("fitspecial")}
VmSeen == {<<TraceLog[i].F, TraceLog[i].special>> : i \in Idx("fitvm")}
NoneSeen == {<<TraceLog[i].fam, TraceLog[i].sname>> : i \in Idx("fitnone")}
SummaryClauses(r) ==
  <<
    <<"ExtraCoverage", VmSeen = VmSubCases /\ NoneSeen = NoneFixCases>>,
    <<"SpecialCoverage", SpecialSeen = SpecialFitCases
                         /\ Cardinality(Idx("fitspecial")) = r.reps * Cardinality(SpecialFitCases)>>,
    <<"FitCoverage", FitSeen = FitCases /\ Cardinality(Idx("fit")) = r.reps * Cardinality(FitCases)>>,
    <<"CondFixCoverage", CondFixSeen = CondFixCases>>
  >>

Clauses(r) == CASE r.kind \in {"fit", "fitspecial", "fitvm", "fitnone"} -> FitClauses(r)
                [] r.kind = "condfix" -> CondFixClauses(r)
                [] r.kind = "summary" -> SummaryClauses(r)

Verdict(r) == Failing(Clauses(r))

Init == l = 1
Next == /\ l <= Len(TraceLog)
        /\ LET r == TraceLog[l] v == Verdict(r) IN
             IF v = <<>> THEN TRUE ELSE \A q \in 1..Len(v) : PrintT(<<"VERDICT", r.id, v[q]>>)
        /\ l' = l + 1
Spec == Init /\ [][Next]_l
Consumed == l = Len(TraceLog) + 1 => PrintT(<<"CONSUMED", l - 1>>)
=============================================================================
