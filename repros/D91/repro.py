"""IFORM / ISORM contours with alpha given as numpy float32 (or float16) scalar.

1 - alpha is evaluated in the precision of alpha, so beta is wrong by up to
100 % of the tail probability; for alpha = float32(1e-8) it is inf and the
whole contour is inf / nan.
"""
import sys
import numpy as np
import scipy.stats as sts
from virocon import (GlobalHierarchicalModel, WeibullDistribution,
                     LogNormalDistribution, DependenceFunction,
                     IFORMContour, ISORMContour)

model = GlobalHierarchicalModel([
    {"distribution": WeibullDistribution(alpha=2, beta=1.5, gamma=0)},
    {"distribution": LogNormalDistribution(),
     "conditional_on": 0,
     "parameters": {
         "mu": DependenceFunction(lambda x, a=0.1, b=0.2: a + b * x),
         "sigma": DependenceFunction(lambda x, a=0.3: a + 0 * x)}},
])


def to_u(X):
    u0 = sts.norm.ppf(model.distributions[0].cdf(X[:, 0]))
    u1 = sts.norm.ppf(model.distributions[1].cdf(X[:, 1], given=X[:, 0]))
    return np.stack((u0, u1), axis=1)


bad = 0
for alpha32 in (np.float32(1e-8), np.float32(1e-6), np.float32(1e-4)):
    alpha = float(alpha32)  # the exact value the user passed, as a double
    # independent oracle, double precision (isf avoids 1 - alpha altogether)
    beta_iform = sts.norm.isf(alpha)
    beta_isorm = np.sqrt(sts.chi2.isf(alpha, 2))
    q_marginal = sts.weibull_min.isf(alpha, 1.5, 0, 2)
    for cls, beta in ((IFORMContour, beta_iform), (ISORMContour, beta_isorm)):
        c = cls(model, alpha32, n_points=8)
        c64 = cls(model, alpha, n_points=8)  # same value as Python float: fine
        r = np.linalg.norm(to_u(c.coordinates), axis=1)
        err = np.max(np.abs(r - beta)) if np.isfinite(r).all() else np.inf
        err64 = np.max(np.abs(np.linalg.norm(to_u(c64.coordinates), axis=1) - beta))
        msg = (f"{cls.__name__} alpha=np.float32({alpha32}): contour.beta={c.beta}, "
               f"expected {beta:.10f}; max |radius - beta| = {err:.3g} "
               f"(same alpha as Python float: {err64:.3g})")
        if cls is IFORMContour:
            msg += (f"; max x0 = {c.coordinates[:, 0].max()}, marginal "
                    f"(1-alpha)-quantile = {q_marginal}")
        print(msg)
        assert err64 < 1e-6
        if not err < 1e-6:
            bad += 1
print("violations:", bad)
sys.exit(1 if bad else 0)
