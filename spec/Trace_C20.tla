----------------------------- MODULE Trace_C20 -----------------------------
(* Trace validation for C20.  Record kinds (harness/c20.py):                             *)
(*  "save"    one real save_contour_coordinates call in a fresh directory: path = the    *)
(*            path argument, created = the one new file (relative), lines = its content   *)
(*            (UTF-8 decoded, split at line feeds) as code points, parsed = every field   *)
(*            of every data row parsed as an exact decimal * 1e6; coords = the contour's  *)
(*            coordinates rounded half-even to 6 decimals by exact decimal arithmetic     *)
(*            (sign bit kept: -1e-9 is written as -0.000000).                             *)
(*  "plot"    one real plot_2D_contour call: the Line2D / PathCollection data found on    *)
(*            the Axes, the returned design conditions, the axis labels.                   *)
(*  "dataset" one synthetic benchmark-format file read by read_ec_benchmark_dataset.       *)
(*  "arrays"  an array a plot function handed to matplotlib (got) against the model's own  *)
(*            values re-evaluated by the driver (want); r.clause names the comparison.     *)
EXTENDS ExportOps, Json, IOUtils, TLC

TraceLog == ndJsonDeserialize(IOEnv.TRACE_FILE)
VARIABLE l

---------------------------------------------------------------------------
ND(r) == Len(r.names)
NamesOf(r) == IF r.sem = 0 THEN [d \in 1..r.ndim |-> DefaultName(d)] ELSE r.names
UnitsOf(r) == IF r.sem = 0 THEN [d \in 1..r.ndim |-> DefaultUnit] ELSE r.units
SymbolsOf(r) == IF r.sem = 0 THEN [d \in 1..r.ndim |-> DefaultSymbol(d)] ELSE r.symbols
SignedQ(c) == IF c.neg THEN -c.q ELSE c.q

SaveClauses(r) ==
  IF r.exc # "" THEN << <<"NoException", FALSE>> >>
  ELSE <<
    <<"PathRule", r.nfiles = 1 /\ r.created = FinalPath(r.path)>>,
    (* the header is the text built from the semantics, character for character (blanks and tabs   *)
    (* included); the property leaves open only what a line break inside a string turns into:      *)
    (* one blank or nothing                                                                        *)
    <<"HeaderLine", Len(r.lines) >= 1 /\
         LET h == Header(NamesOf(r), UnitsOf(r)) IN
           IF HasBreak(h) THEN BreaksFlattened(r.lines[1], h) ELSE r.lines[1] = h>>,
    (* lines = the file split at LF, CR LF and CR: one header line + one line per point *)
    <<"OneHeaderLine", Len(r.lines) = 1 + Len(r.coords) /\ ~HasBreak(r.lines[1])>>,
    <<"RowCount", Len(r.lines) = 1 + Len(r.coords) /\ r.endsnl>>,
    <<"RowText", Len(r.lines) = 1 + Len(r.coords)
                  /\ \A k \in 1..Len(r.coords) : r.lines[k + 1] = Row(r.coords[k])>>,
    <<"ParsedRound6", r.parseok /\ Len(r.parsed) = Len(r.coords)
                  /\ \A k \in 1..Len(r.coords) :
                       /\ Len(r.parsed[k]) = Len(r.coords[k])
                       /\ \A d \in 1..Len(r.coords[k]) : r.parsed[k][d] = SignedQ(r.coords[k][d])>>
  >>

---------------------------------------------------------------------------
SameArr(a, b) == Len(a) = Len(b) /\ \A k \in 1..Len(a) : a[k][1] = b[k][1] /\ a[k][2] = b[k][2]
ExpectedScatters(r) ==
    (IF r.dckind # "none" THEN <<r.dcexp>> ELSE <<>>) \o
    (IF r.hassample THEN <<SwapCols(r.sample, r.swap)>> ELSE <<>>)
BagSame(obs, exp) ==
    /\ Len(obs) = Len(exp)
    /\ \A i \in 1..Len(exp) : \E j \in 1..Len(obs) : SameArr(obs[j], exp[i])
    /\ \A j \in 1..Len(obs) : \E i \in 1..Len(exp) : SameArr(obs[j], exp[i])
XI(r) == IF r.swap THEN 2 ELSE 1
YI(r) == IF r.swap THEN 1 ELSE 2

PlotClauses(r) ==
  IF r.exc # "" THEN << <<"NoException", FALSE>> >>
  ELSE <<
    <<"OneLine", Len(r.lines) = 1>>,
    <<"Polyline", Len(r.lines) >= 1 /\ SameArr(r.lines[1], Polyline(r.coords, r.swap))>>,
    <<"Scatter", BagSame(r.scatters, ExpectedScatters(r))>>,
    <<"DesignReturned", IF r.dckind = "none" THEN ~r.retdc ELSE r.retdc /\ SameArr(r.retarr, r.dcexp)>>,
    <<"AxesReturned", r.retax>>,
    <<"AxisLabels", /\ r.xlabel = AxisLabel(NamesOf(r)[XI(r)], SymbolsOf(r)[XI(r)], UnitsOf(r)[XI(r)])
                    /\ r.ylabel = AxisLabel(NamesOf(r)[YI(r)], SymbolsOf(r)[YI(r)], UnitsOf(r)[YI(r)])>>
  >>

---------------------------------------------------------------------------
DatasetClauses(r) ==
  IF r.exc # "" THEN << <<"NoException", FALSE>> >>
  ELSE <<
    <<"EveryRow", r.gotlen = Len(r.wantts) /\ Len(r.gotts) = Len(r.wantts) /\ Len(r.gotvals) = Len(r.wantvals)>>,
    <<"TimeStampIndex", Len(r.gotts) = Len(r.wantts) /\ \A k \in 1..Len(r.wantts) : r.gotts[k] = r.wantts[k]>>,
    <<"RowsInOrder", Len(r.gotvals) = Len(r.wantvals) /\ \A k \in 1..Len(r.wantvals) : r.gotvals[k] = r.wantvals[k]>>,
    (* bit for bit the double that the decimal text in the file denotes (four 16-bit limbs per value) *)
    <<"ExactValues", r.gotbits = r.wantbits>>,
    <<"ColumnNames", r.gotcols = r.wantcols>>
  >>

---------------------------------------------------------------------------
ArraysClauses(r) ==
  IF r.exc # "" THEN << <<"NoException", FALSE>> >>
  ELSE << <<r.clause, Len(r.got) = Len(r.want) /\ \A k \in 1..Len(r.want) : Within(r.got[k], r.want[k], r.tol)>> >>

Clauses(r) == CASE r.kind = "save" -> SaveClauses(r)
                [] r.kind = "plot" -> PlotClauses(r)
                [] r.kind = "dataset" -> DatasetClauses(r)
                [] OTHER -> ArraysClauses(r)
Verdict(r) == Failing(Clauses(r))

Init == l = 1
Next == /\ l <= Len(TraceLog)
        /\ LET r == TraceLog[l] v == Verdict(r) IN
             IF v = <<>> THEN TRUE ELSE PrintT(<<"VERDICT", r.id, v>>)
        /\ l' = l + 1
Spec == Init /\ [][Next]_l
Consumed == l = Len(TraceLog) + 1 => PrintT(<<"CONSUMED", l - 1>>)
=============================================================================
