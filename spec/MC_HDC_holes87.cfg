SPECIFICATION Spec
CONSTANTS S1 = 8 S2 = 7 S3 = 0  MaxV = 1  Start = "Holes"  Strict = FALSE  Cross = FALSE  Close = FALSE  LabelBoundary = FALSE  RankByArray = FALSE  Coarse = 1
CHECK_DEADLOCK FALSE
INVARIANT CoordsAreBoundary
INVARIANT EachOnce
INVARIANT SetsDoNotMixRegions
INVARIANT OneSetPerRegion
INVARIANT LabelIsTraceNotion
