SPECIFICATION Spec
CONSTANTS K = 4  W = 3  Perturb = 1
CHECK_DEADLOCK FALSE
INVARIANT MonotoneInv
