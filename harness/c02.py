"""C02 - the highest-density contour encloses the highest-density region of content 1-alpha.

M: TLC explores spec/HDC.tla (Sort -> Accumulate -> Select|Warn -> Erode -> Label) for every
   small array of cell probabilities and every limit; a mutation config (`<` for `<=`) must
   violate Tight, and the naive reading R = {c : P[c] >= last} must be violated (ties).
R: TLC enumerates the configuration classes (spec/HDCGen.tla); each is instantiated with a
   seeded random GlobalHierarchicalModel over the shipped families and run on the real code.
V: per contour the array/limit/mask/last of cumsum_biggest_until (wrapped staticmethod), fm,
   the warning and independently computed cell probabilities are projected to two-limb
   naturals at scale 1e18 and judged clause by clause by TLC (spec/Trace_C02.tla).
"""
import copy

import numpy as np

from .common import Machinery, import_virocon
from . import hdc_common as H

LEVEL = "model_checking"
XSS = "1g"


GRID_MIX_C02 = ["fit", "cut", "fit", "small", "fit", "cut", "fit", "fit", "cut", "fit"]
GRID_MIX_C15 = ["cut", "fit", "cut", "fit", "cut", "small", "fit", "cut", "fit", "cut"]


def select_configs(cfgs, rng, n, grids=GRID_MIX_C02):
    """a seeded selection of n configuration classes: 2-D and 3-D alternate, grid classes
    weighted by the pattern `grids` (C02 fit:cut:small = 6:3:1, C15 4:5:1), every attribute value is kept in play by shuffling"""
    cfgs = sorted(cfgs, key=lambda c: sorted(c.items()).__repr__())
    pools = {}
    for c in cfgs:
        pools.setdefault((c["dim"], c["grid"]), []).append(c)
    for k in pools:
        pools[k] = [pools[k][i] for i in rng.permutation(len(pools[k]))]
    out, i = [], 0
    while len(out) < n:
        key = ([2, 3][i % 2], grids[(i // 2) % len(grids)])
        pool = pools.get(key) or []
        if pool:
            out.append(pool.pop())
        i += 1
        if i > 50 * n and not any(pools.values()):
            break
    return out


def contour_cases(ctx, vc, cfgs, seed_shift=0, grids=GRID_MIX_C02, n_quick=60, fit_twice=True, n_default_quick=1):
    rng = np.random.default_rng(ctx.seed * 7919 + 20 + seed_shift)
    if ctx.quick:
        chosen = select_configs([c for c in cfgs if c["deltas"] != "default"], rng, n_quick, grids)
        cells2, cells3 = (10, 120), (8, 30)
    else:
        pool = [c for c in cfgs if c["deltas"] != "default"]
        pool = [pool[i] for i in rng.permutation(len(pool))]
        small = [c for c in pool if c["grid"] == "small"]
        fit = [c for c in pool if c["grid"] == "fit"]
        # every fit / cut class, every fourth warn-path class, the fit classes a second time
        chosen = [c for c in pool if c["grid"] != "small"] + small[::4] + (fit if fit_twice else [])
        cells2, cells3 = (10, 130), (8, 40)
    cases = [H.make_contour_case(vc, rng, c, cells2, cells3) for c in chosen]
    # default deltas (0.25 % of the range = 401 cells per axis) and explicit 300-400 cells / axis
    big_default = [c for c in cfgs if c["deltas"] == "default"]
    big_default = [big_default[i] for i in rng.permutation(len(big_default))]
    for c in big_default[: ctx.pick(n_default_quick, 5)]:
        cases.append(H.make_contour_case(vc, rng, c, cells2, cells3))
    if not ctx.quick:
        fits = [c for c in cfgs if c["dim"] == 2 and c["grid"] == "fit" and c["deltas"] == "list"
                and c["limits"] != "default"]
        for j in range(4):
            cases.append(H.make_contour_case(vc, rng, fits[int(rng.integers(len(fits)))], (300, 400), (8, 45)))
        fits3 = [c for c in cfgs if c["dim"] == 3 and c["grid"] == "fit" and c["aniso"] == "1"
                 and c["limits"] == "explicit" and c["deltas"] == "list"]
        for j in range(2):
            cases.append(H.make_contour_case(vc, rng, fits3[int(rng.integers(len(fits3)))], (10, 160), (50, 60)))
    return cases


NEAR_EPS = ["1e-12", "1e-9", "1e-7", "1e-5", "1e-3"]


def near_limit_cases(ctx, vc, cfgs):
    """contours whose grid total T sits just below / just above 1 - alpha: the cell
    probabilities do not depend on alpha, so T is measured once (exactly, as the sum of the
    projected cells) and alpha := 1 - T * (1 +- eps) for eps = 1e-12 .. 1e-3.  Small grids
    (slack 200*N*1e-18 well below T * 1e-12).  1 - alpha > T must warn, 1 - alpha < T must not."""
    from decimal import Decimal, getcontext
    getcontext().prec = 60
    rng = np.random.default_rng(ctx.seed * 613 + 2)
    pool = [c for c in cfgs if c["grid"] == "fit" and c["deltas"] == "list" and c["limits"] == "explicit"
            and c["aniso"] == "1" and c["alpha"] in ("tiny", "small", "mid")]
    pool = [pool[i] for i in rng.permutation(len(pool))]
    out, bases = [], 0
    want = ctx.pick(4, 16)
    for cfg in pool * 12:        # each visit draws a new model / grid
        if bases >= want:
            break
        base = H.make_contour_case(vc, rng, cfg, (10, 22), (6, 9))
        # shave the upper limits so that the grid loses a little more than alpha of the probability
        for lim in base["limits"]:
            lim[1] = round(lim[0] + (lim[1] - lim[0]) * float(rng.uniform(0.72, 0.9)), 3)
        obs = H.observe_contour(vc, base, want_pref=False, want_resort=False)
        if obs["exc"] and not is_empty_selection(obs):
            continue
        P = obs["cap"]["P"]
        if P.size > 2500:
            continue
        T = sum(H.q18(v) for v in P.ravel().tolist())          # exact, units of 1e-18
        if not (0.7 * H.S18 <= T <= H.S18 - 10 ** 12):           # alpha would leave [1e-6, 0.3]
            continue
        bases += 1
        for eps in NEAR_EPS:
            for side in (+1, -1):
                Lq = int(Decimal(T) * (1 + side * Decimal(eps)))
                aq = H.S18 - Lq
                if not (10 ** 12 <= aq <= 3 * 10 ** 17):
                    continue
                c = dict(base)
                c["alpha"] = format(Decimal(aq) / Decimal(H.S18), "f")
                c["cfg"] = dict(cfg, grid="near", near=f"1-alpha = T*(1{'+' if side > 0 else '-'}{eps})")
                out.append(c)
    if bases < want:
        raise Machinery(f"near-limit cases: only {bases} of {want} base grids found")
    return out


def alpha_type_cases(classes):
    """The type of alpha x limits given / default (spec/HDCGen.tla AlphaTypeCases).  Independent marginals: the
    default upper limit marginal_icdf(1 - 0.2^n alpha) is a closed-form quantile, no Monte-Carlo sample.
    2-D: alpha = 2^-10 (exact as float16 / float32 / float64); 3-D: alpha = float32(2e-6), whose exact decimal
    expansion has more than 18 decimals - `alpha` carries it exactly (the number that is passed, in every type),
    `alpha18` the same rounded to 18 decimals for the fixed-point clauses (1/2 unit of 1e-18 against a slack of
    200 N units and a tolerance of 250 units for the limit)."""
    from decimal import Decimal
    wb = dict(family="Weibull", cond=None, params=dict(alpha=2.0, beta=1.5, gamma=0.0))
    ew = dict(family="ExponentiatedWeibull", cond=None, params=dict(alpha=1.0, beta=1.2, delta=2.0))
    ln = dict(family="LogNormal", cond=None, params=dict(mu=1.0, sigma=0.3))
    out = []
    for c in sorted(classes, key=lambda c: (c["dim"], c["limits"], c["atype"])):
        if c["dim"] == 2:
            model, alpha, limits, deltas = [wb, ln], "0.0009765625", [[0.0, 9.5], [0.0, 9.0]], [0.4, 0.35]
        else:
            a32 = Decimal(float(np.float32(2e-6)))
            model, alpha, deltas = [wb, ew, ln], format(a32, "f"), [1.0, 0.8, 1.0]
            limits = [[0.0, 14.0], [0.0, 11.4], [0.0, 14.7]]
        case = dict(kind="hdc", model=model, alpha=alpha, limits=limits if c["limits"] == "explicit" else None,
                    deltas=deltas, np_seed=None,
                    cfg=dict(dim=c["dim"], cond1="none", cond2="none", deltas="list", limits=c["limits"], aniso="1",
                             grid="alphatype", alpha="small" if c["dim"] == 2 else "tiny", atype=c["atype"]))
        if c["dim"] == 3:
            case["alpha18"] = format(a32.quantize(Decimal("1e-18")), "f")
        if c["atype"] != "float":
            case["typed"] = dict(dtype=c["atype"], alpha=True)
        out.append(case)
    return out


def is_empty_selection(obs):
    """densest cell alone exceeds 1 - alpha: the code raises IndexError (recorded behaviour of
    the 'Empty' outcome in HDC.tla, nothing is claimed about it)"""
    cap = obs["cap"]
    return bool(obs["exc"].startswith("IndexError") and "P" in cap and cap["P"].max() > 1.0 - obs["alpha"])


def judge(ctx, vc, cases, label, base_id=0, key_suffix=""):
    recs, kept = [], []
    empty = 0
    for i, case in enumerate(cases):
        obs = H.observe_contour(vc, case, want_pref=True, want_resort=False)
        if is_empty_selection(obs):
            empty += 1
            ctx.case(H.case_key(case), nontrivial=False)
            continue
        rec = H.record_c02(base_id + i + 1, dict(case, alpha=case["alpha18"]) if "alpha18" in case else case, obs)
        recs.append(rec)
        n_in = sum(rec.get("R", []))
        n = len(rec.get("Ph", []))
        kept.append((case, rec, dict(n=n, n_in=n_in, shape=rec.get("shape"), warned=rec["warned"],
                                     sumP=float(obs["cap"]["P"].sum()) if "P" in obs["cap"] else None)))
    if not recs:
        if base_id == 0 and not ctx.violations:
            raise Machinery("no contour could be observed")
        ctx.log(f"{label}: nothing to judge ({empty} empty selections skipped)")
        return []
    failing = ctx.validate("Trace_C02", "Trace_C02.cfg", recs, xss=XSS, chunk=ctx.pick(400, 40))
    nwarn = 0
    for case, rec, info in kept:
        nontrivial = (not rec["exc"]) and (not rec["warned"]) and info["n_in"] >= 4 and info["n_in"] < info["n"]
        nwarn += 1 if rec["warned"] else 0
        ctx.case(H.case_key(case), nontrivial)
        for clause in failing.get(rec["id"], []):
            ctx.violation(clause, H.case_key(case) + key_suffix,
                          f"shape={info['shape']} cells_in={info['n_in']} warned={info['warned']} "
                          f"sumP={info['sumP']} exc={rec['exc']!r}", replay=case)
    ctx.log(f"{label}: {len(recs)} contours judged, {sum(1 for r in recs if r['id'] in failing)} rejected, "
            f"{nwarn} on the warn path, {empty} empty selections skipped")
    ctx.notes["warn_path_contours"] = ctx.notes.get("warn_path_contours", 0) + nwarn
    ctx.notes["empty_selection_skipped"] = ctx.notes.get("empty_selection_skipped", 0) + empty
    ctx.notes["cells_judged"] = ctx.notes.get("cells_judged", 0) + sum(i["n"] for _, _, i in kept)
    ctx.notes["largest_grid"] = max([ctx.notes.get("largest_grid", 0)] + [i["n"] for _, _, i in kept])
    return kept


SHIFTS = {0: 0.0, 1: 2.0 ** -30, -1: -(2.0 ** -30), 2: 2.0 ** -21, -2: -(2.0 ** -21)}


def selection_records(vc, sel_cases, base_id=300000):
    """Leg R for the selection: the TLC-enumerated (P, L) executed on the real staticmethod
    as dyadic floats (P/16, L/16) in 1-D and, where the length allows, 2-D / 3-D shapes.
    Every (P, L) is also run with the limit moved by +-2^-30 or +-2^-21 (exactly
    representable, far below the grid 1/16 of the sums): for the judge this is the integer
    problem 2P, 2L+-1 - the limit sits just above / just below an attainable sum."""
    import inspect
    import warnings
    fn = vc.HighestDensityContour.cumsum_biggest_until
    has_key = "key" in inspect.signature(fn).parameters
    recs, cases = [], []
    for i, sc in enumerate(sel_cases):
        K = sc.get("K")            # densities; the probabilities are K div 2 (monotone, not injective)
        if K is not None and not has_key:
            continue               # a tree whose cumsum_biggest_until has no key argument
        P, L = (sc["P"] if K is None else [k // 2 for k in K]), sc["L"]
        n = len(P)
        shapes = {4: [(4,), (2, 2)], 5: [(5,), (5, 1)], 6: [(2, 3), (6,)], 8: [(2, 2, 2)]}.get(n, [(n,)])
        shape = shapes[i % len(shapes)]
        for sh in (sc["shift"],) if "shift" in sc else (0, (1, 2)[i % 2], (-1, -2)[(i // 2) % 2]):
            if L == 0 and sh < 0:
                continue
            limit = L / 16.0 + SHIFTS[sh]
            arr = (np.array(P, dtype=float) / 16.0).reshape(shape)
            arr0 = arr.copy()
            sgn = (sh > 0) - (sh < 0)
            rec = dict(id=base_id + len(recs) + 1, kind="sel", exc="", P=[2 * v for v in P], L=2 * int(L) + sgn,
                       K=[2 * v for v in P] if K is None else list(K),
                       R=[], last=0, lastexact=True, warned=False, empty=False)
            with warnings.catch_warnings(record=True) as wl:
                warnings.simplefilter("always")
                try:
                    if K is None:
                        mask, last = fn(arr, limit)
                    else:
                        mask, last = fn(arr, limit, key=(np.array(K, dtype=float) / 16.0).reshape(shape))
                    rec["R"] = [int(v) for v in np.asarray(mask).ravel().tolist()]
                    rec["last"] = 2 * int(round(float(last) * 16))
                    rec["lastexact"] = bool(float(last) * 32 == rec["last"] and np.asarray(mask).shape == shape
                                            and set(rec["R"]) <= {0, 1})
                except IndexError:
                    rec["empty"] = True
                except Exception as e:  # noqa
                    rec["exc"] = f"{type(e).__name__}: {e}"[:200]
            rec["warned"] = any(issubclass(w.category, RuntimeWarning) for w in wl)
            if not np.array_equal(arr, arr0):
                rec["exc"] = "InputMutated"
            recs.append(rec)
            cases.append(dict(kind="sel", P=list(P), L=int(L), shape=list(shape), shift=sh,
                              **({} if K is None else {"K": list(K)})))
    return cases, recs


def judge_selection(ctx, vc, sel_cases, label):
    cases, recs = selection_records(vc, sel_cases)
    failing = ctx.validate("Trace_C02", "Trace_C02.cfg", recs, chunk=20000)
    for case, rec in zip(cases, recs):
        key = (f"cumsum_biggest_until P={case['P']}/16 " + (f"key={case['K']}/16 " if "K" in case else "")
               + f"limit={case['L']}/16"
               f"{'' if not case['shift'] else '%+g' % SHIFTS[case['shift']]} shape={case['shape']}")
        ctx.case(key, nontrivial=len(set(case["P"])) > 1 and 0 < case["L"] < sum(case["P"]))
        for clause in failing.get(rec["id"], []):
            ctx.violation(clause, key, f"mask={rec['R']} last={rec['last']}/32 warned={rec['warned']} "
                          f"empty={rec['empty']} exc={rec['exc']!r}", replay=case)
    ctx.log(f"{label}: {len(recs)} direct selections judged, {sum(1 for r in recs if r['id'] in failing)} rejected")
    ctx.notes["direct_selection_calls"] = ctx.notes.get("direct_selection_calls", 0) + len(recs)
    return recs


def synthetic_record():
    """a hand-made contour record (4 x 5 grid, distinct cell probabilities proportional to
    1..20 summing to 0.98, alpha = 0.1, unit cells) that satisfies every clause"""
    w = [((7 * k) % 20) + 1 for k in range(20)]
    P = [0.98 * x / 210.0 for x in w]
    limit = 1 - 0.1
    order = sorted(range(20), key=lambda c: -P[c])
    cum, R, last = 0.0, [0] * 20, 0.0
    for c in order:
        if cum + P[c] <= limit:
            cum += P[c]
            R[c] = 1
            last = P[c]
        else:
            break
    ph, pl = H.limbs_of_array(P)
    return dict(id=899999, kind="hdc", exc="", warned=False, freshsame=True, gridok=True, shape=[4, 5], calls=1, aq=H.l2(H.alpha_q("0.1")),
                limq=H.l2(H.q18(limit)), Ph=ph, Pl=pl, Fh=list(ph), Fl=list(pl), R=R, lastq=H.l2(H.q18(last)),
                fmq=H.l2(H.q18(last)), cmp=[(1 if v > last else (0 if v == last else -1)) for v in P],
                fr=[sorted(set(P)).index(v) for v in P])


def self_test(ctx):
    """every clause must be able to fail: the synthetic record is accepted, and one corrupted
    copy per clause is rejected by that clause"""
    base = synthetic_record()
    n = len(base["R"])
    val = [base["Ph"][c] * H.B9 + base["Pl"][c] for c in range(n)]
    ins = sorted((c for c in range(n) if base["R"][c] == 1), key=lambda c: val[c])
    outs = sorted((c for c in range(n) if base["R"][c] == 0), key=lambda c: -val[c])
    variants = []

    def var(clause, **changes):
        r = copy.deepcopy(base)
        r.update(changes)
        r["id"] = 900000 + len(variants)
        variants.append((clause, r))

    var("Content", R=[1] * n)
    r_small = list(base["R"])
    for c in ins[: max(3, len(ins) // 3)]:
        r_small[c] = 0
    var("Tight", R=r_small)
    r_swap = list(base["R"])
    r_swap[ins[-1]] = 0
    r_swap[outs[-1]] = 1
    var("Densest", R=r_swap)
    # an excluded cell strictly denser than an enclosed one (densities), probabilities unchanged
    fr_bad = list(base["fr"])
    fr_bad[outs[0]] = max(fr_bad) + 1
    var("DensityOrder", fr=fr_bad)
    var("EqualsFreshModel", freshsame=False)
    var("GridIsDeclared", gridok=False)
    # the reference probabilities scaled by 1 + 1e-3: content / tightness / warning judged on them move
    big = [int((base["Fh"][c] * H.B9 + base["Fl"][c]) * 1.06) for c in range(n)]
    var("ContentOfCdfDifferences", Fh=[v // H.B9 for v in big], Fl=[v % H.B9 for v in big])
    small_ = [int((base["Fh"][c] * H.B9 + base["Fl"][c]) * 0.8) for c in range(n)]
    var("TightOfCdfDifferences", Fh=[v // H.B9 for v in small_], Fl=[v % H.B9 for v in small_])
    var("WarnIffOfCdfDifferences", Fh=[v // H.B9 for v in small_], Fl=[v % H.B9 for v in small_])
    var("Threshold", lastq=H.l2(base["lastq"][0] * H.B9 + base["lastq"][1] + 1))
    var("FmIsDensity", fmq=H.l2(2 * (base["fmq"][0] * H.B9 + base["fmq"][1])))
    # fm one ulp above the least dense enclosed cell: that cell compares as "below fm"
    var("FmIsLeastEnclosedDensity", cmp=[(-1 if v == 0 else v) for v in base["cmp"]])
    var("FmIsLeastEnclosedDensity", cmp=[(1 if (v == -1 and c == outs[0]) else v) for c, v in enumerate(base["cmp"])])
    r_extra = list(base["R"])
    r_extra[outs[len(outs) // 2]] = 1   # a cell far less dense than fm inside the region
    var("Sandwich", R=r_extra)
    var("WarnIff", warned=True)
    var("LimitIsOneMinusAlpha", limq=list(base["aq"]))
    fh, fl = list(base["Fh"]), list(base["Fl"])
    c = ins[-1]
    v2 = (fh[c] * H.B9 + fl[c]) * 2
    fh[c], fl[c] = divmod(v2, H.B9)
    var("CellProbIsCdfDifference", Fh=fh, Fl=fl)
    var("RegionNonEmpty", R=[0] * n)
    var("ArrayShape", R=base["R"][:-1])
    var("WarnedWhenNoRegion", R=[])
    var("OneSelection", calls=2)
    var("UnexpectedException", exc="ValueError: self-test")
    failing = ctx.validate("Trace_C02", "Trace_C02.cfg", [base] + [r for _, r in variants], xss=XSS)
    if base["id"] in failing:
        raise Machinery(f"self-test: the synthetic good record was rejected: {failing[base['id']]}")
    ctx.traces -= 1  # the synthetic record is not an execution of the implementation
    missing = [cl for cl, r in variants if cl not in failing.get(r["id"], [])]
    if missing:
        raise Machinery(f"self-test: corrupted records were not rejected by clause(s) {missing}: {failing}")
    ctx.notes["self_test_clauses_shown_to_fail"] = [cl for cl, _ in variants]


def run(ctx):
    vc = import_virocon()
    ctx.rule = (
        "TLC enumerates the configuration classes of a contour (spec/HDCGen.tla: 2-D/3-D, every admissible "
        "conditional_on structure, deltas scalar/list/default, limits explicit/reversed/default, cell-size ratio "
        "1/3/10, grid fit/small/cut, alpha class); quick runs a seeded selection of 60 classes (+ 1 default-deltas "
        "contour, 401 cells/axis, on even seeds), thorough every fit/cut class (fit twice), every 4th small class + 5 default-deltas + 4 grids of 300-400 cells/axis + 2 3-D "
        "grids of 50-60 cells/axis.  Each class is instantiated with a seeded random model over the 7 shipped "
        "families (marginal or conditional with dependence functions) and a grid derived from the model's "
        "quantiles.  Additionally TLC enumerates every array P in [1..n -> 0..v] and limit L (n=4,v=3 quick; n=5,v=3 "
        "and n=6,v=2 thorough) and each is executed on the real staticmethod cumsum_biggest_until as dyadic floats "
        "(exact ties cum = limit occur), with and without a key array (densities K, probabilities K div 2), also with the limit moved by +-2^-30 / +-2^-21 (just above / below an "
        "attainable sum).  Near-limit contours: for 4 (quick) / 16 (thorough) small grids the total T of the grid is "
        "measured and alpha := 1 - T*(1 +- eps), eps = 1e-12, 1e-9, 1e-7, 1e-5, 1e-3 (warning required on one side, "
        "forbidden on the other).  8 / 60 contours with short-decimal cell sizes (0.1, 0.3, 0.07 ..: fm judged exactly "
        "against cell_averaged_joint_pdf), the DNVGL sea state on 0.1/0.1, an i.i.d. model with exact ties at the "
        "threshold, symmetric marginals (Normal, von Mises) on centred grids with non-dyadic cell sizes with alpha placed so that the "
        "cut falls inside a pair of cells whose probabilities coincide while their densities differ (6 / 30 base "
        "grids x up to 6 alphas, incl. the two grids of the bug report), all-default contours whose default upper limit is negative (RuntimeWarning expected), limits / cell sizes / alpha as np.float32 / np.float16 scalars (the DNVGL sea state on 350-390 cells per axis at "
        "alpha 1e-6 .. 1e-5 as in the bug report - one of the three big grids per seed in quick, all in thorough - plus "
        "5 / 40 random classes), the type of alpha (Python float, np.float64, np.float32, np.float16 where it represents the value) x limits given / default on "
        "independent marginals (14 classes enumerated by TLC: 2-D alpha = 2^-10, 3-D alpha = float32(2e-6); an exception is a verdict), 14 / ~40 integer-typed "
        "grids (limits as python int / np.int64, cell sizes as int, list of ints, int on some axes and float on "
        "others, 2-D and 3-D) judged against the harness's float reference.  Hidden state: 8 (quick) / 40 (thorough) pairs of look-alike models - same structure, "
        "families, fixed parameters, dependence functions as parameter-less closures with different constants - run "
        "A, B, A on one grid; 10 / 60 model histories (contour, in-place change of the model object - attribute, "
        "dependence parameter, distribution.fit, dependence re-fit, replaced distribution - contour on the same grid "
        "with the same or another alpha, judged against the current model and compared with a freshly built one); the cheap ordinary contours a second time in reverse order.  distinct = distinct (model structure+parameters, alpha, limits, deltas); non-trivial = no "
        "exception, not on the warn path, at least 4 cells enclosed and at least one cell excluded")
    ctx.trusted = [
        "TLC 1.8 evaluating spec/HDCOps.tla two-limb arithmetic and spec/Trace_C02.tla clauses",
        "harness/hdc_common.py: exact projection float * 1e18 -> integer (float.as_integer_ratio), fm * prod(deltas) "
        "with fractions.Fraction, wrapper around the staticmethod cumsum_biggest_until",
        "reference cell probabilities: the model's own (conditional) cdf evaluated at x -+ delta/2 with explicit loops "
        "(the cdf formulas themselves are the subject of C05/C08)",
    ]
    ctx.assumptions = [
        "alpha is a decimal literal with at most 18 decimals (alpha * 1e18 is an integer)",
        "when the densest cell alone exceeds 1 - alpha the code raises IndexError; such grids are skipped "
        "(outcome 'error' of HDC.tla, nothing claimed)",
        "Content/Tight/WarnIff carry a slack of 200*N*1e-18 for the float cumsum (derivation in Trace_C02.tla)",
        "default limits (Monte-Carlo marginal quantile) are exercised for alpha >= 1e-4 only (sample size ~ 1/alpha)",
        "exact density ties at the threshold (i.i.d. variables on identical grids) are split by flat index in the "
        "code; for the region {f >= fm} 'at most 1-alpha' and 'misses by less than the densest excluded cell' cannot "
        "both hold there, so Content/Tight are judged on the returned region and the fm clauses as a sandwich "
        "({f > fm} inside, region inside {f >= fm}) - no clause depends on how ties are split",
    ]
    # M
    # quick: the 5-cell array domain on even seeds, the 2 x 3 grid domain on odd seeds (both in thorough)
    for cfg in ctx.pick((("MC_HDC_sel_quick.cfg", "MC_HDC_sel_quick2.cfg")[ctx.seed % 2],),
                        ("MC_HDC_sel_quick.cfg", "MC_HDC_sel_quick2.cfg", "MC_HDC_sel_thorough0.cfg",
                         "MC_HDC_sel_thorough.cfg", "MC_HDC_sel_wide.cfg")):
        ctx.model_check("HDC", cfg, must_cover=("Sort", "Accumulate", "Select", "Warn", "Erode", "Label"),
                        timeout=3000)
    # cells ordered by a key (density) while the probabilities P = key div 2 are accumulated; ordering by P
    # instead (the code before fix 6dfb42b) must put a denser cell outside
    for cfg in ctx.pick(("MC_HDC_key_quick.cfg",), ("MC_HDC_key_quick.cfg", "MC_HDC_key_thorough5.cfg",
                                                     "MC_HDC_key_thorough.cfg")):
        ctx.model_check("HDC", cfg, must_cover=("Sort", "Select", "Warn"), timeout=3000)
    ctx.model_check("HDC", "MC_HDC_mut_rankbyarray.cfg", expect_violation="DensityOrder")
    # histories of one model object: the densities belong to the model at the time of the call; densities kept
    # from the previous contour on the grid (discarded only by model.fit) must violate
    ctx.model_check("HDCCache", "MC_HDCCache.cfg", must_cover=("Contour", "ChangeInPlace", "ModelFit"))
    ctx.model_check("HDCCache", "MC_HDCCache_mut_reuse.cfg", expect_violation="UsesCurrentModel")
    ctx.model_check("HDCCache", "MC_HDCCache_mut_reuse_region.cfg", expect_violation="RegionOfCurrentModel")
    ctx.model_check("HDC", "MC_HDC_mut_strict.cfg", expect_violation="Tight")
    ctx.model_check("HDC", "MC_HDC_mut_close.cfg", expect_violation="WarnIff")
    ctx.model_check("HDC", "MC_HDC_naive.cfg", expect_violation="NaiveEq")
    # R
    cfgs = ctx.generate("HDCGen", "Gen_HDC.cfg")
    ctx.notes["configuration_classes"] = len(cfgs)
    # quick: the ordinary 401 x 401 default-deltas contour on even seeds only (default deltas are also in the
    # negative-default-limit class, which every run has)
    cases = contour_cases(ctx, vc, cfgs, n_default_quick=1 - ctx.seed % 2)
    sel_cases = ctx.generate("HDCGen", ctx.pick("Gen_HDC_sel_quick.cfg", "Gen_HDC_sel_thorough.cfg"), xss=XSS)
    if not ctx.quick:
        sel_cases += ctx.generate("HDCGen", "Gen_HDC_sel_thorough2.cfg", xss=XSS)
    sel_cases += ctx.generate("HDCGen", ctx.pick("Gen_HDC_selkey_quick.cfg", "Gen_HDC_selkey_thorough.cfg"), xss=XSS)
    # V
    sel_recs = judge_selection(ctx, vc, sel_cases, "selection domain")
    kept = judge(ctx, vc, cases, "contours")
    # decimal cell sizes (exact fm), tied i.i.d. models, negative default limits (RuntimeWarning expected)
    extra = H.decimal_delta_cases(vc, np.random.default_rng(ctx.seed * 53 + 9), cfgs, ctx.pick(8, 60))
    extra += H.negative_default_limit_cases()[: ctx.pick(1, 2)]
    extra += H.tie_cut_cases(vc, np.random.default_rng(ctx.seed * 61 + 12), ctx.pick(6, 30))
    # limits / cell sizes / alpha as np.float32 / np.float16 scalars (report grids rotate with the seed in quick)
    nf = H.narrow_float_cases(vc, np.random.default_rng(ctx.seed * 71 + 16), cfgs, ctx.pick(5, 40), 7)
    if ctx.quick:
        nf = [nf[(ctx.seed + j) % 3] for j in range(1)] + nf[3:6] + nf[7:]
    extra += nf
    extra += H.integer_grid_cases(vc, np.random.default_rng(ctx.seed * 59 + 10), cfgs, ctx.pick(10, 60))
    # hidden state between contours: look-alike models back to back on one grid (A, B, A), and the
    # cheap ordinary contours a second time in reverse order
    twins = H.twin_cases(vc, np.random.default_rng(ctx.seed * 31 + 5), cfgs, ctx.pick(8, 40))
    # model histories: contour, in-place change of the model object (attribute, dependence parameter,
    # distribution.fit, dependence re-fit, replaced distribution), contour on the same grid
    hist = H.history_cases(vc, np.random.default_rng(ctx.seed * 67 + 14), cfgs, ctx.pick(10, 60))
    near = near_limit_cases(ctx, vc, cfgs)
    # the type of alpha (Python float, np.float64, np.float32, np.float16) x limits given / default
    atype = alpha_type_cases(ctx.generate("HDCGen", "Gen_HDC_alphatype.cfg"))
    again = [c for c, r, i in reversed(kept) if not r["exc"] and i["n"] <= 6000][: ctx.pick(24, 300)]
    groups = [("decimal cell sizes / ties / negative default limits / narrow floats / integer grids", extra, 150000),
              ("look-alike model pairs (A, B, A) on one grid", twins, 200000),
              ("contours of a model object changed in place after an earlier contour", hist, 270000),
              ("grids with total just below / above 1 - alpha", near, 100000),
              ("type of alpha x limits given / default", atype, 500000)]
    if ctx.quick:   # one TLC run for all of them
        groups = [("special classes: " + "; ".join(g[0] for g in groups), [c for g in groups for c in g[1]], 100000)]
    kept_s = []
    for label, cs, base in groups:
        kept_s += judge(ctx, vc, cs, label, base_id=base)
    judge(ctx, vc, again, "second evaluation in reverse order", base_id=400000, key_suffix=" second-evaluation")

    def count(pred):
        return sum(1 for c, r, i in kept_s if pred(c, r))
    ctx.notes["twin_contours"] = count(lambda c, r: c["cfg"].get("grid") == "twin")
    ctx.notes["model_history_contours"] = count(lambda c, r: "history" in c)
    ctx.notes["near_limit_contours"] = count(lambda c, r: c["cfg"].get("grid") == "near")
    ctx.notes["near_limit_warned"] = count(lambda c, r: c["cfg"].get("grid") == "near" and r["warned"])
    ctx.notes["alpha_type_contours"] = count(lambda c, r: c["cfg"].get("grid") == "alphatype")
    ctx.notes["narrow_float_contours"] = count(lambda c, r: "typed" in c)
    ctx.notes["integer_grid_contours"] = count(lambda c, r: c["cfg"].get("grid") == "integer")
    ctx.notes["other_special_contours"] = count(lambda c, r: c["cfg"].get("grid") in ("decimal", "ties", "tiecut",
                                                                                        "negdefault"))
    ctx.notes["second_evaluations"] = len(again)
    self_test(ctx)
    ok = [k for k in kept if not k[1]["exc"]]
    if ok:
        mid = ok[len(ok) // 3]
        small = min(ok, key=lambda k: k[2]["n"])
        ctx.sample({"case": mid[0], "observed": mid[2]})
        ctx.sample({"case": small[0], "record": small[1]})
    ctx.sample({"selection_record": sel_recs[len(sel_recs) // 2]})


def replay(ctx, case):
    vc = import_virocon()
    c = case["case"]
    if c["kind"] == "sel":
        judge_selection(ctx, vc, [c], "replay")
    else:
        for pre in c.get("prelude", []):      # the contours that were evaluated before it in the same process
            H.observe_contour(vc, pre, want_pref=False, want_resort=False)
        judge(ctx, vc, [c], "replay")
