SPECIFICATION Spec
CONSTANTS S1 = 4 S2 = 0 S3 = 0  MaxV = 5  Start = "P"  Strict = FALSE  Cross = FALSE  Close = FALSE  LabelBoundary = FALSE  RankByArray = TRUE  Coarse = 2
CHECK_DEADLOCK FALSE
INVARIANT DensityOrder
