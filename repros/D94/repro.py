"""C18: a fit description whose 'method' is None (i.e. without a method) is rejected
for an unconditional variable but silently fitted (with MLE) for a conditional one.
Likewise a dist_description whose 'distribution' is None is accepted."""
import sys
import numpy as np
from virocon import (
    GlobalHierarchicalModel,
    WeibullDistribution,
    LogNormalDistribution,
    DependenceFunction,
    WidthOfIntervalSlicer,
)


def lin(x, a=1.0, b=0.5):
    return a + b * x


def model():
    return GlobalHierarchicalModel(
        [
            {
                "distribution": WeibullDistribution(),
                "intervals": WidthOfIntervalSlicer(0.5, min_n_points=20),
            },
            {
                "distribution": LogNormalDistribution(f_sigma=0.3),
                "conditional_on": 0,
                "parameters": {"mu": DependenceFunction(lin)},
                "intervals": WidthOfIntervalSlicer(0.5, min_n_points=20),
            },
            {
                "distribution": WeibullDistribution(f_gamma=0, f_beta=2),
                "conditional_on": 1,
                "parameters": {"alpha": DependenceFunction(lin)},
            },
        ]
    )


rng = np.random.default_rng(0)
hs = rng.weibull(1.5, 2000) * 2 + 0.1
tz = np.exp(rng.normal(1 + 0.1 * hs, 0.3))
v = rng.weibull(2, 2000) * 8 + 0.1
data = np.c_[hs, tz, v]

bad = 0
for pos in range(3):
    fit_descriptions = [{"method": "mle"} for _ in range(3)]
    fit_descriptions[pos] = {"method": None}
    m = model()
    try:
        m.fit(data, fit_descriptions)
        print(f"method None at dimension {pos}: NOT rejected, model was fitted:",
              m.distributions[pos])
        bad += 1
    except Exception as e:
        print(f"method None at dimension {pos}: rejected with {type(e).__name__}: {e}")

# related: a description whose distribution is None
for descs in ([{"distribution": None}],
              [{"distribution": WeibullDistribution()}, {"distribution": None}]):
    try:
        m = GlobalHierarchicalModel(descs)
        print("distribution None: NOT rejected:", m.distributions)
        bad += 1
    except Exception as e:
        print("distribution None: rejected", type(e).__name__)

sys.exit(1 if bad else 0)
