----------------------------- MODULE Trace_C07 -----------------------------
(* Trace validation for C07 (samples follow the model; reproducible by seed).              *)
(* Record kinds:                                                                           *)
(*  "ks"    one sample of size n from a distribution or a hierarchical model, reduced by     *)
(*          the driver to probability-integral-transform values u_i = F_i(x_i | x_cond[i])   *)
(*          (declared structure, SAME ROW -- InverseRosenblatt of Rosenblatt.tla, mode       *)
(*          "sample", on measured values) and their Kolmogorov distances to the uniform      *)
(*          distribution: per dimension overall, within 8 equal-count bins of the value of   *)
(*          the declared conditioning variable, and within 8 bins of every earlier           *)
(*          dimension's u (independence of the Rosenblatt components).                       *)
(*          tests: sequence of [n, d5] (d5 = distance in units 1e-5, rounded down)           *)
(*  "shape" shape of draw_sample(n, random_state=rs)                                         *)
(*  "hist"  one TLC-generated history of draws (RngStreams.tla) replayed on real objects;    *)
(*          dig[k] = number (by first occurrence) of the digest of the k-th sample;          *)
(*          draws[k].ty (if present) names the integer type the seed was spelled with in     *)
(*          that draw -- the clauses do not read it: a seed is identified by its value       *)
EXTENDS RosenblattOps, RngStreamsOps, Json, IOUtils, TLC

TraceLog == ndJsonDeserialize(IOEnv.TRACE_FILE)
VARIABLE l

AllDkw(tests) == \A k \in 1..Len(tests) : DkwOk(tests[k][2], tests[k][1])

KsClauses(r) ==
  IF r.exc # "" THEN << <<"UnexpectedException", FALSE>> >>
  ELSE <<
    <<"SampleFollowsCdf", AllDkw(r.overall)>>,
    <<"ConditionalOnSameRowValue", AllDkw(r.given)>>,
    (* fitted models: rows whose conditioning value lies below the smallest / above the largest *)
    (* interval reference value the fit has seen, judged as regions of their own                *)
    <<"ConditionalOutsideFittedRange", AllDkw(r.extreme)>>,
    <<"ComponentsIndependent", AllDkw(r.indep)>>,
    (* history on one object (sample, fit / assign parameters, sample): the sample is bit-for-bit *)
    (* the one a fresh object with the same parameters gives for the same seed                    *)
    <<"SameAsFreshObject", r.fresh>>,
    (* one independent draw per row: a continuous variable repeats a value with probability  *)
    (* about n^2 / 2^53 per column (1e-4 at n = 1e6); more than 3 repeated values in a column *)
    (* (dups = n - number of distinct values) have probability < 1e-16                        *)
    <<"RowsDrawnIndependently", \A k \in 1..Len(r.dups) : r.dups[k] <= 3>>,
    <<"SampleFinite", r.finite>>
  >>

ShapeClauses(r) ==
  IF r.exc # "" THEN << <<"UnexpectedException", FALSE>> >>
  ELSE << <<"ShapeHonoured", r.shape = (IF r.ndim = 0 THEN <<r.n>> ELSE <<r.n, r.ndim>>)>>,
          <<"SampleFinite", r.finite>> >>

(* the observed relation between the samples of a history is digest equality *)
HistClauses(r) ==
  IF r.exc # "" THEN << <<"UnexpectedException", FALSE>> >>
  ELSE
  LET ObsEq(i, j) == r.dig[i] = r.dig[j]
      ids == Idents(r.draws)
  IN <<
    <<"SameSeedSameSample", SameSeedSameSampleOn(r.draws, ObsEq)>>,
    <<"DifferentSeedsDiffer", DifferentSeedsDifferOn(r.draws, ObsEq)>>,
    <<"GeneratorAdvances", GeneratorAdvancesOn(r.draws, ObsEq)>>,
    <<"EqualGeneratorsEqualSample", EqualGeneratorsEqualSampleOn(r.draws, ObsEq)>>,
    <<"StreamsIndependent", StreamsIndependentOn(r.draws, ObsEq)>>,
    (* the whole equality pattern is exactly the one the stream model predicts *)
    <<"PatternIsStreamModel",
        /\ Len(r.dig) = Len(r.draws)
        /\ \A p \in Pairs(r.draws) :
             LET rel == Rel(ids[p[1]], ids[p[2]]) IN
               /\ (rel = "eq" => r.dig[p[1]] = r.dig[p[2]])
               /\ (rel = "ne" => r.dig[p[1]] # r.dig[p[2]])>>
  >>

Clauses(r) == CASE r.kind = "ks" -> KsClauses(r)
                [] r.kind = "shape" -> ShapeClauses(r)
                [] r.kind = "hist" -> HistClauses(r)
Verdict(r) == Failing(Clauses(r))

Init == l = 1
Next == /\ l <= Len(TraceLog)
        /\ LET r == TraceLog[l] v == Verdict(r) IN
             \* one short line per failing clause: TLC wraps tuples longer than 80 columns
             \A c \in 1..Len(v) : PrintT(<<"VERDICT", r.id, <<v[c]>>>>)
        /\ l' = l + 1
Spec == Init /\ [][Next]_l
Consumed == l = Len(TraceLog) + 1 => PrintT(<<"CONSUMED", l - 1>>)
=============================================================================
