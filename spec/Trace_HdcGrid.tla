--------------------------- MODULE Trace_HdcGrid ---------------------------
(* Trace validation of the grid bookkeeping of HighestDensityContour against HdcGridOps.       *)
(* One record = one constructor call on a real model.  Lengths are integers in units of 1e-6;  *)
(* explicit limits and cell sizes are multiples of 1/8, so np.arange is exact for them.        *)
(*   outer, lk, dk   argument forms (as enumerated by HdcGrid.tla)                              *)
(*   outcome         "ok" or the name of the exception                                          *)
(*   passed          the limits as passed, or for outer = "none" (0, q) with q the reference    *)
(*                   quantile icdf(1 - 0.2^n alpha) of the (unconditional) variable             *)
(*   dpassed         the explicit cell sizes (empty for dk = "none")                            *)
(*   lims, dels      contour.limits / contour.deltas after construction                         *)
(*   counts, c0, cl  number of cell centres, first and last centre per dimension                *)
EXTENDS HdcGridOps, Fix, Json, IOUtils, TLC

TraceLog == ndJsonDeserialize(IOEnv.TRACE_FILE)
VARIABLE l

Tol == 3
Near(a, b, t) == a - b <= t /\ b - a <= t
Dims(r) == 1..r.nd

OkClauses(r) ==
  <<
    <<"LimitsStored", \A i \in Dims(r) :
         IF r.outer = "none" THEN r.lims[i][1] = 0 /\ Near(r.lims[i][2], r.passed[i][2], Tol + Abs(r.passed[i][2]) \div 1000000)
         ELSE r.lims[i] = r.passed[i]>>,
    <<"DeltasStored", \A i \in Dims(r) :
         IF r.dk = "none" THEN Near(400 * r.dels[i], DefaultDeltaTimes400(r.lims[i][1], r.lims[i][2]), 400 * Tol)
         ELSE r.dels[i] = r.dpassed[i]>>,
    <<"DeltasPositive", \A i \in Dims(r) : r.dels[i] > 0>>,
    <<"AxisStartsAtMin", \A i \in Dims(r) : r.c0[i] = Min2(r.lims[i][1], r.lims[i][2])>>,
    <<"AxisCount", \A i \in Dims(r) :
         IF r.dk = "none" THEN r.counts[i] \in {401, 402}      \* (range + d) / d = 401 up to float rounding
         ELSE r.counts[i] = AxisCount(r.lims[i][1], r.lims[i][2], r.dels[i])>>,
    <<"AxisSpacing", \A i \in Dims(r) :
         Near(r.cl[i], Centre(r.lims[i][1], r.lims[i][2], r.dels[i], r.counts[i] - 1),
              IF r.dk = "none" THEN 500 ELSE 0)>>,
    <<"AxisCoversRange", \A i \in Dims(r) :
         r.cl[i] >= Max2(r.lims[i][1], r.lims[i][2]) - (IF r.dk = "none" THEN 500 ELSE 0)>>
  >>

Clauses(r) == IF r.outcome \notin Outcomes(r.outer, r.lk, r.dk) THEN << <<"OutcomeAsSpecified", FALSE>> >>
              ELSE IF r.outcome = "ok" THEN OkClauses(r) ELSE <<>>
Verdict(r) == Failing(Clauses(r))

Init == l = 1
Next == /\ l <= Len(TraceLog)
        /\ LET r == TraceLog[l] v == Verdict(r) IN
             IF v = <<>> THEN TRUE ELSE PrintT(<<"VERDICT", r.id, v>>)
        /\ l' = l + 1
Spec == Init /\ [][Next]_l
Consumed == l = Len(TraceLog) + 1 => PrintT(<<"CONSUMED", l - 1>>)
=============================================================================
