SPECIFICATION Spec
CONSTANTS MaxN = 3  K = 2  Rows = 1  Shapes = {1,2,3,4}
  Modes = {"pdf"}  Mut = "rawnegdim"  Admissible = TRUE  EmitCfg = FALSE
CHECK_DEADLOCK FALSE
INVARIANT MarginalIsSumOverOthers
