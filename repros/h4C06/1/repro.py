"""C06: joint pdf is NaN (not non-negative, not the true density 0) at points whose
first coordinate has zero marginal density and whose conditional coordinate is 0
while the conditional density is unbounded at 0 (shape < 1):  0 * inf = nan."""
import sys
import numpy as np
from virocon import (GlobalHierarchicalModel, WeibullDistribution,
                     ExponentiatedWeibullDistribution, DependenceFunction)


def shape(x, a=0.5, b=0.1):  # < 1 for x < 5
    return a + b * x


def scale(x, a=1.0, b=0.5):
    return a + b * x


# model A: X0 ~ 3-parameter Weibull (location 0.5), X1|X0 ~ Weibull, shape(x0) < 1
mA = GlobalHierarchicalModel([
    {"distribution": WeibullDistribution(alpha=2.0, beta=1.5, gamma=0.5)},
    {"distribution": WeibullDistribution(f_gamma=0), "conditional_on": 0,
     "parameters": {"alpha": DependenceFunction(scale), "beta": DependenceFunction(shape)}},
])
# model B: X0 ~ exponentiated Weibull (density 0 at 0), X1|X0 ~ exp. Weibull, beta*delta < 1
mB = GlobalHierarchicalModel([
    {"distribution": ExponentiatedWeibullDistribution(alpha=1.0, beta=1.5, delta=2.0)},
    {"distribution": ExponentiatedWeibullDistribution(f_delta=1.0), "conditional_on": 0,
     "parameters": {"alpha": DependenceFunction(scale), "beta": DependenceFunction(shape)}},
])

bad = 0
with np.errstate(all="ignore"):
    # x0 = 0.2 < location 0.5: the point is outside the support, the joint density is 0
    fA = mA.pdf([[0.2, 0.0], [0.2, 1e-300], [0.2, 1.0]])
    fB = mB.pdf([[0.0, 0.0], [0.0, 1e-300]])
print("model A pdf at (0.2, 0), (0.2, 1e-300), (0.2, 1):", fA, " expected all 0")
print("model B pdf at (0, 0), (0, 1e-300):", fB, " expected all 0")
if np.isnan(fA).any() or not np.all(fA >= 0):
    bad += 1
if np.isnan(fB).any() or not np.all(fB >= 0):
    bad += 1
sys.exit(1 if bad else 0)
