"""A sample given as pandas DataFrame (what read_ec_benchmark_dataset returns and
what model.fit accepts) or as list of rows crashes DirectSamplingContour,
AndContour and OrContour (`x, y = sample.T`)."""
import sys
import numpy as np
import pandas as pd
from virocon import DirectSamplingContour, AndContour, OrContour


class Model:
    n_dim = 2


arr = np.random.default_rng(0).lognormal(size=(1000, 2))
fail = False
for cls in (DirectSamplingContour, AndContour, OrContour):
    ref = cls(Model(), 0.1, deg_step=5, sample=arr).coordinates
    for label, s in (("DataFrame", pd.DataFrame(arr, columns=["hs", "tz"])),
                     ("list", arr.tolist())):
        try:
            co = cls(Model(), 0.1, deg_step=5, sample=s).coordinates
            ok = np.array_equal(co, ref)
            print(cls.__name__, label, "ok" if ok else "DIFFERENT RESULT")
            fail |= not ok
        except Exception as e:
            print(cls.__name__, label, "raised", type(e).__name__, e)
            fail = True
sys.exit(1 if fail else 0)
