#!/bin/sh
# tools/adopt_seed.sh CNN k [extra checks]   - confirm /tmp/seed${ROUND}-CNN/out/k with try_seed.py and keep it as seeded/CNN[-r$ROUND]-k
# (ROUND env: empty for the first round, 2 for the second ...)
P=$1; K=$2; shift 2
SRC=/tmp/seed${ROUND}-$P/out/$K
[ -f $SRC/patch.diff ] || { echo "no $SRC/patch.diff"; exit 2; }
CHECKS=$P; for c in "$@"; do CHECKS="$CHECKS,$c"; done
OUT=$(/venv/bin/python tools/try_seed.py $SRC --checks $CHECKS | tail -1)
echo "$OUT"
if [ -n "$ROUND" ]; then DST=seeded/$P-r$ROUND-$K; else DST=seeded/$P-$K; fi
mkdir -p $DST && cp $SRC/patch.diff $SRC/demo.py $DST/ 2>/dev/null
python3 - "$SRC" "$DST" "$OUT" <<'PY'
import json,sys
src,dst,out=sys.argv[1:4]
try: meta=json.load(open(src+'/meta.json'))
except Exception: meta={}
res=json.loads(out)
meta['confirmed_by_lead']=dict(demo_passes_without_change=res.get('demo_clean_rc')==0, demo_fails_with_change=res.get('demo_patched_rc') not in (0,None),
    existing_tests_pass_with_change=res.get('tests_ok'), tests=res.get('tests'), checks=res.get('checks'),
    ran="tools/try_seed.py (scratch worktree of /repo HEAD, demo both ways, pytest -n 8 guard off, ./check <id> --tier quick with VIROCON_REPO=<patched worktree>)")
json.dump(meta,open(dst+'/meta.json','w'),indent=1)
PY
