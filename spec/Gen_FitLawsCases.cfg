SPECIFICATION Spec
CHECK_DEADLOCK FALSE
INVARIANT Emit
