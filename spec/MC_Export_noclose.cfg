SPECIFICATION Spec
CONSTANTS Decimals = 6  NoClose = TRUE  AlwaysTxt = FALSE  RawHeader = FALSE
CHECK_DEADLOCK FALSE
INVARIANT ClosedPolyline
