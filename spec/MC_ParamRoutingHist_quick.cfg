SPECIFICATION Spec
CONSTANTS HFams = {"ScipyGamma", "ScipyRayleigh", "ScipyBeta", "LogNormal"}  MaxInst = 2  MaxOps = 4  SharedIndex = FALSE  SharedFitKw = FALSE
CHECK_DEADLOCK FALSE
INVARIANT InstancesShareNoState
