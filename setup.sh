#!/bin/sh
# Offline setup: vendor mpmath (pure python) for the reference evaluators, parse all TLA+ modules.
cd "$(dirname "$0")" || exit 1
mkdir -p .vendor .work evidence
if [ ! -d .vendor/mpmath ]; then
  /venv/bin/python -m pip install --quiet --no-index --find-links /opt/veriftools/wheels --target .vendor mpmath || exit 1
fi
rc=0
for f in spec/*.tla; do
  (cd spec && tla-sany "$(basename "$f")" >/dev/null 2>&1) || { echo "SANY failed on $f"; rc=1; }
done
exit $rc
