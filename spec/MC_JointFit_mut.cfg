SPECIFICATION Spec
CONSTANTS NRows = 4  MaxV = 3  Upw = 2  MinPts = 1  NDim = 2  MaskSpace = "sorted"  WeightSpace = "sliced"  Opts = {"none", "wlsqarr"}
CHECK_DEADLOCK FALSE
INVARIANT IntervalOwnData
INVARIANT KeptExactly
INVARIANT DepFitInputs
INVARIANT OptionsPerDim
