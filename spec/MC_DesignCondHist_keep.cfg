SPECIFICATION Spec
CONSTANTS MaxLen = 4  KeepPolyline = TRUE
CHECK_DEADLOCK FALSE
INVARIANT UsesCurrent
