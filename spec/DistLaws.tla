------------------------------- MODULE DistLaws -------------------------------
(* Leg M for the formula half of C05: the clause operators of DistLawsOps are sound and  *)
(* not vacuous.  TLC builds the table of EVERY discrete distribution with K support      *)
(* cells and integer weights 0..W (total > 0): grid index 1 lies left of the support,     *)
(* 2..K+1 are the cells, K+2 lies right of it; probabilities are in units of 1/T.         *)
(*    Tabulate:  F[i] = sum of the weights of the cells <= i, f[i] = weight of cell i     *)
(*    Invert:    G[p] = min {i : F[i] >= p}   for p = 1..T                                *)
(* and checks every law on it.  Perturb = 1 exchanges two cdf entries while tabulating    *)
(* (the mutation config must violate Monotone); Perturb = 2 tabulates the pdf of the      *)
(* neighbouring cell (must violate DerivativeExact).                                      *)
EXTENDS DistLawsOps, TLC

CONSTANTS K, W, Perturb
VARIABLES pc, w, F, f, G

vars == <<pc, w, F, f, G>>
N == K + 2
Total(ww) == SumSeq(ww)
Side == [i \in 1..N |-> IF i = 1 THEN -1 ELSE IF i = N THEN 1 ELSE 0]
Sgn(s) == [i \in 1..Len(s) |-> IF s[i] > 0 THEN 1 ELSE IF s[i] < 0 THEN -1 ELSE 0]

Init == /\ pc = "start" /\ F = <<>> /\ f = <<>> /\ G = <<>>
        /\ w \in [1..K -> 0..W] /\ Total(w) > 0

RECURSIVE Cum(_, _)
Cum(ww, i) == IF i = 0 THEN 0 ELSE ww[i] + Cum(ww, i - 1)

Tabulate ==
    /\ pc = "start"
    /\ LET F0 == [i \in 1..N |-> IF i = 1 THEN 0 ELSE Cum(w, Min2(i - 1, K))]
           f0 == [i \in 1..N |-> IF i = 1 \/ i = N THEN 0 ELSE w[i - 1]]
       IN /\ F' = IF Perturb = 1
                  THEN [i \in 1..N |-> IF i = 2 THEN F0[3] ELSE IF i = 3 THEN F0[2] ELSE F0[i]]
                  ELSE F0
          /\ f' = IF Perturb = 2
                  THEN [i \in 1..N |-> IF i = 1 \/ i = N THEN 0 ELSE w[IF i = 2 THEN K ELSE i - 2]]
                  ELSE f0
    /\ pc' = "tabulated"
    /\ UNCHANGED <<w, G>>

Invert ==
    /\ pc = "tabulated"
    /\ G' = [p \in 1..Total(w) |-> SetMin({i \in 1..N : F[i] >= p})]
    /\ pc' = "done"
    /\ UNCHANGED <<w, F, f>>

Next == Tabulate \/ Invert
Spec == Init /\ [][Next]_vars

Tab == pc \in {"tabulated", "done"}
MonotoneInv == Tab => Monotone(F)
Range01Inv == Tab => Range01(F, Side, Total(w)) /\ ReachesEnds(F, Total(w), 0)
PdfNonNegInv == Tab => PdfNonNeg(Sgn(f))
PdfZeroOutsideInv == Tab => PdfZeroOutsideSupport(Sgn(f), Side)
DerivativeExact == Tab => \A i \in 2..N : f[i] = F[i] - F[i - 1]
(* the slope over two cells is the sum of their weights: between 2 min and 2 max *)
DerivativeBetween ==
    Tab => \A i \in 2..(N - 1) :
             SlopeBetween(2000 * f[i], 2000 * f[i], 2000 * f[i + 1], 1000 * (F[i + 1] - F[i - 1]), 0)
RoundTripPInv == pc = "done" => \A p \in 1..Total(w) : GaloisP(F, G, p)
RoundTripXInv == pc = "done" => \A x \in 1..N : F[x] >= 1 => GaloisX(F, G, x)
=============================================================================
