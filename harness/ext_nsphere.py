"""Growth beyond the listed properties (DESIGN section 7, item 1): NSphere relaxation.
Called from the C01 driver (the sphere points are the directions of n-D IFORM/ISORM contours)."""
import numpy as np

from .common import Qc, Machinery


def run_ext(ctx, vc):
    from virocon._nsphere import NSphere
    ctx.model_check("NSphere", "MC_NSphere.cfg", must_cover=("Iterate", "Finish"))
    ctx.model_check("NSphere", "MC_NSphere_mut.cfg", expect_violation="NeverWorseThanStart")
    cases = [(3, 10), (3, 37), (4, 25), (3, 120), (5, 16)] + ([(3, 400), (4, 250), (6, 30)] if not ctx.quick else [])
    recs = []
    for i, (dim, n) in enumerate(cases):
        log = []
        orig = NSphere._pot_energy

        def rec(self, _o=orig, _l=log):
            e = _o(self)
            _l.append(float(e))
            return e

        NSphere._pot_energy = rec
        try:
            s = NSphere(dim, n)
        finally:
            NSphere._pot_energy = orig
        s2 = NSphere(dim, n)
        pts = np.asarray(s.unit_sphere_points, dtype=float)
        e0 = log[0]
        seq = [log[0]] + log[2:-1]          # initial energy, then one energy per relaxation iteration
        d = np.linalg.norm(pts[:, None, :] - pts[None, :, :], axis=2)
        d[np.diag_indices(len(pts))] = np.inf
        recs.append(dict(id=i + 1, dim=dim, n=n, energies=[Qc(e / e0, 1e6, 0, 2 * 10**9) for e in seq],
                         final=Qc(log[-1] / e0, 1e6, 0, 2 * 10**9),
                         normdev=Qc(float(np.max(np.abs(np.linalg.norm(pts, axis=1) - 1))), 1e15, 0, 2 * 10**9),
                         mindist=Qc(float(d.min()), 1e9, 0, 2 * 10**9), npoints=int(pts.shape[0]), ncols=int(pts.shape[1]),
                         same=bool(np.array_equal(pts, s2.unit_sphere_points))))
    failing = ctx.validate("Trace_NSphere", "Trace_NSphere.cfg", recs, xss="512m")
    for (dim, n), r in zip(cases, recs):
        ctx.case(f"nsphere dim={dim} n={n}")
        for clause in failing.get(r["id"], []):
            ctx.violation("NSphere." + clause, f"nsphere dim={dim} n={n}", str({k: v for k, v in r.items() if k != 'energies'}), replay=None)
    ctx.notes["nsphere_constructions_judged"] = len(recs)
