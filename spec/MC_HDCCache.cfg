SPECIFICATION Spec
CONSTANTS NC = 3  MaxV = 1  L = 2  MaxSteps = 4  Reuse = FALSE
CHECK_DEADLOCK FALSE
INVARIANT UsesCurrentModel
INVARIANT RegionOfCurrentModel
