"""draw_sample of the exponentiated Weibull / generalized gamma distribution still returns
exact zeros (an atom at 0) for the parameters of fixes b7819db / 1f0eac2, although
cdf(0) = 0 and icdf(p) > 0 for every p > 0 since those fixes."""
import sys
import numpy as np
from virocon.distributions import (
    ExponentiatedWeibullDistribution,
    GeneralizedGammaDistribution,
)

n = 100_000
bad = []
tiny = 5e-324  # smallest positive double

for name, dist in [
    ("ExponentiatedWeibull(alpha=1, beta=500, delta=0.001)",
     ExponentiatedWeibullDistribution(1, 500, 0.001)),
    ("GeneralizedGamma(m=0.002, c=525, lambda_=1)",
     GeneralizedGammaDistribution(0.002, 525, 1)),
]:
    sample = dist.draw_sample(n, random_state=1)
    n_zero = int(np.sum(sample == 0))
    # Oracle: X is continuous with cdf(0) = 0. A draw can only be the double 0.0 if it is below
    # the smallest positive double; union bound over the n draws.
    p_any_zero = n * float(dist.cdf(tiny))
    # cdf / icdf themselves are consistent there (this is what the fixes repaired):
    u = np.random.default_rng(1).uniform(size=n)
    via_icdf = dist.icdf(u)
    assert np.all(via_icdf > 0) and np.allclose(dist.cdf(via_icdf), u, rtol=1e-9)
    frac_below = float(np.mean(sample <= 0.2))
    print(f"{name}: {n_zero} of {n} draws are exactly 0 "
          f"(P[any zero] <= {p_any_zero:.1e}); cdf(0) = {dist.cdf(0.0)}, "
          f"share of draws <= 0.2: {frac_below:.4f}, cdf(0.2) = {dist.cdf(0.2):.4f}; "
          f"icdf(uniform sample): {int(np.sum(via_icdf == 0))} zeros")
    assert p_any_zero < 1e-12
    if n_zero > 0:
        bad.append(f"{name}: {n_zero / n:.1%} exact zeros in draw_sample")
    # Hoeffding: |empirical cdf - cdf| > 0.02 has probability <= 2 exp(-2 n 0.02^2) = 3.6e-35
    if abs(frac_below - dist.cdf(0.2)) > 0.02:
        bad.append(f"{name}: share of draws <= 0.2 is {frac_below:.4f}, cdf(0.2) = {dist.cdf(0.2):.4f}")

# explicit parameters (the path a ConditionalDistribution takes) behave the same way
s = ExponentiatedWeibullDistribution().draw_sample(n, alpha=1, beta=500, delta=0.001, random_state=2)
if np.any(s == 0):
    bad.append(f"explicit parameters: {np.mean(s == 0):.1%} exact zeros")

if bad:
    print("\nVIOLATIONS:")
    for b in bad:
        print(" -", b)
    sys.exit(1)
print("no violation")
