------------------------------ MODULE DistLawsGen ------------------------------
(* Leg R for the formula half of C05: TLC enumerates the parameter classes of every     *)
(* family (DistLawsOps!LawCases) and emits them as JSON; harness/c05.py concretises       *)
(* each class with numbers, tabulates the real class and Trace_C05 judges the table.      *)
EXTENDS DistLawsOps, TLC, Json
CONSTANT Tier
VARIABLE cs
Init == cs \in {<<c[1], c[2], <<0, 0>> >> : c \in LawCases(Tier)} \cup ExtremeCases
Next == UNCHANGED cs
Spec == Init /\ [][Next]_cs
Emit == PrintT(<<"BEH", ToJson([fam |-> cs[1], cl |-> cs[2], ext |-> cs[3]])>>)
=============================================================================
