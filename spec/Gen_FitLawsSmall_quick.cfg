SPECIFICATION Spec
CONSTANTS Reps = {0}
CHECK_DEADLOCK FALSE
INVARIANT Emit
INVARIANT AllInRange
