SPECIFICATION Spec
CONSTANTS Scen = "fit"  NGiven = 2  MutKind = "noneassigned"  MutFam = "ScipyGamma"  MutName = "none"
CHECK_DEADLOCK FALSE
INVARIANT EvalUsesPar
