SPECIFICATION Spec
CONSTANTS K = 4  NP = 6  Continue = FALSE  AnyStart = FALSE
CHECK_DEADLOCK FALSE
INVARIANT IsPermutation
