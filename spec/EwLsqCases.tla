----------------------------- MODULE EwLsqCases -----------------------------
(* C13 leg R: the law cases (weights kind x delta fixed/free x method x sample class x   *)
(* n x replicate) enumerated by TLC; the driver draws the sample, fits, and Trace_C13     *)
(* judges the laws.                                                                       *)
EXTENDS EwLsqOps, TLC, Json
CONSTANTS NSet, Reps
VARIABLE c
SampleClasses == {"ew", "weibull", "lognormal", "uniform", "zeros", "ties"}
LawCases == [wk : GoodWeights, fixed : BOOLEAN, method : FitMethods, cls : SampleClasses,
             n : NSet, rep : Reps]
Init == c \in LawCases
Next == UNCHANGED c
Spec == Init /\ [][Next]_c
Emit == PrintT(<<"BEH", ToJson(c)>>)
=============================================================================
