SPECIFICATION Spec
CONSTANTS K = 4  W = 3  Perturb = 2
CHECK_DEADLOCK FALSE
INVARIANT DerivativeExact
