SPECIFICATION Spec
CONSTANTS MaxRound = 2  NoRefit = FALSE  EmitBeh = TRUE
CHECK_DEADLOCK FALSE
INVARIANT Emit
