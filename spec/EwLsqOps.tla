------------------------------ MODULE EwLsqOps ------------------------------
(* C13 - exponentiated-Weibull least squares = weighted quantile regression.             *)
(*                                                                                       *)
(* Operator module (no VARIABLES / CONSTANTS):                                           *)
(*  (i)   the decision table Outcome(method, weights kind, fixed set);                   *)
(*  (ii)  the exact discrete part of _fit_lsq on integer vectors: stable sort, plotting  *)
(*        positions p_i = (2i-1)/(2n) as rationals, co-sorting of array weights with the *)
(*        data, removal of zero observations AFTER ranking;                              *)
(*  (iii) the clause operators (with tolerances) for the laws judged on measured         *)
(*        quantities in Trace_C13.                                                       *)
(* EwLsq.tla explores (i)+(ii) as a state machine; Trace_C13.tla judges the real code.   *)
EXTENDS Integers, Sequences, FiniteSets, Fix

----------------------------------------------------------------------------
(* (i) decision table.  Weight kinds: "none", "linear", "quadratic", "cubic", "array",   *)
(* "unknown" (any other string), "scalar" (neither str nor iterable), "badshape".         *)
FitMethods == {"lsq", "wlsq"}
GoodWeights == {"none", "linear", "quadratic", "cubic", "array"}
BadWeights == {"unknown", "scalar", "badshape"}   \* badshape: an array that is not one weight per observation
ParamNames == {"alpha", "beta", "delta"}

(* what the fixed set alone decides *)
ByFixed(F) == IF F = {} THEN "fit-free-delta"
              ELSE IF F = {"delta"} THEN "fit-fixed-delta"
              ELSE "NotImplementedError"
(* the set of acceptable outcomes: where two rejections apply (bad weights AND an        *)
(* unsupported fixed set) the property does not fix their order                          *)
Outcomes(method, wk, F) ==
    IF method \notin FitMethods THEN {"ValueError"}
    ELSE IF wk \in BadWeights
         THEN {"ValueError"} \cup (IF ByFixed(F) = "NotImplementedError" THEN {"NotImplementedError"} ELSE {})
         ELSE {ByFixed(F)}

----------------------------------------------------------------------------
(* (ii) discrete model.  An observation is a record [x, w, pn, pd]: value, weight,       *)
(* plotting position pn/pd (0/0 = not yet ranked).                                       *)

(* argsort: indices ordered by (value, index); with array weights tied values are ordered  *)
(* by their weight first (byw), so that which tied observation gets which plotting position *)
(* does not depend on the order of the input (byw = FALSE: the deviation "ties in input     *)
(* order")                                                                                   *)
ArgSortK(xs, ws, byw) ==
    LET Key(a, b) == \/ xs[a] < xs[b]
                     \/ xs[a] = xs[b] /\ byw /\ ws[a] < ws[b]
                     \/ xs[a] = xs[b] /\ (~byw \/ ws[a] = ws[b]) /\ a <= b
        RECURSIVE Srt(_)
        Srt(S) == IF S = {} THEN <<>>
                  ELSE LET m == CHOOSE a \in S : \A b \in S : Key(a, b)
                       IN <<m>> \o Srt(S \ {m})
    IN Srt(1..Len(xs))
ArgSortObs(s, wk, byw) ==
    ArgSortK([i \in 1..Len(s) |-> s[i].x], [i \in 1..Len(s) |-> s[i].w], byw /\ wk = "array")

Obs(d, w) == [i \in 1..Len(d) |-> [x |-> d[i], w |-> w[i], pn |-> 0, pd |-> 0]]

(* the data are sorted; array weights stay where they are until CoSortStep *)
SortStep(s, ord) == [i \in 1..Len(s) |-> [s[i] EXCEPT !.x = s[ord[i]].x]]
(* cosort = FALSE models the deviation "weights not co-sorted" *)
CoSortStep(s, ord, cosort) ==
    IF cosort THEN [i \in 1..Len(s) |-> [s[i] EXCEPT !.w = s[ord[i]].w]] ELSE s
(* keyword weights are computed from the sorted data *)
Pow(x, k) == IF k = 0 THEN 1 ELSE IF k = 1 THEN x ELSE IF k = 2 THEN x * x ELSE x * x * x
KeyExp(wk) == CASE wk = "none" -> 0 [] wk = "linear" -> 1 [] wk = "quadratic" -> 2 [] wk = "cubic" -> 3
KeywordStep(s, wk) == [i \in 1..Len(s) |-> [s[i] EXCEPT !.w = Pow(s[i].x, KeyExp(wk))]]
(* posrule "mid": p_i = (i - 1/2)/n = (2i-1)/(2n); "in": the deviation p_i = i/n *)
RankStep(s, posrule) ==
    [i \in 1..Len(s) |-> [s[i] EXCEPT !.pn = IF posrule = "mid" THEN 2 * i - 1 ELSE 2 * i,
                                      !.pd = 2 * Len(s)]]
DropZeroStep(s) == SelectSeq(s, LAMBDA t : t.x # 0)

(* the whole pipeline; zerosfirst = TRUE models the deviation "zeros removed before ranking" *)
Final(d, w, wk, cosort, zerosfirst, posrule, byw) ==
    LET s0 == IF zerosfirst THEN DropZeroStep(Obs(d, w)) ELSE Obs(d, w)
        ord == ArgSortObs(s0, wk, byw)
        s1 == SortStep(s0, ord)
        s2 == IF wk = "array" THEN CoSortStep(s1, ord, cosort) ELSE KeywordStep(s1, wk)
        s3 == RankStep(s2, posrule)
    IN DropZeroStep(s3)

(* the state the code hands to the regression: sorted, weighted, ranked, zeros still there *)
Ranked(d, w, wk, cosort, posrule, byw) ==
    LET s0 == Obs(d, w)
        ord == ArgSortObs(s0, wk, byw)
        s1 == SortStep(s0, ord)
        s2 == IF wk = "array" THEN CoSortStep(s1, ord, cosort) ELSE KeywordStep(s1, wk)
    IN RankStep(s2, posrule)

(* ---- declarative statement of what the pipeline must deliver ---- *)
Less(d, v) == Cardinality({j \in 1..Len(d) : d[j] < v})
Cnt(d, v) == Cardinality({j \in 1..Len(d) : d[j] = v})
Vals(d) == {d[j] : j \in 1..Len(d)} \ {0}

(* positions: the observations of value v > 0 carry exactly the positions of the ranks   *)
(* Less+1 .. Less+Cnt among ALL n observations (zeros take part in the ranking)          *)
PositionsRule(f, d) ==
    /\ \A i \in 1..Len(f) : f[i].pd = 2 * Len(d)
    /\ \A v \in Vals(d) :
         {f[i].pn : i \in {k \in 1..Len(f) : f[k].x = v}} =
           {2 * r - 1 : r \in (Less(d, v) + 1)..(Less(d, v) + Cnt(d, v))}
    /\ IsSorted([i \in 1..Len(f) |-> f[i].pn])
ZerosDropped(f, d) ==
    /\ \A i \in 1..Len(f) : f[i].x # 0
    /\ Len(f) = Cardinality({j \in 1..Len(d) : d[j] # 0})
(* every weight stays with its observation: same bag of (value, weight) pairs *)
WeightsTravel(f, d, w, W) ==
    \A v \in Vals(d) : \A u \in W :
       Cardinality({i \in 1..Len(f) : f[i].x = v /\ f[i].w = u}) =
       Cardinality({j \in 1..Len(d) : d[j] = v /\ w[j] = u})

(* two results are the same regression problem: the same bag of (x, p, w) triples.  This   *)
(* holds for ALL array weights, tied values with different weights included: the tied      *)
(* observations take their ranks in the order of their weights.                             *)
BagEq(f, g, key(_)) ==
    /\ Len(f) = Len(g)
    /\ \A i \in 1..Len(f) :
         Cardinality({k \in 1..Len(f) : key(f[k]) = key(f[i])}) =
         Cardinality({k \in 1..Len(g) : key(g[k]) = key(f[i])})
SameProblem(f, g) == BagEq(f, g, LAMBDA t : <<t.x, t.pn, t.pd, t.w>>)
(* among tied observations the weights ascend with the plotting position *)
TiesByWeight(f) == \A i \in 1..(Len(f) - 1) : f[i].x = f[i + 1].x => f[i].w <= f[i + 1].w

Permute(s, pi) == [i \in 1..Len(s) |-> s[pi[i]]]
Perms(n) == {f \in [1..n -> 1..n] : \A i, j \in 1..n : i # j => f[i] # f[j]}

----------------------------------------------------------------------------
(* (iii) clause operators over measured quantities.                              *)
(* rel = relative deviation x 10^12 (clamped at 2*10^9), dd = |delta difference| x 10^6,  *)
(* dq = delta x 10^6.                                                                     *)

(* object histories every fixed-delta law case is run with *)
ObjectHistories == {"free_then_fix", "refix", "assign_delta", "deepcopy"}

(* closed-form regression in double precision: condition of the 2x2 normal equations     *)
(* <= 1e4 on the sampled classes, so 1e-8 relative on (alpha, beta) and on the           *)
(* normalised gradient is > 100x above the round-off and > 1000x below the effect of an  *)
(* unnormalised weight vector, a wrong plotting position or a wrong pairing.             *)
Tol8 == 10000
Small(rel) == rel <= Tol8
(* free delta: scipy.optimize.fmin stops when the 1-D simplex is <= xtol = 1e-4 wide      *)
(* (absolute) and the error differs <= ftol = 1e-4; two runs whose objectives differ by   *)
(* a constant factor (or by the order of summation) stop within a few xtol of each other: *)
(* 5e-4 absolute + 1e-4 relative (measured spread <= 1.9e-4).                             *)
DeltaClose(dd, dq) == dd <= 500 + (dq \div 10000)
(* ... and then alpha and beta agree as far as that uncertainty of delta allows: abl = the    *)
(* larger |ln ratio| of alpha and beta x 10^6.  beta ~ 1/delta for small delta, so a delta    *)
(* known to T = DeltaClose's tolerance leaves beta uncertain by about T/delta relative: 1e-3  *)
(* + 3 T/delta.  (At delta ~ 1: 3e-3; at delta ~ xtol nothing is determined - fmin's          *)
(* absolute xtol cannot resolve a minimiser there, see DeltaLocalMin.)                        *)
RelTpm(dq) == IF dq <= 0 THEN 600000 ELSE IF dq < 1000000 THEN ((500 + (dq \div 10000)) * 1000) \div dq ELSE 1
AbClose(abl, dq) == abl <= 1000 + 3000 * RelTpm(dq)
(* object histories of a free delta: the object holds a tiny delta (earlier fit to a sample whose  *)
(* optimum is at delta -> 0, or constructed so).  Where the fresh fit found an interior delta      *)
(* (0.05 .. 50) the fit of the object with a past must be a local minimiser as well and agree.     *)
FreeHistories == {"after_small_delta_fit", "constructed_small_delta",
                  \* ... or a huge one: left by an earlier fit whose search ran away (> 1e10, checked by
                  \* the driver), or given to the constructor (at least one of the three values per case)
                  "after_runaway_fit"}
HugeConstructed == {"constructed_delta_1e14", "constructed_delta_1e16", "constructed_delta_1e20"}
Interior(dq) == 50000 <= dq /\ dq <= 50000000
(* local minimum: E(delta) <= E(delta +- h) with h = 1e-3*delta + 5e-4 (>= 2x the          *)
(* optimiser's uncertainty); em / ep = (E(delta -+ h) - E(delta)) / E(delta) x 10^12,      *)
(* 1e-9 slack for the round-off of E.                                                      *)
(* which metamorphic variants a law record must contain (coverage of the laws) *)
RequiredVariants(wk, haszeros, isint) ==
    {"perm"} \cup (IF haszeros THEN {"zeroweights"} ELSE {}) \cup (IF isint THEN {"intdtype"} ELSE {})
             \cup (IF wk = "array" THEN {"scaled"} ELSE IF wk = "none" THEN {"ones"} ELSE {"kwarray"})
(* (a delta beyond the fixed-point range, 2000, is clamped by the driver: no step check)    *)
StepOk(hq, dq) == dq >= 2000000000 \/ Abs(hq - ((dq \div 1000) + 500)) <= 1
LocalMin(em, ep) == em >= -1000 /\ ep >= -1000
(* The error need not have a minimiser: for bounded-tail samples it decreases monotonically  *)
(* to its infimum as delta -> 0, for some heavy-tailed small samples as delta -> infinity   *)
(* (evaluated in log space down to 1e-6 / up to 1e28), and fmin then runs away until its     *)
(* iteration limit.  A returned delta outside [1e-3, 1e3] (the range of the fixed-delta      *)
(* classes) is such a runaway; there only the INWARD neighbour can be required not to be     *)
(* better.  Inside the range the condition is two-sided and both neighbours must be finite  *)
(* (emdef / epdef; the reference evaluates the linearised positions in log space, so a stop *)
(* at an underflow or cancellation cliff of the implementation is a violation).             *)
LocalMinD(em, ep, emdef, epdef, dq) ==
    IF dq < 1000 THEN epdef /\ ep >= -1000
    ELSE IF dq > 1000000000 THEN emdef /\ em >= -1000
    ELSE emdef /\ epdef /\ em >= -1000 /\ ep >= -1000
=============================================================================
