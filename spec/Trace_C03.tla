----------------------------- MODULE Trace_C03 -----------------------------
(* Trace validation for C03.  One real DirectSamplingContour gives                      *)
(*   one record kind = "contour" (whole-polygon clauses) and                            *)
(*   one record kind = "edge" per polygon edge v_j -> v_(j+1), closing edge included.   *)
(*                                                                                      *)
(* Measurements (harness/c03.py, nothing is taken from virocon's own direction table):  *)
(*   phi    outward normal of the edge's line in micro-degrees, 0 <= phi < 360e6,       *)
(*          measured from the two end points; "outward" = the side with the minority    *)
(*          of the sample.  An edge shorter than 1e-4 of the polygon's size has no      *)
(*          measurable direction (coincident vertices are normal: whenever the same     *)
(*          pair of sample points fixes the quantile at neighbouring angles all those   *)
(*          tangents pass through one point).  Such an edge gives a record kind =       *)
(*          "short"; a measurable one a record kind = "edge" with phin = the normal of  *)
(*          the next measurable edge and gap = the number of short edges in between.    *)
(*   The projections are taken at the grid direction (origin + k step, origin estimated   *)
(*   from all measurable edges) nearest to phi when phi is within 1e-6 degree of it.     *)
(*   offa, offb  end points projected on that normal; cref the reference quantile of    *)
(*          the projected sample (order statistics + linear interpolation at index      *)
(*          (n-1)(1-alpha), written out in the driver); all in units of 1/scale (own scale per record).        *)
(*   above = #{z > off + eps}, atleast = #{z >= off - eps} (eps: see FractionBeyond).   *)
(* alpha = a / b exactly when it is handed over as a Python float / np.float64 (dyadic =  *)
(* FALSE; the round-off of the double nearest to a/b, 1e-17, is below everything measured). *)
(* An alpha handed over as np.float32 IS the real number float(alpha) = m / 2^e, e up to 37 *)
(* (dyadic = TRUE): a / b is only its nominal value, 100 * 2^e and m (n-1) do not fit 32     *)
(* bit, so the driver evaluates floor / ceiling of alpha (n-1) and floor(100 / alpha) with   *)
(* fractions.Fraction(float(alpha)) and supplies them as kmin, kmax, nref; cref is computed  *)
(* in double precision from float(alpha) in either case.                                     *)
EXTENDS Fix, Json, IOUtils, TLC

TraceLog == ndJsonDeserialize(IOEnv.TRACE_FILE)
VARIABLE l

Full == 360000000
(* Angle tolerance 1e-3 degree.  Vertices carry a relative error of about 1e-16/sin(step) *)
(* <= 6e-15; an edge that is not short is longer than 1e-4 of the polygon, so its         *)
(* measured direction is off by <= 6e-11 rad = 4e-9 degree.  An index shift or a wrong    *)
(* wrap-around moves a normal by a whole step (>= 1 degree).                              *)
AngTol == 1000

Adv(p, q) == (p - q + Full) % Full                (* clockwise advance p -> q *)
CircWithin(x, y) == LET d == (x - y + Full) % Full IN d <= AngTol \/ d >= Full - AngTol

(* Successive measurable edges advance by exactly one step per edge: with gap short     *)
(* edges in between the advance is (gap + 1) steps - or gap steps, because one edge of     *)
(* length zero may share the tangent of its neighbour (DirectSampling.tla: the vertex      *)
(* Meet(d,e) listed twice at the closing position).                                        *)
IsSteps(adv, m, step) == m >= 1 /\ CircWithin(adv, (m * step * 1000000) % Full)
StepOk(p, q, gap, step) == IsSteps(Adv(p, q), gap + 1, step) \/ IsSteps(Adv(p, q), gap, step)
StepsOf(p, q, gap, step) == IF IsSteps(Adv(p, q), gap + 1, step) THEN gap + 1 ELSE gap

(* Offset tolerance.  Every record has its own power-of-ten scale with the largest of its  *)
(* offsets between 1e8 and 1e9 units, so 1e-6 of an offset is >= 100 units.  Tolerance:      *)
(* 2 units (rounding of the projections) + 1e-6 |cref| + 1e-6 lev, lev = distance of the     *)
(* edge's vertices from the origin (they are accurate to ~1e-16/sin(step) <= 6e-15 of it;    *)
(* the projections use the grid direction, accurate to ~1e-15 rad).  A swapped quantile      *)
(* level, a shifted index, truncated or centred-and-rounded projections move the offset by   *)
(* far more.                                                                                  *)
(* r.lev is clamped at 2e9 units.  Below the clamp (the vertices are within 20 times the      *)
(* largest offset of the record from the origin: no cancellation) all of these errors are    *)
(* below 1 unit and the tolerance is 2 units + 1e-8 |cref| + 1e-8 lev: 1 - alpha formed in    *)
(* single precision (off by up to 3e-8) moves the quantile by 3e-8 / (density of the          *)
(* projection at the quantile), i.e. 1e-7 .. 1e-4 of the offset.  At the clamp (a polygon     *)
(* whose vertices are far from the origin compared with the offsets of its tangents, e.g.     *)
(* one sample point at 1e17) the tolerance stays 1e-6.                                        *)
LevClamp == 2000000000
OffTol(r, cref) == IF r.lev >= LevClamp THEN 2 + (Abs(cref) \div 1000000) + (r.lev \div 1000000)
                   ELSE 2 + (Abs(cref) \div 100000000) + (r.lev \div 100000000)

(* clo <= cref <= chi brackets the reference over direction round-off (+-2e-15 rad); the     *)
(* three coincide unless the sample has points at ~1e15 times the offset                     *)
Between(x, lo, hi, tol) == lo - tol <= x /\ x <= hi + tol
OnTangent(offa, offb, cref, clo, chi, r) ==
    Between(offa, clo, chi, OffTol(r, cref)) /\ Between(offb, clo, chi, OffTol(r, cref))

CeilDiv(x, y) == (x + y - 1) \div y

(* linear interpolation between the order statistics lo = floor(h), lo + 1 with          *)
(* h = (n-1)(1-alpha) leaves at most ceil(alpha (n-1)) sample points strictly beyond the  *)
(* line and at least floor(alpha (n-1)) on or beyond it - with or without ties.  The      *)
(* driver counts with a margin eps = 1e-12 (lev + |p_i|) per point (above: beyond by more   *)
(* than eps, atleast: not below by more than eps), which covers the measurement error     *)
(* and can only make the clause weaker, never wrong.                                      *)
KMax(r) == IF r.dyadic THEN r.kmax ELSE CeilDiv(r.a * (r.n - 1), r.b)     \* ceil(alpha (n-1))
KMin(r) == IF r.dyadic THEN r.kmin ELSE (r.a * (r.n - 1)) \div r.b        \* floor(alpha (n-1))
FractionOk(above, atleast, r) == above <= KMax(r) /\ atleast >= KMin(r)

EdgeClauses(r) == <<
    <<"StepExact", StepOk(r.phi, r.phin, r.gap, r.step)>>,
    <<"EdgeOnTangent", OnTangent(r.offa, r.offb, r.cref, r.clo, r.chi, r)>>,
    <<"FractionBeyond", FractionOk(r.above, r.atleast, r)>>
  >>

(* an edge too short to have a direction: its (coincident) end points lie on the tangent  *)
(* of the direction it stands for, counted in whole steps from the measurable edge before *)
(* it or, equivalently unless a zero-advance is involved, from the one after it            *)
ShortClauses(r) == <<
    <<"EdgeOnTangent", OnTangent(r.offa, r.offb, r.cref, r.clo, r.chi, r)
                       \/ OnTangent(r.offa2, r.offb2, r.cref2, r.clo2, r.chi2, r)>>,
    <<"FractionBeyond", FractionOk(r.above, r.atleast, r) \/ FractionOk(r.above2, r.atleast2, r)>>
  >>

(* whole polygon: every advance is right and the steps add up to 360/step: the normals   *)
(* cover the full circle exactly once                                                     *)
NLong(r) == Len(r.phis)
NextIdx(r, j) == IF j = NLong(r) THEN 1 ELSE j + 1
RECURSIVE StepSum(_, _)
StepSum(r, j) == IF j > NLong(r) THEN 0
                 ELSE StepsOf(r.phis[j], r.phis[NextIdx(r, j)], r.gaps[j], r.step) + StepSum(r, j + 1)
FullCircle(r) ==
    /\ \A j \in 1..NLong(r) : StepOk(r.phis[j], r.phis[NextIdx(r, j)], r.gaps[j], r.step)
    /\ StepSum(r, 1) = 360 \div r.step

(* n = int(100 / alpha) of the real number alpha *)
NRef(r) == IF r.dyadic THEN r.nref ELSE (100 * r.b) \div r.a

ContourClauses(r) ==
  IF r.exc # "" THEN << <<"UnexpectedException", FALSE>> >>
  ELSE IF ~r.finite THEN << <<"FiniteVertices", FALSE>> >>
  ELSE <<
    <<"FullCircleOnce", r.degenerate \/ FullCircle(r)>>,
    <<"DefaultN", r.defaultn => r.nsample = NRef(r)>>,
    <<"GivenN", r.givenn > 0 => r.nsample = r.givenn>>,
    <<"SampleKept", r.samplekept>>,
    <<"TwoColumns", r.ncol = 2>>
  >>

Clauses(r) == CASE r.kind = "edge" -> EdgeClauses(r) [] r.kind = "short" -> ShortClauses(r) [] OTHER -> ContourClauses(r)
Verdict(r) == Failing(Clauses(r))

Init == l = 1
Next == /\ l <= Len(TraceLog)
        /\ LET r == TraceLog[l] v == Verdict(r) IN
             IF v = <<>> THEN TRUE ELSE PrintT(<<"VERDICT", r.id, v>>)
        /\ l' = l + 1
Spec == Init /\ [][Next]_l
Consumed == l = Len(TraceLog) + 1 => PrintT(<<"CONSUMED", l - 1>>)
=============================================================================
