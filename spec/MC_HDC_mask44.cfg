SPECIFICATION Spec
CONSTANTS S1 = 4 S2 = 4 S3 = 0  MaxV = 1  Start = "Mask"  Strict = FALSE  Cross = FALSE  Close = FALSE  LabelBoundary = FALSE  RankByArray = FALSE  Coarse = 1
CHECK_DEADLOCK FALSE
INVARIANT ErosionIsBoundary
INVARIANT CoordsAreBoundary
INVARIANT EachOnce
INVARIANT SetsDoNotMixRegions
INVARIANT OneSetPerRegion
INVARIANT EveryRegionHasASet
INVARIANT LabelOrder
INVARIANT FastIsDef
INVARIANT LabelIsTraceNotion
