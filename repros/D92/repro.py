"""C10: WidthOfIntervalSlicer computes its edges in the (narrow) integer type of
value_range / width -> max + width wraps around, observations inside the covered
range end up in no interval (or a spurious RuntimeError is raised)."""
import sys
import warnings
import numpy as np
from virocon.intervals import WidthOfIntervalSlicer

warnings.simplefilter("ignore")
fail = 0

# wind direction sector / integer-coded data stored compactly as uint8
data = np.array([5, 15, 25, 95, 105, 115, 200, 240, 245, 250], dtype=np.uint8)
width = 10

# oracle: the very same configuration with the limits written as Python numbers
ref = WidthOfIntervalSlicer(
    width, value_range=(0, 250), min_n_points=1, min_n_intervals=1
).slice_(data)
ref_cnt = np.sum(ref[0], axis=0)
assert np.all(ref_cnt == 1)  # every observation in exactly one interval
n_ref = len(ref[0])  # 9 intervals hold at least one observation

# case A: upper limit taken from the data (numpy scalar of the data's dtype)
s = WidthOfIntervalSlicer(
    width, value_range=(0, data.max()), min_n_points=1, min_n_intervals=1
)
slices, refs, bounds = s.slice_(data)
cnt = np.sum(slices, axis=0)
print("A: value_range=(0, np.uint8(250)): boundaries", bounds)
print("A: number of intervals per observation:", cnt, "(expected all 1)")
covered = (data >= 0) & (data <= 250)
if np.any(cnt[covered] != 1):
    print("A: VIOLATION - observations inside [0, 250] belong to no interval")
    fail = 1

# case B: default min_n_intervals -> spurious RuntimeError although 9 intervals
# with >= 1 observation exist
s = WidthOfIntervalSlicer(width, value_range=(0, data.max()), min_n_points=1)
try:
    out = s.slice_(data)
    print("B: intervals:", len(out[0]))
    if len(out[0]) != n_ref:
        fail = 1
except RuntimeError as e:
    print("B: VIOLATION - RuntimeError:", e)
    fail = 1

# case C: Python-int limits, numpy-typed width (int8): 127 + np.int8(10) wraps
d8 = np.array([5, 15, 25, 120, 125, 127], dtype=np.int8)
s = WidthOfIntervalSlicer(
    np.int8(10), value_range=(0, 127), min_n_points=1, min_n_intervals=1
)
try:
    out = s.slice_(d8)
    c = np.sum(out[0], axis=0)
    print("C: counts", c)
    if np.any(c != 1):
        fail = 1
except RuntimeError as e:
    print("C: VIOLATION - RuntimeError:", e)
    fail = 1

# case D: float16 limit: float16(1500) + 0.5 is rounded back to 1500
d16 = np.array([10, 700, 1400, 1500], dtype=np.float16)
out = WidthOfIntervalSlicer(
    0.5, value_range=(0, d16.max()), min_n_points=1, min_n_intervals=1
).slice_(d16)
c = np.sum(out[0], axis=0)
print("D: counts", c, "(expected all 1; the upper limit 1500 itself is lost)")
if np.any(c != 1):
    print("D: VIOLATION")
    fail = 1

sys.exit(fail)
