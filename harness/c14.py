"""C14 - dependence functions: bounds, optimality, dependency order.

M: TLC explores spec/DepFit.tla (register/callback protocol) for six graphs, all declaration
   orders, all fit-call orders, 2-3 rounds; mutation NoRefit must violate.
R: TLC emits every behaviour (graph, declaration order, history); each is replayed on real
   DependenceFunction objects with `_fit` wrapped to record the internal cascade.
V: Trace_C14.tla replays the recorded history through the spec's own FitCall operator and
   compares every observation; fit-quality records (bounds, constraints, optimality, lstsq)
   are judged by the same trace spec.
"""
import itertools
import warnings

import math
import numpy as np

from .common import Q, Qc, Machinery, import_virocon

LEVEL = "model_checking"

GRAPHS = {
    "chain2": {"a": [], "b": ["a"]},
    "chain3": {"a": [], "b": ["a"], "c": ["b"]},
    "fan": {"a": [], "b": ["a"], "c": ["a"]},
    "join": {"a": [], "b": [], "c": ["a", "b"]},
    "diamond": {"a": [], "b": ["a"], "d": ["a", "b"]},
    "diamond2": {"a": [], "b": ["a"], "d": ["b", "a"]},
    # "r" has NO free parameter (a function of another dependence function only, D83); "c" depends on it
    "relay": {"a": [], "r": ["a"], "c": ["r"]},
}
PFREE = {"r"}
XS = np.array([0.5, 1.0, 1.7, 2.4, 3.1, 4.0, 5.2])


def _gate(v):
    """strict variant: a conditioner still at its start parameters (-5 + 0 x) makes the dependent's formula
    non-finite, as log / sqrt shapes do; every fitted conditioner is > 0 on XS (data >= 1)"""
    return np.where(v > -4.0, 0.0, np.nan)


def _make_func(conds, strict=False, pfree=False):
    """own parameters p0, p1 (linear), conditioners enter as an offset evaluated at the same x"""
    if pfree:
        def f(x, A):
            return 2.0 * A(x) + (_gate(A(x)) if strict else 0.0)
        return f
    if len(conds) == 0:
        if strict:
            def f(x, p0=-5.0, p1=0.0):
                return p0 + p1 * x
        else:
            def f(x, p0=0.3, p1=0.7):
                return p0 + p1 * x
    elif len(conds) == 1:
        if strict:
            def f(x, p0, p1, A):
                return p0 + p1 * x + 0.5 * A(x) ** 2 + _gate(A(x))
        else:
            def f(x, p0, p1, A):
                return p0 + p1 * x + 0.5 * A(x) ** 2
    else:
        if strict:
            def f(x, p0, p1, A, B):
                return p0 + p1 * x + 0.5 * A(x) ** 2 + 0.25 * np.sin(B(x)) + _gate(A(x)) + _gate(B(x))
        else:
            def f(x, p0, p1, A, B):
                return p0 + p1 * x + 0.5 * A(x) ** 2 + 0.25 * np.sin(B(x))
    return f


def _ydata(name, version, seed):
    rng = np.random.default_rng(hash((name, version, seed)) % (2**32))
    base = {"a": (1.0, 0.5), "b": (2.0, -0.3), "c": (0.5, 1.2), "d": (3.0, 0.1), "r": (2.0, 1.0)}[name]
    return base[0] + 0.37 * version + (base[1] + 0.11 * version) * XS + 0.2 * rng.standard_normal(len(XS))


class Wiring:
    """Real DependenceFunction objects for one graph, with `_fit` wrapped for recording."""

    def __init__(self, vc, graph, decl, seed, strict=False, lazy=False):
        self.vc = vc
        self.strict = strict
        self.lazy = lazy        # lazy: a function is declared only right before its first fit call (D63)
        self.deps = GRAPHS[graph]
        self.seed = seed
        self.objs = {}
        self.log = []
        self.names, self.start = {}, {}
        if not lazy:
            for name in decl:
                self.declare(name)
        self.data = {}

    def declare(self, name):
        if name in self.objs:
            return
        conds = self.deps[name]
        for c in conds:
            self.declare(c)
        kw = {k: self.objs[c] for k, c in zip(["A", "B"], conds)}
        o = self.vc.DependenceFunction(_make_func(conds, self.strict, name in PFREE), **kw)
        self.objs[name] = o
        self.names[id(o)] = name
        self.start[name] = dict(o.parameters)

    def offset(self, name):
        conds = self.deps[name]
        if any(c not in self.objs for c in conds):
            return np.full_like(XS, np.nan)
        off = np.zeros_like(XS)
        if len(conds) >= 1:
            off = off + 0.5 * self.objs[conds[0]](XS) ** 2
        if len(conds) == 2:
            off = off + 0.25 * np.sin(self.objs[conds[1]](XS))
        return off

    def pdev(self, name):
        """relative deviation (x1e9, clamped) of the parameters from the least squares solution
        computed with the CURRENT conditioner parameters; 2e9 if fit was never called"""
        if name not in self.data or name not in self.objs:
            return 2 * 10**9
        if name in PFREE:
            return 1          # nothing to estimate: fitted as soon as fit was requested
        y = self.data[name]
        A = np.c_[np.ones_like(XS), XS]
        with np.errstate(all="ignore"):
            off = self.offset(name)
        if not np.all(np.isfinite(off)):
            return 2 * 10**9
        sol, *_ = np.linalg.lstsq(A, y - off, rcond=None)
        cur = np.array(list(self.objs[name].parameters.values()), dtype=float)
        return Qc(float(np.max(np.abs(cur - sol) / (np.abs(sol) + 1e-2))), 1e9, 0, 2 * 10**9)

    def call(self, name, version):
        DF = self.vc.DependenceFunction
        orig = DF._fit
        log = []
        names = self.names

        def rec(obj, x, y):
            log.append(names.get(id(obj), "?"))
            return orig(obj, x, y)

        self.declare(name)
        y = _ydata(name, version, self.seed)
        self.data[name] = y
        DF._fit = rec
        exc = ""
        try:
            with warnings.catch_warnings():
                warnings.simplefilter("ignore")
                self.objs[name].fit(XS, y)
        except Exception as e:  # noqa - the user's fit call failed: judged by FitCallSucceeds
            exc = f"{type(e).__name__}: {e}"[:160]
        finally:
            DF._fit = orig
        allnames = list(self.deps)
        hasattrs = (not self.lazy) and all(hasattr(o, "_may_fit") and hasattr(o, "_fitted_conditioners") for o in self.objs.values())
        ev = dict(f=name, d=version, internal=log, exc=exc,
                  pdev={n: self.pdev(n) for n in allnames},
                  atstart={n: (n not in self.objs or dict(self.objs[n].parameters) == self.start[n]) for n in allnames})
        if hasattrs:
            ev["mayfit"] = {n: bool(o._may_fit) for n, o in self.objs.items()}
            ev["nfc"] = {n: len(o._fitted_conditioners) for n, o in self.objs.items()}
        else:
            ev["mayfit"] = {n: False for n in allnames}
            ev["nfc"] = {n: 0 for n in allnames}
        return ev, hasattrs


def proto_record(vc, rid, graph, decl, calls, seed, strict=False, lazy=False):
    w = Wiring(vc, graph, decl, seed, strict, lazy)
    evs = []
    has = True
    for name, version in calls:
        ev, h = w.call(name, version)
        has = has and h
        evs.append(ev)
    return dict(id=rid, kind="proto", graph=graph, decl=list(decl), events=evs, hasattrs=has, strict=bool(strict), lazy=bool(lazy))


# ------------------------------------------------------------------------------------
# fit quality


def shapes():
    def power3(x, a, b, c):
        return a + b * x**c

    def exp3(x, a, b, c):
        return a + b * np.exp(c * x)

    def asymdecrease3(x, a, b, c):
        return a + b / (1 + c * x)

    def lnsquare2(x, a, b, c):
        return np.log(a + b * np.sqrt(np.divide(x, 9.81)))

    def logistics4(x, a=1, b=1, c=-1, d=1):
        return a + b / (1 + np.exp(c * (x - d)))

    def linear2(x, a=0, b=1):
        return a + b * x

    def limited_growth2(x, a=0.08, b=1):
        return a * (1 - np.exp(-b * x))

    def poly3(x, a, b, c):
        return a + b * x + c * x**2

    def quadbasis(x, a, b):
        return a * np.sqrt(x) + b * x**2

    def linneg2(x, a, b):
        return a + b * x

    B3 = [(0, None), (0, None), (None, None)]
    return [
        # name, func, true params, bounds options, linear?
        ("power3", power3, (1.5, 0.4, 1.3), [B3, None, [(0, 5), (0, 2), (0.5, 3)]], False),
        ("exp3", exp3, (0.1, 0.3, -0.4), [B3, None], False),
        ("asymdecrease3", asymdecrease3, (0.05, 0.3, 0.4), [B3], False),
        ("lnsquare2", lnsquare2, (1.2, 4.0, 0.0), [B3], False),
        ("logistics4", logistics4, (0.8, 1.5, -1.2, 2.5), [[(0, None), (0, None), (None, 0), (0, None)]], False),
        ("linear2", linear2, (0.7, 1.9), [None, [(0, None), (0, None)], [(None, None), (None, None)], [(-10, 10), (-10, 10)]], True),
        ("limited_growth2", limited_growth2, (0.09, 0.8), [[(0, 1), (0, None)]], False),
        ("poly3", poly3, (0.5, -0.2, 0.15), [None, [(None, None)] * 3], True),
        ("quadbasis", quadbasis, (1.1, 0.3), [None], True),
        # bounds that exclude the default start value 1 of a parameter without default (D64)
        ("linneg2", linneg2, (5.0, -0.3), [[(None, None), (None, 0)], [(2, 10), (None, None)], [(None, None), (-1, -0.1)]], True),
        # ACTIVE bounds that are exactly zero (a falsy bound is still a bound): the generating slope lies beyond them
        ("linzero2", linneg2, (2.0, 0.4), [[(None, None), (None, 0)], [(None, None), (None, 0.0)], [(0, None), (None, 0)]], True),
        ("linzero2neg", linneg2, (5.0, -0.3), [[(None, None), (0, None)], [(None, 0), (0.0, None)]], True),
        # residual of about 1e5..1e6 at the start parameters (1, 1, 1): scale dependence of SLSQP (D41)
        ("poly3wide", poly3, (1.0, 0.5, 0.05), [[(0, None)] * 3, [(0, None), (0, None), (None, None)]], True),
    ]


def objective(func, x, y, p, w):
    r = func(x, *p) - y
    if w is not None:
        # the documented meaning of DependenceFunction(weights=...): sum(w_i * r_i**2)
        return float(np.sum(w * r**2))
    return float(np.sum(r**2))


def fit_record(vc, rid, case):
    name, func, ptrue, bounds, linear = case["shape"]
    rng = np.random.default_rng(case["seed"])
    n = case["n"]
    x = np.sort(rng.uniform(0.3, 20.0 if name.endswith("wide") else 6.0, size=n))
    y = func(x, *ptrue)
    y = y + case["noise"] * np.abs(y).mean() * rng.standard_normal(n)
    if case.get("fixed"):
        x, y = np.array(FIXED_DATA[case["fixed"]]["x"]), np.array(FIXED_DATA[case["fixed"]]["y"])
        n = len(x)
    mag = case.get("mag", 1.0)
    if mag != 1.0:
        # small-magnitude data (steepness, standard deviations): linear shapes only, y and parameters scale together
        y = y * mag
        ptrue = tuple(v * mag for v in ptrue)
    wkind = case["weights"]
    weights = None
    if wkind == "y":
        weights = lambda xx, yy: np.abs(yy) + 0.1  # noqa
    elif wkind == "x":
        weights = lambda xx, yy: 0.5 + xx  # noqa
    elif wkind == "y2":
        # arithmetic that only works on arrays (a joint fit hands the estimates over as a Python list: D62)
        weights = lambda xx, yy: yy**2 + 0.5 * xx + 0.05  # noqa
    cons = None
    ckind = case["cons"]
    npar = len(ptrue)
    if ckind != "none":
        # constraint on the last parameter: p[-1] <= limit  (active: limit below the true value)
        lim = ptrue[-1] - 0.3 * (abs(ptrue[-1]) + 0.2) if ckind.startswith("active") else ptrue[-1] + 5 * (abs(ptrue[-1]) + 1)
        c = {"type": "ineq", "fun": (lambda p, lim=lim: lim - p[-1])}
        if case.get("fixed") == "line-active":
            # ONE active linear constraint a + 1.3 b <= 1.03 in three spellings (D88)
            c = {"type": "ineq", "fun": [lambda p: -p[0] - 1.3 * p[1] + 1.03, lambda p: 1.03 - (p[0] + 1.3 * p[1]),
                                          lambda p: 1.03 - p[0] - 1.3 * p[1]][case.get("spelling", 0)]}
        elif case.get("fixed") and "cons" in FIXED_DATA[case["fixed"]]:
            c = {"type": "ineq", "fun": FIXED_DATA[case["fixed"]]["cons"]}
        elif case.get("fixed"):
            c = {"type": "ineq", "fun": (lambda p: p[0] + p[1])}     # a + b >= 0: inactive
        cons = c if ckind.endswith("dict") else [c]
    expected = ["ok", "RuntimeError"]   # "Raises RuntimeError if the fit fails" is documented
    if case.get("fixed") == "line-active":
        expected = ["ok"]               # a strictly convex quadratic programme: there is nothing to fail
    if cons is not None and weights is not None:
        expected = ["NotImplementedError"]
    df = vc.DependenceFunction(func, bounds=bounds, constraints=cons, weights=weights)
    p0 = tuple(df.parameters.values())
    rec = dict(id=rid, kind="fit", expected=expected,
               linear=bool(linear and ckind == "none" and (_inactive(bounds, ptrue) or case.get("mag", 1.0) != 1.0)),
               inbounds=True, startadm=True, consmin=10**9, objstart=0, objfit=0, objpert=0, rpert=2 * 10**9, rstart=2 * 10**9, lindev=0, finite=True)
    wv = None if weights is None else np.asarray(weights(x, y), dtype=float)
    try:
        with warnings.catch_warnings():
            warnings.simplefilter("ignore")
            if case.get("aslist"):
                df.fit([float(v) for v in x], [float(v) for v in y])
            else:
                df.fit(x, y)
        rec["outcome"] = "ok"
    except NotImplementedError:
        rec["outcome"] = "NotImplementedError"
        return rec
    except Exception as e:  # noqa
        rec["outcome"] = type(e).__name__
        return rec
    p = np.array(list(df.parameters.values()), dtype=float)
    rec["finite"] = bool(np.all(np.isfinite(p)))
    scale = objective(func, x, y, [0.0] * 0 + list(np.zeros(npar)), wv) if False else float(np.sum((wv if wv is not None else 1.0) * y**2))
    scale = max(scale, 1e-300)
    lo = [(-np.inf if (bounds is None or b[0] is None) else b[0]) for b in (bounds or [(None, None)] * npar)]
    hi = [(np.inf if (bounds is None or b[1] is None) else b[1]) for b in (bounds or [(None, None)] * npar)]
    eps = 1e-9
    rec["inbounds"] = bool(all(lo[i] - eps * (1 + abs(lo[i]) if np.isfinite(lo[i]) else 0) <= p[i] <= hi[i] + eps * (1 + abs(hi[i]) if np.isfinite(hi[i]) else 0)
                               for i in range(npar)))
    if cons is not None:
        cl = [cons] if isinstance(cons, dict) else cons
        rec["consmin"] = Qc(min(float(c["fun"](p)) for c in cl), 1e9, -2 * 10**9, 2 * 10**9)
    with np.errstate(all="ignore"):
        ofit = objective(func, x, y, p, wv)
        ostart = objective(func, x, y, p0, wv)
        best = np.inf
        for i in range(npar):
            for sgn in (1, -1):
                q = p.copy()
                q[i] = q[i] + sgn * 1e-2 * max(abs(q[i]), 1e-2)
                q[i] = min(max(q[i], lo[i]), hi[i])
                if cons is not None and any(float(c["fun"](q)) < 0 for c in ([cons] if isinstance(cons, dict) else cons)):
                    continue
                if np.array_equal(q, p):
                    continue
                o = objective(func, x, y, q, wv)
                if o == o:
                    best = min(best, o)
        # ... and along the scaled descent direction, at several step lengths (a 1 % step along one axis overshoots a
        # steep narrow valley: fifth hunt round, exp3-smallmag2). Every probe is a nearby admissible perturbation.
        sc = np.maximum(np.abs(p), 1e-12)      # relative to the size of each parameter (b = 3.6e-7 in exp3-smallmag2)
        g = np.zeros(npar)
        for i in range(npar):
            h = 1e-6 * sc[i]
            qp, qm = p.copy(), p.copy()
            qp[i] += h
            qm[i] -= h
            g[i] = (objective(func, x, y, qp, wv) - objective(func, x, y, qm, wv)) / (2 * h)
        d = -g * sc * sc
        dmax = np.max(np.abs(d) / sc) if np.all(np.isfinite(d)) else 0.0
        if dmax > 0:
            for rel in (1e-2, 3e-3, 1e-3, 3e-4, 1e-4, 3e-5):
                q = np.minimum(np.maximum(p + d * (rel / dmax), lo), hi)
                if cons is not None and any(float(c["fun"](q)) < 0 for c in ([cons] if isinstance(cons, dict) else cons)):
                    continue
                if np.array_equal(q, p):
                    continue
                o = objective(func, x, y, q, wv)
                if o == o:
                    best = min(best, o)
    rec["objfit"] = Qc(ofit / scale, 1e9, 0, 2 * 10**9)
    rec["objstart"] = Qc(ostart / scale if ostart == ostart else np.inf, 1e9, 0, 2 * 10**9)
    rec["objpert"] = Qc(best / scale, 1e9, 0, 2 * 10**9)
    # objectives beyond the fixed-point range (> 2 x the zero-function objective) are compared as ratios
    rec["rpert"] = Qc(best / ofit if ofit > 0 else np.inf, 1e9, 0, 2 * 10**9)
    rec["rstart"] = Qc(ostart / ofit if (ofit > 0 and ostart == ostart) else np.inf, 1e9, 0, 2 * 10**9)
    p0a = np.array(p0, dtype=float)
    rec["startadm"] = bool(all(lo[i] <= p0a[i] <= hi[i] for i in range(npar)) and
                           (cons is None or all(float(c["fun"](p0a)) >= 0 for c in ([cons] if isinstance(cons, dict) else cons))))
    if rec["linear"]:
        cols = np.array([func(x, *np.eye(npar)[i]) for i in range(npar)]).T
        sw = 1.0 if wv is None else np.sqrt(wv)
        sol, *_ = np.linalg.lstsq(cols * (sw[:, None] if wv is not None else 1.0), y * sw, rcond=None)
        # the property speaks of INACTIVE bounds: the unconstrained solution itself must lie well inside them
        # (with 3 noisy points it can leave the bounds although the generating parameters are inside)
        inside = all(lo[i] + 1e-3 * (mag + abs(sol[i])) < sol[i] < hi[i] - 1e-3 * (mag + abs(sol[i])) for i in range(npar))
        if inside:
            rec["lindev"] = Qc(float(np.max(np.abs(p - sol) / (np.abs(sol) + 1e-3 * mag))), 1e9, 0, 2 * 10**9)
        else:
            rec["linear"] = False
    return rec


def _inactive(bounds, ptrue):
    if bounds is None:
        return True
    for (lo, hi), t in zip(bounds, ptrue):
        if lo is not None and t - lo < 0.2 * (abs(t) + 0.1):
            return False
        if hi is not None and hi - t < 0.2 * (abs(t) + 0.1):
            return False
    return True


# data on which a restart stage of the constrained fit makes progress but hits SLSQP's iteration limit (D65):
# DNVGL exponential shape, 8 support points, y = 2.1236 + 0.3261 exp(-0.3304 x) + small noise
FIXED_DATA = {
    "line-active": dict(x=[1.6, 3.8, 6.5], y=[1.32, 1.74, 2.23]),
    # fourth hunt round (recorded, known_findings.json): the constrained fit returns a point that is no local optimum
    # (a) small-magnitude data, the constraint a + 1 >= 0 is inactive everywhere inside the bounds: a stays at its start 1
    "exp3-smallmag": dict(x=[float(v) for v in range(1, 16)], y=[0.002 - 0.00003 * v for v in range(1, 16)],
                          cons=lambda p: p[0] + 1.0),
    # (a2) fifth hunt round, the same mechanism on exact exp3 data of magnitude 0.004 .. 0.008 with the constraint a <= 1e6
    "exp3-smallmag2": dict(x=[0.5 + v for v in range(15)], y=[0.0026 + 0.00136 * math.exp(0.0997 * (0.5 + v)) for v in range(15)],
                           cons=lambda p: 1e6 - p[0]),
    # (b) no bounds, one linear constraint active at the optimum: a stage that hit the iteration limit is final
    "exp3-10pts-active": dict(x=[0.5737791871576916, 2.182786185234694, 3.4173209912196274, 5.138219107028386, 7.278075626925771,
                                 7.588736297720597, 8.40857427538906, 8.867360523679302, 9.556559088678954, 13.365524277982773],
                              y=[1.4345672737926574, 1.5654092516030045, 1.9083539253575927, 2.315089779026837, 3.269515199183198,
                                 2.9582950381953133, 3.0948914969820382, 3.6376538394504685, 3.600274977784251, 6.293655478869613],
                              cons=lambda p: float(np.dot([-0.3207816452422391, -0.30991679095796526, 0.5518606367365548],
                                                          np.asarray(p, dtype=float)) - 0.15046861822974916)),
    # (c) bounded curve_fit of a + b / (1 + c x) on data of magnitude 100 / 1000 ends on a pole of the shape
    "asym3-mag100": dict(x=[0.55143341, 1.07506997, 1.97943096, 2.16057808, 2.94837023, 3.42149463, 3.56564094, 6.21952321,
                            6.42394862, 6.94394156, 7.26773212, 10.01873601, 10.74795847, 11.37079187, 11.38881188,
                            11.41746559, 12.82145447, 13.50719995, 14.64482094, 14.81132631],
                         y=[100 * v for v in (1.22816207489, 1.2202639067, 1.10954893408, 1.14860680603, 1.02577155725,
                                              1.01503371738, 1.06235378795, 1.09066140667, 1.00898642768, 1.04257121636,
                                              1.00534952197, 1.12886925658, 1.05366419793, 1.02504207297, 1.0293728285,
                                              1.118522374, 0.99254896431, 1.02104183007, 0.918980424, 0.99726772269)]),
    # (d) conditioning values up to 325 (Hs in centimetres, directions in degrees): the error at the default start
    #     (1, 1, 1) is 1e282, trf stops at the first iterate with "xtol satisfied" and the start is returned as the fit
    "exp3-x325": dict(x=[25.0 + 50 * k for k in range(7)], y=[0.291 * math.exp(-0.00206 * (25.0 + 50 * k)) for k in range(7)]),
    "exp3-8pts": dict(x=[3.165178296821977, 4.95019434472089, 5.126942778720538, 7.206066184389611,
                         7.473320373909797, 7.616005795665915, 7.876765040064615, 7.910974208582914],
                      y=[2.23936033084433, 2.186679465146297, 2.1821759880921525, 2.152817559009799,
                         2.1513885617124244, 2.149873798803031, 2.1481318790244432, 2.1466633315562653]),
}


def fit_cases(ctx):
    rng = np.random.default_rng(ctx.seed + 7)
    reps = ctx.pick(3, 12)
    out = []
    exp3 = [sh for sh in shapes() if sh[0] == "exp3"][0]
    for ckind in ("inactive_dict", "inactive_list"):
        out.append(dict(shape=(exp3[0], exp3[1], (2.1236, 0.3261, -0.3304), exp3[3][0], False), weights="none", cons=ckind,
                        aslist=False, fixed="exp3-8pts", n=8, noise=0.0, seed=0))
    for ckind in ("inactive_dict", "inactive_list"):
        out.append(dict(shape=(exp3[0], exp3[1], (0.00176, 0.0, 1.0), [(0, None), (0, None), (0.5, 1.5)], False), weights="none",
                        cons=ckind, aslist=False, fixed="exp3-smallmag", n=15, noise=0.0, seed=0))
    out.append(dict(shape=(exp3[0], exp3[1], (0.0026, 0.00136, 0.0997), [(None, None), (0, None), (0, None)], False), weights="none",
                    cons="inactive_dict", aslist=False, fixed="exp3-smallmag2", n=15, noise=0.0, seed=0))
    out.append(dict(shape=(exp3[0], exp3[1], (-33.15, 33.85, 0.00984), None, False), weights="none", cons="active_list", aslist=False,
                    fixed="exp3-10pts-active", n=10, noise=0.0, seed=0))
    out.append(dict(shape=(exp3[0], exp3[1], (0.0, 0.291, -0.00206), exp3[3][0], False), weights="none", cons="none", aslist=False,
                    fixed="exp3-x325", n=7, noise=0.0, seed=0))
    asym = [sh for sh in shapes() if sh[0] == "asymdecrease3"][0]
    out.append(dict(shape=(asym[0], asym[1], (99.86, 44.07, 1.4112609), asym[3][0], False), weights="none", cons="none", aslist=False,
                    fixed="asym3-mag100", n=20, noise=0.0, seed=0))
    lin = [sh for sh in shapes() if sh[0] == "linear2"][0]
    for spelling in (0, 1, 2):
        for ckind in ("active_dict", "active_list"):
            out.append(dict(shape=(lin[0], lin[1], (0.71446375, 0.24272019), None, False), weights="none", cons=ckind, aslist=False,
                            fixed="line-active", spelling=spelling, n=3, noise=0.0, seed=spelling))
    # bounded (trf) fits of small-magnitude data (D87)
    for mag in (1e-2, 1e-3, 1e-4):
        for sh in shapes():
            if sh[0] not in ("linear2", "limited_growth2"):
                continue
            for bounds in sh[3]:
                if bounds is None or all(b == (None, None) for b in bounds):
                    continue
                for wkind in ("none", "x"):
                    for _ in range(2):
                        out.append(dict(shape=(sh[0], sh[1], sh[2], bounds, sh[0] == "linear2"), weights=wkind, cons="none", aslist=False,
                                        mag=mag if sh[0] == "linear2" else 1.0, ymag=mag,
                                        n=int(rng.integers(5, 12)), noise=0.01, seed=int(rng.integers(0, 2**31))))
    for sh in shapes():
        name, func, ptrue, blist, linear = sh
        for bounds in blist:
            for wkind in ("none", "y", "x", "y2"):
                for ckind in ("none", "inactive_dict", "inactive_list", "active_dict", "active_list"):
                    if ckind != "none" and bounds is None and name not in ("linear2", "poly3"):
                        continue
                    for _ in range(reps * (4 if name == "poly3wide" and ckind.startswith("inactive") else 1)):
                        out.append(dict(shape=(name, func, ptrue, bounds, linear), weights=wkind, cons=ckind,
                                        aslist=bool(wkind == "y2" or len(out) % 5 == 0),
                                        n=int(rng.integers(3 if len(ptrue) <= 3 else 5, 21)),
                                        noise=float(rng.choice([0.0, 0.01, 0.05])),
                                        seed=int(rng.integers(0, 2**31))))
    return out


def fit_key(c):
    return (f"fit shape={c['shape'][0]} bounds={c['shape'][3]} weights={c['weights']} cons={c['cons']} "
            f"n={c['n']} noise={c['noise']} seed={c['seed']}" + (" aslist" if c.get("aslist") else "")
            + (f" data={c['fixed']}" if c.get("fixed") else "") + (f" spelling={c['spelling']}" if "spelling" in c else "")
            + (f" mag={c['mag']}" if c.get("mag", 1.0) != 1.0 else ""))


def random_histories(ctx):
    rng = np.random.default_rng(ctx.seed + 13)
    out = []
    for _ in range(ctx.pick(200, 1500)):
        graph = list(GRAPHS)[int(rng.integers(0, len(GRAPHS)))]
        names = list(GRAPHS[graph])
        # random topological declaration order
        while True:
            decl = list(rng.permutation(names))
            if all(decl.index(c) < decl.index(f) for f in names for c in GRAPHS[graph][f]):
                break
        L = int(rng.integers(1, 8))
        calls = [(names[int(rng.integers(0, len(names)))], k + 1) for k in range(L)]
        out.append((graph, decl, calls))
    return out


def run(ctx):
    vc = import_virocon()
    ctx.rule = ("protocol: every behaviour TLC emits for 6 dependence graphs x all declaration orders x all fit-call "
                "orders x 2 rounds, plus seeded random call histories (repeats, partial rounds); distinct = (graph, "
                "declaration order, call sequence); non-trivial = at least one dependent function involved. "
                "fit quality: predefined + linear shapes x bounds kinds x weights x constraint kinds; distinct = case key")
    ctx.trusted = ["TLC evaluating spec/DepFitOps.tla", "numpy.linalg.lstsq as reference for linear shapes",
                   "harness objective = sum(w_i * (f(x_i)-y_i)^2) with w = weights(x, y) (the documented meaning of the weights callable)"]
    ctx.assumptions = ["local optimality is judged on a +-1e-2 relative stencil with tolerance 2e-6 of the objective scale; "
                       "global optimality of non-linear shapes is not claimed"]
    ctx.model_check("DepFit", ctx.pick("MC_DepFit_quick.cfg", "MC_DepFit_thorough.cfg"), must_cover=("Next", "NextRound"))
    ctx.model_check("DepFit", "MC_DepFit_mut.cfg", expect_violation="FittedAfterConditioners")
    ctx.model_check("DepFit", "MC_DepFit_mut2.cfg", expect_violation="NoPrematureFit")
    behs = ctx.generate("DepFit", "Gen_DepFit.cfg")
    recs, keys, cases = [], [], []
    rid = 0
    for b in behs:
        calls = [(h["f"], h["d"]) for h in b["hist"] if h["op"] == "fit"]
        for strict, lazy in ((False, False), (True, False), (False, True)):
            rid += 1
            recs.append(proto_record(vc, rid, b["graph"], b["decl"], calls, ctx.seed, strict, lazy))
            keys.append(f"proto graph={b['graph']} decl={','.join(b['decl'])} calls={' '.join(f'{f}{d}' for f, d in calls)}"
                        + (" strict" if strict else "") + (" lazy" if lazy else ""))
            cases.append(dict(kind="proto", graph=b["graph"], decl=b["decl"], calls=calls, strict=strict, lazy=lazy))
    for graph, decl, calls in random_histories(ctx):
        strict = bool(rid % 2)
        rid += 1
        recs.append(proto_record(vc, rid, graph, decl, calls, ctx.seed, strict))
        keys.append(f"proto graph={graph} decl={','.join(decl)} calls={' '.join(f'{f}{d}' for f, d in calls)}"
                    + (" strict" if strict else ""))
        cases.append(dict(kind="proto", graph=graph, decl=list(decl), calls=calls, strict=strict))
    nproto = len(recs)
    fc = fit_cases(ctx)
    for c in fc:
        rid += 1
        recs.append(fit_record(vc, rid, c))
        keys.append(fit_key(c))
        cases.append(dict(kind="fit", shape=c["shape"][0], bounds=c["shape"][3], weights=c["weights"], cons=c["cons"],
                          n=c["n"], noise=c["noise"], seed=c["seed"], aslist=c.get("aslist", False), fixed=c.get("fixed"), spelling=c.get("spelling", 0), mag=c.get("mag", 1.0)))
    failing = ctx.validate("Trace_C14", "Trace_C14.cfg", recs)
    for r, k, c in zip(recs, keys, cases):
        ctx.case(k, nontrivial=(r["kind"] == "fit" or any(GRAPHS[r["graph"]][e["f"]] or True for e in r["events"])))
        for clause in failing.get(r["id"], []):
            # a protocol violation is keyed by graph + clause (the history is in the replay file)
            ctx.violation(clause, k, f"record={ {x: r[x] for x in r if x not in ('id',)} }"[:1500], replay=c)
    ctx.sample({"protocol_record": recs[3]})
    ctx.sample({"fit_record": recs[nproto], "case": keys[nproto]})
    ctx.notes["protocol_behaviours_from_TLC"] = len(behs)
    ctx.notes["random_histories"] = nproto - len(behs)
    ctx.notes["fit_quality_cases"] = len(fc)
    log = (ctx.work / "tlc_Trace_C14_Trace_C14.log").read_text()
    ctx.notes["protocol_histories_conforming_to_DepFit_spec"] = log.count('<<"CONFORMANT"')
    # self-test of the binding: corrupt one recorded field and require rejection
    bad = dict(recs[1])
    bad["events"] = [dict(e) for e in bad["events"]]
    last = dict(bad["events"][-1])
    last["pdev"] = dict(last["pdev"], b=500000000)
    bad["events"][-1] = last
    bad["id"] = 1
    rej = ctx.validate("Trace_C14", "Trace_C14.cfg", [bad])
    if "FittedAfterConditioners" not in rej.get(1, []):
        raise Machinery("self-test: corrupted parameter deviation at the end of a round was not rejected")


def replay(ctx, case):
    vc = import_virocon()
    c = case["case"]
    if c["kind"] == "proto":
        r = proto_record(vc, 1, c["graph"], c["decl"], [tuple(x) for x in c["calls"]], ctx.seed, c.get("strict", False), c.get("lazy", False))
    else:
        sh = [s for s in shapes() if s[0] == c["shape"]][0]
        b = c["bounds"]
        b = None if b is None else [tuple(x) for x in b]
        r = fit_record(vc, 1, dict(shape=(sh[0], sh[1], sh[2], b, sh[4]), weights=c["weights"], cons=c["cons"], aslist=c.get("aslist", False), fixed=c.get("fixed"), spelling=c.get("spelling", 0), mag=c.get("mag", 1.0),
                                   n=c["n"], noise=c["noise"], seed=c["seed"]))
    failing = ctx.validate("Trace_C14", "Trace_C14.cfg", [r])
    ctx.case(case["key"])
    for clause in failing.get(1, []):
        ctx.violation(clause, case["key"], str(r)[:1500], replay=c)
