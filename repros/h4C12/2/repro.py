"""C12: GeneralizedGammaDistribution(f_m=m).fit(x) (MLE, default start) returns a NEGATIVE
shape c and a log-likelihood far below that of the generating parameters for data whose
mean is 0.07 .. 0.29 (inside the metocean range [0.05, 20]); the same data times 3 or 10 is
fitted correctly, so the shape estimate depends on the unit."""
import sys
import warnings
import numpy as np
import scipy.stats as sts
from virocon import GeneralizedGammaDistribution

warnings.simplefilter("ignore")


def loglik(x, m, c, lambda_):  # independent oracle (scipy supports c < 0 as well)
    return float(np.sum(sts.gengamma.logpdf(x, m, c, scale=1 / lambda_)))


violations = 0
for s, m, c, n, seed in [(0.05, 2.0, 1.5, 1000, 0), (0.07, 2.0, 1.5, 1000, 1), (0.05, 4.0, 0.8, 1000, 0),
                         (0.05, 3.0, 1.0, 100, 0), (0.1, 6.0, 2.0, 1000, 0), (0.1, 6.0, 2.0, 5000, 2)]:
    rng = np.random.default_rng(seed)
    x = s * rng.gamma(m, size=n) ** (1 / c)  # generalized gamma(m, c, lambda_=1/s)
    d = GeneralizedGammaDistribution(f_m=m)
    d.fit(x)
    ll_fit = loglik(x, d.m, d.c, d.lambda_)
    ll_true = loglik(x, m, c, 1 / s)
    k = 10.0
    dk = GeneralizedGammaDistribution(f_m=m)
    dk.fit(k * x)
    print(
        f"true m={m} c={c} lambda_={1 / s:.4g} n={n} seed={seed} mean(x)={x.mean():.3f}\n"
        f"   fit(x)    m={d.m} c={d.c:.4g} lambda_={d.lambda_:.4g}  LL={ll_fit:.1f}  LL(true)={ll_true:.1f}\n"
        f"   fit(10 x) m={dk.m} c={dk.c:.4g} lambda_={dk.lambda_:.4g}"
    )
    if not d.c > 0:
        print("   VIOLATION: fitted c is not admissible (c > 0)")
        violations += 1
    if ll_fit < ll_true - 1.0:
        print(f"   VIOLATION: fitted log-likelihood is {ll_true - ll_fit:.1f} below that of the generating parameters")
        violations += 1
    if abs(dk.c - d.c) > 0.2 * abs(dk.c):
        print("   VIOLATION: shape c changes with the unit of the data")
        violations += 1
sys.exit(1 if violations else 0)
