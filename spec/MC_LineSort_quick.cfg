SPECIFICATION Spec
CONSTANTS K = 4  NP = 6  Continue = TRUE  AnyStart = FALSE
CHECK_DEADLOCK FALSE
INVARIANT IsPermutation
INVARIANT NoDuplicates
INVARIANT StartsAtStart
INVARIANT PinnedReturnsStartComponent
INVARIANT ComponentsHaveThree
