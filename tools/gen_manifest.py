#!/usr/bin/env python3
"""Regenerates MANIFEST.json from the table below and validates it (run with python3-vt)."""
import json
import subprocess
from pathlib import Path

V = Path(__file__).resolve().parent.parent
HOOK_COMMITS = []   # filled below from git log (commits whose message starts with "hook:")

CHECKS = {
    # id: (category, technique, level text, level note, design_ref)
    "C10": ("model_checking",
            "TLC model checking of the slicing state machine + TLC trace validation of every enumerated execution",
            "TLC explores spec/Slicing.tla (Slice->DropSmall->CheckMin) for all data vectors up to length 3/4 over a lattice and all "
            "option combinations; the same lattice domain is executed on the real slicers and every execution is judged clause by "
            "clause (AtMostOne, ExactlyOne, Membership, MaxIncluded, MaskAligned, ReferenceRule, Bounds*, DropExactlySmall, "
            "ErrorIffTooFew) by TLC with the operators of spec/SlicingOps.tla. The property's quantifier is a finite lattice, so "
            "exhaustive enumeration is the right level.",
            "TLC; the projection of floats onto lattice quarter-units in harness/c10.py (checked on-lattice); values on an ideal edge "
            "may go to either neighbour for non-dyadic float widths; PointsPerIntervalSlicer only with len(data) >= n_points",
            "DESIGN.md §4 C10"),
}
CHECKS["C14"] = ("model_checking",
    "TLC model checking of the register/callback protocol (DepFit.tla), TLC-generated behaviours replayed on real DependenceFunction objects, trace validation through the spec's own FitCall operator; fit-quality records judged by TLC",
    "The dependency-order half is a protocol over a finite graph: TLC explores six dependence graphs x all declaration orders x all fit-call orders x 2-3 rounds "
    "(mutations norefit / subsetreversed must violate FittedAfterConditioners / NoPrematureFit), emits every behaviour, and each is executed on real objects with _fit wrapped; Trace_C14 replays the recorded history through "
    "DepFitOps!FitCall and compares internal fit sequence, _may_fit, |_fitted_conditioners| and freshness of the parameters (lstsq with the current conditioner "
    "parameters) after every call. Bounds/constraints/optimality are judged per executed fit (exploration-strength: sampled shapes, local optimality on a stencil).",
    "TLC; numpy.linalg.lstsq; weighted objective as documented, sum(w_i r_i^2); objectives beyond the fixed-point range compared as ratios; local (not global) optimality; tolerances stated in spec/Trace_C14.tla",
    "DESIGN.md §4 C14")
CHECKS["C04"] = ("model_checking",
    "TLC model checking of the per-ray search state machine (AndOrSearch.tla) + TLC trace validation of hook-level loop events and returned coordinates of real AndContour/OrContour runs",
    "The search is a small deterministic state machine over a monotone exceedance profile; TLC explores every threshold profile of a 5-6 point sample (mutation EmitNext "
    "must violate). Real contours are computed over seeded cases (mode, model, alpha=a/b, allowed_error=e/1000, deg_step, n, drawn/supplied/tied samples, OR theta ranges); "
    "the loop's hook events of every ray must be a behaviour of the search (branch taken, continue/exit decisions with the exact rational tolerance test, iteration cap, "
    "warning iff cap), the logged count is re-measured on the sample at the logged vector, returned points must be the rays' final vectors (OR: exactly those inside "
    "1.1*max, in order) and the closing sequence as documented.",
    "TLC; hook events (VIROCON_VERIF=1) bound to truth by recounting on the sample; exact ties of the tolerance test accept either decision; without hooks the check degrades "
    "to API-level clauses (says so in evidence)",
    "DESIGN.md §4 C04")
CHECKS["C05"] = ("model_checking",
    "TLC enumerates the complete (family, override subset, method, argument kind, passing style) product and emits it; every case is executed on the real classes and judged by TLC (coverage of the product asserted by TLC); tabulated cdf/pdf/icdf laws judged by TLC against mpmath closed forms of the documented formulas",
    "Parameter routing is a finite case analysis: TLC (ParamRouting.tla, scenario override) enumerates all 1632 cases for 10 families and the trace spec requires exactly that set to have been "
    "executed with bitwise-equal results (mutation configs must violate). The analytic half (Monotone, Range01, PdfNonNeg, PdfZeroOutsideSupport, round trips, PdfIsDerivative, "
    "MatchesDocumentedFormula, ArrayLikeKindsAgree, NormFitMoments) is exploration-strength: TLC-chosen parameter classes concretised with seeded values, tables judged in TLA+ (DistLawsOps.tla).",
    "TLC; harness/reference.py (mpmath 30-digit closed forms written from the documented formulas; von Mises cdf by quadrature); parameter vectors are sampled, not exhausted; tolerances in spec/DistLawsOps.tla",
    "DESIGN.md §4 C05")
CHECKS["C08"] = ("model_checking",
    "TLC enumerates every (family, fixed/dependent partition, chain kind, call shape, method) case (ParamRouting.tla scenario cond), each executed on real ConditionalDistribution objects and judged by TLC with coverage asserted; ParamRoutingBounds.tla: bounds of a dependence function are fit-time information and do not influence evaluation (deviation ClipInit must violate)",
    "Finite case analysis over families x non-empty dependent sets x plain/default/chained dependence callables x scalar/vector call shapes x pdf/cdf/icdf/draw_sample: 3712 cases all executed; "
    "the conditional object is compared with a fresh template constructed with the resolved values element by element (CondEqualsTemplateAtValues, VectorisedEqualsPointwise, "
    "ChainedSameGiven, ResultShape); three mutation configs must violate.",
    "TLC; comparison is bitwise/1e-13 relative on the same scipy evaluations; sampling compared under equal seeds",
    "DESIGN.md §4 C08")
CHECKS["C11"] = ("model_checking",
    "TLC enumerates the life cycle NewDist -> Eval -> FitDist -> re-fit for every (family, fixed subset, fit method, data kind) with the specified outcome table; every case executed and judged by TLC with coverage asserted",
    "Finite product of families x proper fixed subsets x {mle, lsq, wlsq} x {own, other} data: 348 life cycles + 48 conditional cases executed on the real classes; TLC requires the specified "
    "outcome (fit succeeds / NotImplementedError), FixedAtConstruction, EvalUsesFixed, FixedStable (1e-12 relative, action property in the model), FreeEstimated, FixedSameForAllGiven; "
    "mutation configs (ctor ignores f_, bad fit keyword, overwrite) must violate.",
    "TLC; the Supports(fam, method, F) table is transcribed from the documented behaviour (lsq only for exponentiated Weibull with F in {{}, {delta}})",
    "DESIGN.md §4 C11")
CHECKS["C12"] = ("exploration",
    "TLC explores the fit life cycle state machine (FitLaws.tla) and emits (family, parameter class, n, scale factor, start kind) cases; each is executed (fit, scaled fit, re-fit) and the measured log-likelihoods / parameters are judged by TLC (Trace_C12.tla); FitLawsSmall.tla emits small-scale 3-parameter Weibull cases started at / near the generating parameters",
    "Likelihood optimality cannot be established by a model: the state machine start -> fit(d) -> fit(c*d) -> re-fit is small (model checked with four mutation configs), the claims "
    "NoLikelihoodLoss, AtLeastGenerating (MomentsMatch for the norm-fit log-normal), Admissible, ScaleEquivariant (per-family ScaleMap table in the spec) are judged on seeded samples from "
    "regular parameter classes of nine families; 354 (quick) / 2934 (thorough) life cycles.",
    "TLC as judge; log-likelihood measured with the object's own pdf; optimiser tolerances (LL 0.05 absolute, parameters 2e-3 relative or equal likelihood level) stated in spec/FitLawsOps.tla; "
    "known finding: 3-parameter Weibull from the default start",
    "DESIGN.md §4 C12")
CHECKS["C13"] = ("model_checking",
    "TLC model checks the decision table and the exact discrete pipeline (stable sort, plotting positions, zero removal after ranking, co-sorting of weights) for all small vectors; all those vectors are executed on the real estimator and judged by TLC; regression laws judged by TLC against numpy.linalg.lstsq",
    "The discrete part of the estimator is finite and checked exhaustively for all vectors of length <= 4 over {0..3} with weight vectors over {1,2} both in the model (four mutation configs must "
    "violate) and on the real code (recording wrapper on _estimate_alpha_beta). NormalEquations, WeightScaleInvariant, KeywordEqualsArray, NoneEqualsOnes, ZeroIgnored, OrderInvariant, "
    "DeltaLocalMin are exploration-strength laws on seeded samples of six classes incl. zeros, ties and bounded data.",
    "TLC; numpy.linalg.lstsq on sqrt(w)-scaled rows as independent regression; delta local minimality on a +-1e-3 stencil within fmin's xtol",
    "DESIGN.md §4 C13")
CHECKS["C18"] = ("model_checking",
    "TLC enumerates every single malformation at every position of valid 1-4 dimensional descriptions and every pair (Validation.tla), emits them, each is built and run on the real code as far as its stage, and TLC compares the observed stage/exception with WellFormed/Stage and asserts coverage of the enumerated set",
    "The quantifier is a finite catalogue of malformations x positions x pairs: 4403 (quick) / 21720 (thorough) cases, all executed; RejectedNotComputed, AcceptedWhenWellFormed, DocumentedClass; "
    "twelve named deviations (no hierarchy check, None-valued keys accepted, None / number entries of `parameters` accepted, ...) must violate; the TooFew malformation also uses the model's default slicer after a sibling model relaxed its own.",
    "TLC; the catalogue of malformations is transcribed from the property statement; carrier families rotate in quick",
    "DESIGN.md §4 C18")
CHECKS["C03"] = ("model_checking",
    "TLC model checks the direction table / closing / intersection indexing of the polygon construction (DirectSampling.tla) for all 19 admissible angular steps; TLC-enumerated (deg_step, sample class, alpha class) cases are executed and every polygon edge is judged by TLC (Trace_C03.tla)",
    "The combinatorial half (which tangent lines are intersected, closure, full circle once) is a finite structure checked exhaustively for every admissible deg_step with named deviations "
    "(N+1 angles closed with angles[0] = the repaired defect, index shift) that must violate. The numeric half is judged per edge of 532 (quick) / 4788 (thorough) real contours: StepExact, "
    "FullCircleOnce, EdgeOnTangent (offset = hand-written order-statistic interpolation of the projected sample), FractionBeyond (exact rational counts), DefaultN, SampleKept, FiniteVertices.",
    "TLC; the reference quantile is written out in the driver (sorted projections, index (n-1)p, linear interpolation); edges shorter than 1e-4 of the polygon are judged through their neighbours; collinear samples not judged",
    "DESIGN.md §4 C03")
CHECKS["C17"] = ("model_checking",
    "TLC model checks Intersect.tla / DesignCond.tla on integer lattices (all small polyline pairs / star-shaped polygons), emits every case, each is run through the real intersection / calculate_design_conditions and compared with the exact rational expectation by TLC; random float contours judged by TLC",
    "The geometric statements are exact on an integer lattice: crossings by signs of integer cross products, crossing points as rationals compared by cross-multiplication. 47k lattice polyline "
    "pairs + 10k lattice-polygon calls (quick; 517k + 70k thorough) are all executed on the real code; IFORM/ISORM/direct-sampling contours of random models and non-convex stars with steps "
    "None/int/lists (inside, outside, at vertex abscissae), both swap_axis values: Design, DesignAtVertex, TopOrdinate, TopAtVertex, DefaultSpan, RequestedAbscissa, Omission, OnContour, SwapIsExchange, NoException.",
    "TLC; general position for the intersection routine (strict/closed parameter range only distinguishable on exact lattice inputs); nearly vertical edges accept any point of the edge",
    "DESIGN.md §4 C17")
CHECKS["C20"] = ("model_checking",
    "TLC enumerates export / plot configurations (Export.tla), each is executed (files written and read back, matplotlib artists inspected) and compared with the specified text / polyline / scatter by TLC (Trace_C20.tla)",
    "File text, path rule, header, rows and parsed values, the closed polyline, swap, sample and design-condition scatter and the dataset reader are finite-format statements: 880 configurations "
    "(contour size, 2-D/3-D, semantics alphabets incl. ';' and non-ASCII, paths with/without extension and dotted directories, swap, design_conditions None/True/array) all executed; named "
    "deviations (%1.5f, missing closing point, always .txt) must violate in the model. The other plot functions are compared with the model's own pdf / dependence values / per-interval estimates.",
    "TLC; matplotlib Agg backend; recording wrappers on model.marginal_icdf and Axes.contour for the plot functions",
    "DESIGN.md §4 C20")
CHECKS["C09"] = ("model_checking",
    "TLC model checks GlobalHierarchicalModel.fit as a state machine over abstract rows (JointFit.tla: all row orders, structures, small value vectors); real model fits observed through recording wrappers are projected to the slicing lattice and judged by TLC (Trace_C09.tla)",
    "Order invariance and 'each interval gets exactly its own rows' are statements about sets of rows: the model shows the design has them for every permutation (deviation 'masks in sorted space' "
    "must violate). Ten real structures (2-D/3-D chain and fan, three slicers with option variants, MLE and WLSQ, partial fit descriptions) are fitted to data with tied, rounded conditioning values, "
    "to the row-permuted data, and re-fitted after another data set; TLC judges IntervalOwnData and KeptExactly with the SlicingOps operators, FitDataAreMaskedRows, EstimateIsStandAloneFit "
    "(bitwise), DepFitInputsX/Y, OptionsPerDim (call sequence of Distribution.fit), PermutationSameIntervals/Estimates/Dependence, RefitSameIntervals/Estimates, RefitDependenceFitsPairs; per-observation weight arrays travel with their rows (IntervalOwnWeights in the model, '@array' structures on the real code); a chained dependence structure (dependent declared before its conditioner).",
    "TLC; recording wrappers around IntervalSlicer.slice_, Distribution.fit, DependenceFunction.fit (masks bound to the fitted data by FitDataAreMaskedRows); MLE estimates of permuted data "
    "compared at 2e-3 (Nelder-Mead), least squares at 1e-6; known finding: PointsPerIntervalSlicer with tied conditioning values",
    "DESIGN.md §4 C09")
CHECKS["C01"] = ("model_checking",
    "TLC model checks the inverse-Rosenblatt chain (Rosenblatt.tla) for every conditional_on structure up to 4 dimensions over abstract monotone quantile maps; TLC-chosen configurations are built from the shipped families, IFORM/ISORM contours computed and every point mapped back and judged by TLC (Trace_C01.tla); RosenblattHist.tla: one contour point computed twice on one object with a direct write to an inner object in between (deviation stale memo must violate), its histories replayed on real models",
    "The structural half (which column conditions which variable, order of computation) is finite: all structures for n=2,3,4 incl. inadmissible ones, lattice quantile maps, mutation 'reads the wrong "
    "column' must violate InverseRosenblatt. The numeric half is judged per contour point of real models (371 models quick / several thousand thorough): RadiusIsBeta, BetaIsRef (independent "
    "normal / chi-square quantiles), Count, DirectionsDistinct, AnglesEquallySpaced, MaxIsMarginalQuantile and ProbeColumn (families whose location identifies the conditioning column).",
    "TLC; the map back uses the model's own distributions' cdf with the declared structure in the driver's loop; Phi^-1 from statistics.NormalDist; chi-square quantile by bisection on closed forms; tolerances in spec/RosenblattOps.tla",
    "DESIGN.md §4 C01")
CHECKS["C06"] = ("model_checking",
    "TLC model checks factorisation, orthant sums, marginal sums and the nquad argument re-ordering on a lattice model (Rosenblatt.tla, pdf mode); real models' pdf / cdf / marginal_* are compared with independently composed products and 1-D quadratures and judged by TLC (Trace_C06.tla)",
    "Factorises / ReorderIsInverse / MarginalIsSumOverOthers are exact finite statements on the lattice model for all structures n<=3 (wrong-column and dropped-argsort mutations must violate). "
    "On real models: pdf vs the driver's product of the distributions' pdfs for 8 input kinds (KindsAgree incl. integer input), NonNeg, cdf / marginal_pdf / marginal_cdf vs 1-D quadrature over "
    "conditional cdfs (exploration-strength, few points: nquad costs seconds to minutes per point), total mass, marginal_cdf(marginal_icdf(p)) within the DKW radius.",
    "TLC; scipy.integrate.quad as independent 1-D route; random models for integrals restricted to smooth bounded densities (stated); known finding: quadrature over (0,inf) loses narrow far mass",
    "DESIGN.md §4 C06")
CHECKS["C07"] = ("model_checking",
    "TLC model checks the RNG stream model (RngStreams.tla) and the row-wise sampling chain (Rosenblatt.tla, sample mode); TLC-emitted draw histories are replayed on real distributions/models and the equality pattern of sample digests is judged by TLC; PIT / DKW clauses judged by TLC (Trace_C07.tla)",
    "Reproducibility is a statement about histories of draws with random_state in {None, seed a, seed b, generator}: all histories up to length 3 are enumerated (mutations seed ignored / generator "
    "not advanced must violate) and replayed; bit-for-bit equality is judged on digest numbers. Distribution agreement is exploration-strength: PIT values with the declared structure, KS "
    "distance overall and within 8 bins of the conditioning value, DKW inequality at 1e-12 in integer arithmetic, shapes and sizes 1..1e6.",
    "TLC; DKW bound; von Mises compared modulo 2 pi with kappa <= 4",
    "DESIGN.md §4 C07")
CHECKS["C19"] = ("model_checking",
    "TLC model checks the ownership rules over all histories of new/fit/eval on two models (Purity.tla, three deviations must violate), emits the histories; a seeded subset is replayed on models from the six predefined getters with full object-graph fingerprints after every operation, judged by TLC (Trace_C19.tla); TLC-simulated whole-API sessions (Virocon.tla: results are functions of the mutator history only) are replayed in fresh processes against canonical fresh-model runs and judged by TLC (Trace_Virocon.tla)",
    "Purity and absence of shared state are statements about histories: every history up to length 5-6 over two models is explored against the rules (shared dependence function, fit writes the "
    "template, caching evaluation must violate). 60 (quick) / 700 (thorough) emitted histories are executed with 15 evaluation kinds; (incl. a repeat leg: every kind twice in a row); after each operation every mutable object reachable from "
    "every model and every caller array is fingerprinted by bit pattern: EvalIsPure, InputsUntouched, FitIsLocal, TemplateUntouched, FitWritesOnlyFittedState, Repeatable, FreshGraphsDisjoint. Growth module Virocon.tla (DESIGN 9.5): sessions of 12 operations over construct / fit / direct writes / evaluations / six contour classes / design conditions, save, plot / TransformedModel wrapper, model checked for short sessions with four named deviations that must violate, 24 (quick) / 240 (thorough) simulated sessions executed in a fresh process each and compared bit for bit with the same operation on a fresh model that saw only the mutators of its basis (Virocon.ResultIsFunctionOfBasis, SnapshotStable, OnlyMutatorsMutate).",
    "TLC; the fingerprint walk (plain functions treated as immutable; TransformedModel._sample cache excluded); the global numpy RNG is seeded DIFFERENTLY before every evaluation whose inputs fix the result (same seed only for the Monte-Carlo entry points without random_state); caller arrays alternately row- and column-major",
    "DESIGN.md §4 C19")
CHECKS["C16"] = ("model_checking",
    "TLC model checks the rejection sampler's support search (SupportSearch.tla), the life cycle of the cached sample (SampleCache.tla, histories replayed on the real class) and the random-number threading of a transformed IFORM computation (Transformed.tla); measured round trips, Jacobians, push-forward densities, samples, Monte-Carlo conditionals and transformed IFORM contours are judged by TLC (Trace_C16.tla, DKW in integer arithmetic)",
    "Two parts of the property are state-machine statements: 'without truncating tails' (fine-lattice model of the grid search: the rule 'first grid value above the threshold' = the code before D58 and "
    "profiles scaled below the absolute threshold = the known finding must violate NoTailTruncation; the current step-back rule and the relative-threshold design hold) and 'reproduced exactly when random_state is set' (stream model; deviation 'marginal draws from the global stream' must "
    "violate). The analytic / Monte-Carlo laws are exploration-strength: transformation pairs on a 14x14 (40x40) log lattice over (1e-3,1e2), Windmeier / non-zero EW models fitted to dataset A "
    "and seeded perturbations: RoundTrip, JacobianIsDet, PushForward, MassOne, CdfMatchesEmpirical, SamplesAreInverseImages, conditional sample/cdf/icdf of Tz given Hs against the exact law "
    "at Hs-quantiles 0.5...0.9999 and for narrow conditionals at bulk quantiles, transformed IFORM points against exact cdf values within the DKW radius, Reproducible, SeedMatters.",
    "TLC; exact conditional law from the base model's conditional steepness distribution; central differences; Simpson rule; hook event cond_sample_support; known finding: tail truncation at extreme conditioning values",
    "DESIGN.md §4 C16")
CHECKS["C02"] = ("model_checking",
    "TLC model checks the highest-density selection (HDC.tla: stable descending order with reverse-index ties, largest prefix with cumulative sum <= limit, warn path) for all small cell arrays and limits; the enumerated (P, L) domain is executed on the real cumsum_biggest_until; real contours are judged by TLC (Trace_C02.tla) against independently recomputed cell probabilities",
    "The selection with ties, the <=, the warn path and the threshold are finite case analysis: all P over 5 cells x all limits (quick; 7 cells / 2x4 grids thorough) are model checked (Strict, Close, NaiveEq must "
    "violate) and 10 496 (81 089) of these cases are run on the real static method as dyadic floats with limits exactly on / just above / just below attainable sums. 61 + 35 near-limit contours "
    "(962 + 147) over the shipped families and all conditional_on structures: Content, Tight, Densest, Threshold, FmIsDensity, Sandwich, WarnIff (alpha chosen at 1 - T(1 +- eps), eps 1e-12..1e-3), "
    "LimitIsOneMinusAlpha, CellProbIsCdfDifference (explicit loops over the model's cdfs, a different code path).",
    "TLC; cell probabilities as two-limb naturals at scale 1e18 (sums saturate at 2e18); float summation slack as derived in Trace_C02.tla; grids whose densest cell alone exceeds 1-alpha raise IndexError and are skipped (counted)",
    "DESIGN.md §4 C02")
CHECKS["C15"] = ("model_checking",
    "TLC model checks boundary extraction (region minus erosion = cells with a neighbour outside the region or the grid, 3^n-1 neighbourhood, labelling) for all masks on small 2-D/3-D grids and the 2-nearest-neighbour line sorter on lattice point sets (LineSort.tla); real contours and sorter calls are judged by TLC (Trace_C15.tla)",
    "Boundary = definition vs erosion, components and the DFS line sorter are finite combinatorial objects: all masks on 3x3, 3x4, 2x2x2 (4x4, 3x2x2 thorough) and all 6-point subsets of a 4x4 lattice "
    "(7 points / 5x5 thorough) are explored; Cross (4-neighbourhood) and Continue = FALSE (the repaired sorter defect) must violate. 63 (616) real contours incl. anisotropic deltas, multi-set "
    "results and 1-2 cell regions: CoordsAreCellCentres, CoordsAreBoundary (Boundary computed in TLA+ from the recorded region mask), EachOnce, SetsDoNotMixRegions, OneSetPerBoundaryPiece, "
    "SingleIs2DArray, OrderIsLineSorter; 95 (815) sorter calls: IsPermutation (bag equality), SorterOutputShape, InputNotMutated.",
    "TLC; the region mask is captured by wrapping the public static method cumsum_biggest_until; FastIsDef model-checks that the large-grid operators of the trace equal the definitions",
    "DESIGN.md §4 C15")

NOT_YET = {}


def main():
    props = [json.loads(l) for l in (V / "properties.jsonl").read_text().splitlines() if l.strip()]
    try:
        log = subprocess.run(["git", "-C", "/repo", "log", "--format=%H %s"], capture_output=True, text=True).stdout
        hooks = [l.split()[0] for l in log.splitlines() if l.split(" ", 1)[1].startswith("hook:")]
    except Exception:
        hooks = []
    na_file = V / "tools" / "not_applicable.json"
    na = json.loads(na_file.read_text()) if na_file.exists() else {}
    checks = []
    for p in props:
        pid = p["id"]
        if pid in CHECKS:
            cat, tech, text, note, ref = CHECKS[pid]
            checks.append({
                "property_id": pid,
                "quick_cmd": f"./check {pid} --tier quick",
                "thorough_cmd": f"./check {pid} --tier thorough",
                "evidence_file": f"/verif/evidence/{pid}.json",
                "replay_cmd_template": f"./check {pid} --replay {{path}}",
                "engine": "tlc",
                "level_claimed": {"category": cat, "text": text, "design_ref": ref},
                "level_note": note,
                "technique": tech,
            })
    m = {
        "version": 1,
        "setup_cmd": "./setup.sh",
        "hooks": {
            "guard": "VIROCON_VERIF",
            "enable": "checks run /venv/bin/python with PYTHONPATH=/repo (editable install) and VIROCON_VERIF=1; pure Python, nothing to build",
            "baseline_off_cmd": "cd /repo && env -u VIROCON_VERIF /venv/bin/python -m pytest -ra -q -p no:cacheprovider --timeout=900 --continue-on-collection-errors",
            "source_commits": hooks,
            "add_only": True,
        },
        "engines": [
            {"name": "tlc", "path": "/verif/spec", "serves_properties": sorted(CHECKS),
             "kind_free_text": "explicit TLA+ specification (spec/*.tla) checked with TLC 1.8: exhaustive small-scope model checking, "
                               "batch trace validation of recorded executions of the real code (ndjson -> Trace_*.tla), and replay of "
                               "TLC-generated behaviours/cases into the real code; driven by harness/*.py"},
        ],
        "checks": checks,
        "not_applicable": [{"property_id": p["id"], "reason": na.get(p["id"], "check not built yet in this round (work in progress)")}
                           for p in props if p["id"] not in CHECKS],
        "notes": "Every check: ./check <ID> [--tier quick|thorough]; exit 0 ok / 1 VIOLATION / 2 machinery failure. "
                 "Known findings: /verif/known_findings.json. Seeded changes and which check catches which: DESIGN.md §9 and /verif/seeded/.",
    }
    (V / "MANIFEST.json").write_text(json.dumps(m, indent=1) + "\n")
    try:
        import jsonschema
        jsonschema.validate(m, json.load(open("/root/.vp/MANIFEST.schema.json")))
        print("MANIFEST.json valid;", len(checks), "checks,", len(m["not_applicable"]), "not_applicable")
    except ImportError:
        print("jsonschema not importable; not validated")


if __name__ == "__main__":
    main()
