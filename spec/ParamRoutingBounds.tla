-------------------------- MODULE ParamRoutingBounds --------------------------
(* C08: a dependence function declared with the option bounds= and used in a conditional       *)
(* distribution.  Life cycle of one case of ParamRoutingOps!BoundsCases:                         *)
(*   Declare        DependenceFunction(callable, bounds=...): the coefficients are the defaults   *)
(*                  declared by the callable (1 where none is declared)                           *)
(*   Eval(g)        the conditional distribution is evaluated at conditioning value g             *)
(*   Fit            the function(s) are fitted: the coefficients become estimates, which lie      *)
(*                  inside the bounds (the only place where the bounds act)                       *)
(* The value of a level at g is the token <<coefficients of the level, g>>; a chained function    *)
(* has two levels, both evaluated at the same g.  BoundsDoNotInfluenceEvaluation: before a fit    *)
(* the value is the callable's value with its DECLARED DEFAULTS at g, whatever the bounds; after   *)
(* the fit it is the value with the estimates.  ClipInit = TRUE models a constructor that moves    *)
(* the start values onto the nearest bound (a feasible start for the fit), which must violate it   *)
(* for every kind with a default outside its bounds.                                              *)
EXTENDS ParamRoutingOps, TLC, Json

CONSTANTS ClipInit
VARIABLES cs, pc, coef, nev, okv

vars == <<cs, pc, coef, nev, okv>>
Kind == cs[2]
Levels == IF cs[3] = "chained" THEN {1, 2} ELSE {1}
All(tok) == [lev \in Levels |-> [p \in BoundsCoefs |-> tok]]

RECURSIVE ValueAt(_, _, _)
ValueAt(cf, lev, g) == <<cf[lev], g>> \o (IF lev + 1 \in Levels THEN ValueAt(cf, lev + 1, g) ELSE <<>>)

Init == /\ cs \in BoundsCases /\ pc = "new" /\ nev = 0 /\ okv = TRUE
        /\ coef = <<>>

Declare ==
    /\ pc = "new"
    /\ coef' = [lev \in Levels |-> [p \in BoundsCoefs |->
                   IF ClipInit /\ p \in BoundsOutside(Kind) THEN "bound" ELSE "default"]]
    /\ pc' = "declared"
    /\ UNCHANGED <<cs, nev, okv>>

Eval(g) ==
    /\ pc \in {"declared", "fitted"} /\ nev < 2
    /\ okv' = (okv /\ ValueAt(coef, 1, g) = ValueAt(All(IF pc = "declared" THEN "default" ELSE "estimate"), 1, g))
    /\ nev' = nev + 1
    /\ UNCHANGED <<cs, pc, coef>>

Fit ==
    /\ pc = "declared"
    /\ coef' = All("estimate")
    /\ pc' = "fitted"
    /\ UNCHANGED <<cs, nev, okv>>

Next == Declare \/ Fit \/ \E g \in {1, 2} : Eval(g)
Spec == Init /\ [][Next]_vars

BoundsDoNotInfluenceEvaluation == okv
Emit == pc = "new" => PrintT(<<"BEH", ToJson([fam |-> cs[1], bkind |-> cs[2], chain |-> cs[3],
                                                shape |-> cs[4], method |-> cs[5]])>>)
=============================================================================
