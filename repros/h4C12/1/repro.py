"""C12: 3-parameter Weibull MLE from the default start values loses likelihood
against the generating parameters and is not scale-equivariant for data of
scale 0.06 .. 0.1 (inside the claimed range [0.05, 20]), location exactly 0
and shape 1.5 .. 2.5 (regular: not 'location far from 0', not 'shape <= 1.2')."""
import sys
import warnings
import numpy as np
import scipy.stats as sts
from virocon import WeibullDistribution

warnings.simplefilter("ignore")


def loglik(x, alpha, beta, gamma):
    # independent oracle: scipy's log density of weibull_min
    return float(np.sum(sts.weibull_min.logpdf(x, beta, loc=gamma, scale=alpha)))


violations = 0
for alpha, beta, n, seed in [(0.06, 2.0, 100, 1), (0.06, 2.0, 1000, 1), (0.08, 2.0, 300, 0), (0.08, 2.5, 5000, 6), (0.1, 1.5, 1000, 0), (0.1, 2.0, 5000, 6), (0.1, 2.5, 5000, 10)]:
    rng = np.random.default_rng(seed)
    x = alpha * rng.weibull(beta, n)  # Weibull(alpha, beta), location 0
    d = WeibullDistribution()  # default start values
    d.fit(x)  # method="mle"
    ll_fit = loglik(x, d.alpha, d.beta, d.gamma)
    ll_true = loglik(x, alpha, beta, 0.0)
    c = 10.0  # scaled data has scale 0.6 .. 1: still within [0.05, 20]
    d10 = WeibullDistribution()
    d10.fit(c * x)
    print(
        f"true alpha={alpha} beta={beta} gamma=0 n={n} seed={seed} median(x)={np.median(x):.3f}\n"
        f"   fit(x)     alpha={d.alpha:.4g} beta={d.beta:.4g} gamma={d.gamma:.4g}  LL={ll_fit:.2f}  LL(true)={ll_true:.2f}\n"
        f"   fit(10 x)  alpha={d10.alpha:.4g} beta={d10.beta:.4g} gamma={d10.gamma:.4g}"
    )
    if ll_fit < ll_true - 1.0:
        print(f"   VIOLATION: fitted log-likelihood is {ll_true - ll_fit:.1f} below that of the generating parameters")
        violations += 1
    if abs(d10.beta - d.beta) > 0.2 * d10.beta or abs(d10.alpha - c * d.alpha) > 0.2 * d10.alpha:
        print("   VIOLATION: not scale-equivariant (shape and alpha / c change with the unit)")
        violations += 1
sys.exit(1 if violations else 0)
