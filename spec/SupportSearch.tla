---------------------------- MODULE SupportSearch ----------------------------
(* The support search of MultivariateModel.conditional_sample (rejection sampler).       *)
(*                                                                                      *)
(* x_max is tried on the grid 100 * 0.7^c (coarse position c = 0..KMax) until the JOINT  *)
(* density there reaches an absolute threshold (1e-7).  The density profile along the    *)
(* free coordinate lives on a finer lattice (Sub fine positions per grid step; a larger   *)
(* fine index is a smaller x): peak Peak at fine position Mode, falling by 2^Steep per     *)
(* fine position on both sides, so that a steep profile can lie between two grid values.  *)
(*                                                                                      *)
(* Rule = "first_above"  the code up to D58: x_max = the first grid value whose density   *)
(*                       reaches the threshold.  That value lies INSIDE the support; the   *)
(*                       mass between it and the previous grid value is cut off, and a     *)
(*                       profile between two grid values is stepped over (x_max = floor).  *)
(* Rule = "step_back"    the code from D58 to D76: x_max = the grid value tried before it;  *)
(*                       if no grid value reaches the threshold the fine lattice is scanned *)
(*                       (np.geomspace in the code).  It still stops at the FIRST part of   *)
(*                       the density it meets: an upper mode of a bimodal profile that lies *)
(*                       between two grid values is stepped over.                           *)
(* Rule = "dense"        the code since D76: the fine lattice is always scanned and x_max   *)
(*                       is one grid step above the largest x that reaches the threshold.   *)
(* Relative = FALSE      the threshold is absolute (the code up to D77): an extreme          *)
(*                       conditioning value scales the whole profile down, and below the     *)
(*                       threshold nothing is found (the former known finding D15).          *)
(* Relative = TRUE       the code since D77: the threshold is at most Peak / 1024.           *)
(* Profiles are unimodal or bimodal (Second > 0: a second peak of the same height Gap fine   *)
(* positions towards larger x).                                                             *)
EXTENDS Integers, Sequences, FiniteSets, Fix

CONSTANTS KMax, Sub, Peaks, Steeps, Thr, Rule, Relative, TailPermille, Gaps

VARIABLES g, c, xm, pc
vars == <<g, c, xm, pc>>

FMax == KMax * Sub
Pow2(n) == 2 ^ n
Uni(peak, mode, steep, f) == IF steep * Abs(f - mode) > 30 THEN 0 ELSE peak \div Pow2(steep * Abs(f - mode))
(* gap = 0: unimodal; gap > 0: a second peak gap fine positions towards larger x (smaller index) *)
Profile(peak, mode, steep, gap) ==
    [f \in 0..FMax |-> IF gap = 0 THEN Uni(peak, mode, steep, f)
                        ELSE Max2(Uni(peak, mode, steep, f), Uni(peak, mode - gap, steep, f))]
PeakOf == g[CHOOSE j \in 0..FMax : \A i \in 0..FMax : g[i] <= g[j]]
RelThr == (PeakOf \div 1024) + 1
EffThr == IF Relative THEN (IF RelThr < Thr THEN RelThr ELSE Thr) ELSE Thr

Init == /\ \E peak \in Peaks, mode \in (2 * Sub)..(FMax - Sub), steep \in Steeps, gap \in Gaps :
              mode - gap >= Sub /\ g = Profile(peak, mode, steep, gap)
        /\ c = 0 /\ xm = -1 /\ pc = "search"

At(k) == g[k * Sub]
InSupport == {f \in 0..FMax : g[f] >= EffThr}
MinOf(S) == CHOOSE x \in S : \A y \in S : x <= y
Max0(a) == IF a < 0 THEN 0 ELSE a

Dense == /\ pc = "search" /\ Rule = "dense"
         /\ xm' = IF InSupport # {} THEN Max0(MinOf(InSupport) - Sub) ELSE FMax
         /\ pc' = "sample" /\ UNCHANGED <<g, c>>
Shrink == /\ pc = "search" /\ Rule # "dense" /\ At(c) < EffThr /\ c < KMax
          /\ c' = c + 1 /\ UNCHANGED <<g, xm, pc>>
Stop == /\ pc = "search" /\ Rule # "dense" /\ At(c) >= EffThr
        /\ xm' = IF Rule = "step_back" /\ c > 0 THEN (c - 1) * Sub ELSE c * Sub
        /\ pc' = "sample" /\ UNCHANGED <<g, c>>
Floor == /\ pc = "search" /\ Rule # "dense" /\ At(c) < EffThr /\ c = KMax
         /\ xm' = IF Rule = "step_back" /\ InSupport # {} THEN Max0(MinOf(InSupport) - Sub) ELSE FMax
         /\ pc' = "sample" /\ UNCHANGED <<g, c>>
Next == Dense \/ Shrink \/ Stop \/ Floor
Spec == Init /\ [][Next]_vars

RECURSIVE Mass(_)
Mass(S) == IF S = {} THEN 0 ELSE LET j == CHOOSE x \in S : TRUE IN g[j] + Mass(S \ {j})
Total == Mass(0..FMax)
Beyond == Mass({f \in 0..FMax : f < xm})       \* fine positions with larger x than x_max are cut off

(* what the search guarantees about the grid values (basis of the conformance report in Trace_C16) *)
StopRule == pc = "sample" /\ xm # FMax /\ Rule \in {"step_back", "dense"} =>
               \/ (xm = 0 /\ (g[0] >= EffThr \/ c = 1 \/ c = KMax \/ Rule = "dense"))
               \/ g[xm] < EffThr
(* since D76 nothing that reaches the threshold lies beyond x_max *)
NothingBeyond == pc = "sample" /\ Rule = "dense" /\ xm # FMax => \A f \in 0..FMax : f < xm => g[f] < EffThr
NoTailTruncation == pc = "sample" => Beyond * 1000 <= TailPermille * Total
=============================================================================
