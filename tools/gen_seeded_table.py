#!/usr/bin/env python3
"""Regenerates the seeded-changes table of DESIGN.md (between the SEEDED-TABLE markers) from seeded/*/meta.json."""
import glob, json, os, re
V = os.path.dirname(os.path.dirname(os.path.abspath(__file__)))
NOTES = json.load(open(os.path.join(V, "tools", "seeded_notes.json")))
rows = []
for d in sorted(glob.glob(os.path.join(V, "seeded", "*"))):
    sid = os.path.basename(d)
    m = json.load(open(os.path.join(d, "meta.json")))
    c = m.get("confirmed_by_lead", {})
    checks = c.get("checks", {}) or {}
    sup = m.get("superseded")
    caught = "; ".join(f"{k}: {', '.join(v['clauses'][:4])}" if v["caught"] else f"{k}: NOT caught" for k, v in checks.items())
    if sup:
        caught = "superseded by a repair (" + str(sup.get("by", sup) if isinstance(sup, dict) else sup)[:80] + "); caught before it"
    def short(t, n):
        t = (t or "").replace("\n", " ").replace("|", "/")
        return t[:n] + ("..." if len(t) > n else "")
    rows.append(f"| {sid} | {short(m.get('summary'), 170)} | {short(m.get('needs_to_manifest'), 150)} | {caught} | {NOTES.get(sid, 'caught at first run')} |")
table = ("| id | change | needs to manifest | caught by (check: clauses) | first run / what was strengthened |\n|---|---|---|---|---|\n" + "\n".join(rows))
p = os.path.join(V, "DESIGN.md")
s = open(p).read()
s = re.sub(r"<!-- SEEDED-TABLE-BEGIN -->.*<!-- SEEDED-TABLE-END -->", "<!-- SEEDED-TABLE-BEGIN -->\n" + table + "\n<!-- SEEDED-TABLE-END -->", s, flags=re.S)
open(p, "w").write(s)
print(len(rows), "rows")
