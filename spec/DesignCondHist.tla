--------------------------- MODULE DesignCondHist ---------------------------
(* Histories on ONE contour object (C17): calculate_design_conditions must depend on the  *)
(* coordinates the object has at the time of the call and on nothing else.                *)
(*   Call(s)  : evaluate with swap_axis = s                                                *)
(*   Assign   : contour.coordinates = <new array>                                          *)
(*   InPlace  : contour.coordinates[...] changed in place                                  *)
(* ver counts the changes of the coordinates; a call `uses` a version.  KeepPolyline = TRUE *)
(* is the named deviation "the closed polyline is kept on the object per axis order and     *)
(* never invalidated" - it must violate UsesCurrent.  The same module emits every history   *)
(* of length MaxLen (leg R); the driver replays them on the real function.                  *)
EXTENDS Integers, Sequences, TLC, Json
CONSTANTS MaxLen, KeepPolyline
VARIABLES ver, kept, used, hist
vars == <<ver, kept, used, hist>>

Init == ver = 0 /\ kept = [s \in BOOLEAN |-> -1] /\ used = 0 /\ hist = <<>>

Call(s) ==
    /\ Len(hist) < MaxLen
    /\ LET v == IF KeepPolyline /\ kept[s] # -1 THEN kept[s] ELSE ver IN
         /\ used' = v
         /\ kept' = [kept EXCEPT ![s] = v]
    /\ hist' = Append(hist, IF s THEN "call_swap" ELSE "call")
    /\ UNCHANGED ver
Assign ==
    /\ Len(hist) < MaxLen
    /\ ver' = ver + 1 /\ hist' = Append(hist, "assign")
    /\ UNCHANGED <<kept, used>>
InPlace ==
    /\ Len(hist) < MaxLen
    /\ ver' = ver + 1 /\ hist' = Append(hist, "inplace")
    /\ UNCHANGED <<kept, used>>
Next == (\E s \in BOOLEAN : Call(s)) \/ Assign \/ InPlace
Spec == Init /\ [][Next]_vars

IsCall(op) == op \in {"call", "call_swap"}
(* after a call the version used is the current one *)
UsesCurrent == (hist # <<>> /\ IsCall(hist[Len(hist)])) => used = ver
Emit == Len(hist) = MaxLen => PrintT(<<"BEH", ToJson([ops |-> hist])>>)
=============================================================================
