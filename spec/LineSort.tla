------------------------------ MODULE LineSort ------------------------------
(* virocon/utils.py: sort_points_to_form_continuous_line (property C15, second half).   *)
(*                                                                                      *)
(* Points on a K x K integer lattice.  The code builds the 2-nearest-neighbour graph    *)
(* (sklearn NearestNeighbors(n_neighbors=2).kneighbors_graph(): for every point the two *)
(* nearest OTHER points), turns it into an undirected graph and returns the DFS         *)
(* preorder from a start node (node 0, or with search_for_optimal_start the cheapest    *)
(* of the preorders from every node - modelled as "any start").                         *)
(*                                                                                      *)
(* Continue = FALSE: the algorithm as pinned - only the start node's component is       *)
(*                   visited.  IsPermutation is VIOLATED when the graph is disconnected *)
(*                   (two triangles of mutual nearest neighbours).                      *)
(* Continue = TRUE : the repaired design (fix 453a4dc) - when the DFS is exhausted and  *)
(*                   points remain, continue with a DFS from the unvisited point        *)
(*                   closest to the end of the line, until every point is used.         *)
(*                                                                                      *)
(* Only point sets whose 2-nearest-neighbour sets are unambiguous are explored (with    *)
(* ties at the second neighbour the graph depends on sklearn's tie-breaking).  The      *)
(* order in which DFS takes the neighbours of a node (ascending index here) affects     *)
(* the order of the output, not which points it contains.                               *)
EXTENDS Integers, Sequences, FiniteSets, TLC, Fix

CONSTANTS K,          \* lattice 0..K-1 x 0..K-1
          NP,         \* number of points
          Continue,   \* FALSE = pinned code, TRUE = repaired design
          AnyStart    \* TRUE: the walk may start at any node (search_for_optimal_start=True picks
                      \* the cheapest of them); FALSE: it starts at the first point (node 0 of the code)

VARIABLES pts, start, adj, stack, out, pc
vars == <<pts, start, adj, stack, out, pc>>

M == K * K
Pt(a) == <<a \div K, a % K>>                       \* lattice index -> point
(* strictly increasing sequences of n lattice indices >= lo: every n-subset exactly once *)
RECURSIVE Incr(_, _)
Incr(n, lo) == IF n = 0 THEN {<<>>}
               ELSE UNION {{<<a>> \o s : s \in Incr(n - 1, a + 1)} : a \in lo..(M - n)}

Nodes == 1..NP
D2(p, q) == (p[1] - q[1]) * (p[1] - q[1]) + (p[2] - q[2]) * (p[2] - q[2])
(* the nearest two other points of node i: those with fewer than 2 points strictly closer *)
DistMat(ps) == [i \in Nodes |-> [j \in Nodes |-> D2(ps[i], ps[j])]]
KnnD(dm, i) == {j \in Nodes \ {i} :
                  Cardinality({k \in Nodes \ {i} : dm[i][k] < dm[i][j]}) < 2}
Knn2(ps, i) == KnnD(DistMat(ps), i)
Unambiguous(ps) == LET dm == DistMat(ps) IN \A i \in Nodes : Cardinality(KnnD(dm, i)) = 2
(* undirected kneighbors graph *)
Adj(ps) == LET dm == DistMat(ps)
               nn == [i \in Nodes |-> KnnD(dm, i)]
           IN [i \in Nodes |-> nn[i] \cup {j \in Nodes : i \in nn[j]}]

Init ==
    /\ pts \in {[i \in Nodes |-> Pt(s[i])] : s \in Incr(NP, 0)}
    /\ start \in (IF AnyStart THEN Nodes ELSE {1})
    /\ adj = <<>> /\ stack = <<>> /\ out = <<>>
    /\ pc = "init"

(* ambiguous point sets are not explored further (guard here rather than in Init, so that *)
(* the workers filter in parallel)                                                         *)
Build ==
    /\ pc = "init"
    /\ Unambiguous(pts)
    /\ adj' = Adj(pts)
    /\ out' = <<start>> /\ stack' = <<start>>
    /\ pc' = "dfs"
    /\ UNCHANGED <<pts, start>>

Visited == Range(out)
(* one DFS step: descend to the first unvisited neighbour of the top of the stack, or pop *)
Visit ==
    /\ pc = "dfs" /\ stack # <<>>
    /\ LET top == stack[Len(stack)]
           cand == adj[top] \ Visited
       IN IF cand # {}
          THEN LET n == SetMin(cand) IN out' = Append(out, n) /\ stack' = Append(stack, n)
          ELSE out' = out /\ stack' = SubSeq(stack, 1, Len(stack) - 1)
    /\ UNCHANGED <<pts, start, adj, pc>>

(* DFS exhausted: the pinned code stops; the repaired design restarts at the unvisited   *)
(* point closest to the end of the line (np.argmin: first of equally close ones)         *)
Exhausted ==
    /\ pc = "dfs" /\ stack = <<>>
    /\ LET rest == Nodes \ Visited IN
         IF Continue /\ rest # {}
         THEN LET e == pts[out[Len(out)]]
                  dmin == SetMin({D2(e, pts[j]) : j \in rest})
                  n == SetMin({j \in rest : D2(e, pts[j]) = dmin})
              IN out' = Append(out, n) /\ stack' = <<n>> /\ pc' = pc
         ELSE pc' = "done" /\ UNCHANGED <<out, stack>>
    /\ UNCHANGED <<pts, start, adj>>

Next == Build \/ Visit \/ Exhausted
Spec == Init /\ [][Next]_vars

----------------------------------------------------------------------------
OutPts == [i \in 1..Len(out) |-> pts[out[i]]]
(* the output is a rearrangement of the input: bag equality *)
IsPermutation ==
    pc = "done" => /\ Len(out) = NP
                   /\ \A p \in Range(pts) \cup Range(OutPts) : Count(OutPts, p) = Count(pts, p)
NoDuplicates == \A i, j \in 1..Len(out) : i # j => out[i] # out[j]
StartsAtStart == Len(out) > 0 => out[1] = start
(* what the pinned algorithm returns: exactly the start node's component *)
RECURSIVE Reach(_, _)
Reach(front, seen) == LET nxt == (UNION {adj[i] : i \in front}) \ seen
                      IN IF nxt = {} THEN seen ELSE Reach(nxt, seen \cup nxt)
PinnedReturnsStartComponent ==
    pc = "done" /\ ~Continue => Range(out) = Reach({start}, {start})
(* every node of the kneighbors graph has degree >= 2, so a component has >= 3 points *)
ComponentsHaveThree == pc = "done" => \A i \in Nodes : Cardinality(Reach({i}, {i})) >= 3

=============================================================================
