---------------------------- MODULE SupportSearch ----------------------------
(* The support search of MultivariateModel.conditional_sample (rejection sampler).       *)
(*                                                                                      *)
(* x_max starts at 100 and is multiplied by 0.7 while the JOINT density at x_max is      *)
(* below an absolute threshold (1e-7), down to a floor.  Position k stands for           *)
(* x_max = 100 * 0.7^k; g[k] is the (scaled) joint density there along the free          *)
(* coordinate for the given conditioning value.  The conditional density is g / sum(g):  *)
(* an extreme conditioning value scales the whole profile down, so an ABSOLUTE threshold  *)
(* cuts where the CONDITIONAL density is still large.  Relative = TRUE is the repaired    *)
(* design (threshold relative to the profile's peak).  Profiles: peak Peak at position    *)
(* Mode, halving per position on both sides.                                             *)
EXTENDS Integers, Sequences, FiniteSets, Fix

CONSTANTS KMax, Peaks, Thr, Relative, TailPermille

VARIABLES g, k, pc
vars == <<g, k, pc>>

Profile(peak, mode) == [j \in 0..KMax |-> peak \div (2 ^ Abs(j - mode))]
EffThr == IF Relative THEN (g[CHOOSE j \in 0..KMax : \A i \in 0..KMax : g[i] <= g[j]] \div 1024) + 1 ELSE Thr

Init == /\ \E peak \in Peaks, mode \in 2..(KMax - 1) : g = Profile(peak, mode)
        /\ k = 0 /\ pc = "search"

Shrink == /\ pc = "search" /\ g[k] < EffThr /\ k < KMax
          /\ k' = k + 1 /\ UNCHANGED <<g, pc>>
Stop == /\ pc = "search" /\ (g[k] >= EffThr \/ k = KMax)
        /\ pc' = "sample" /\ UNCHANGED <<g, k>>
Next == Shrink \/ Stop
Spec == Init /\ [][Next]_vars

RECURSIVE Mass(_)
Mass(S) == IF S = {} THEN 0 ELSE LET j == CHOOSE x \in S : TRUE IN g[j] + Mass(S \ {j})
Total == Mass(0..KMax)
Beyond == Mass({j \in 0..KMax : j < k})            \* positions with larger x than x_max are cut off

StopRule == pc = "sample" => (g[k] >= EffThr \/ k = KMax) /\ \A j \in 0..(k - 1) : g[j] < EffThr
NoTailTruncation == pc = "sample" => Beyond * 1000 <= TailPermille * Total
=============================================================================
