SPECIFICATION Spec
CONSTANTS S1 = 3 S2 = 4 S3 = 0  MaxV = 1  Start = "Mask"  Strict = FALSE  Cross = FALSE  Close = FALSE
CHECK_DEADLOCK FALSE
INVARIANT ErosionIsBoundary
INVARIANT CoordsAreBoundary
INVARIANT EachOnce
INVARIANT SetsDoNotMixRegions
INVARIANT SetsAreComponents
INVARIANT EveryRegionHasASet
INVARIANT LabelOrder
INVARIANT FastIsDef
INVARIANT LabelIsTraceNotion
