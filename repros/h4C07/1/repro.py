"""C07: ExponentiatedWeibullDistribution.draw_sample does not follow the cdf
for a small delta (p**(1/delta) underflows inside scipy's exponweib.rvs).

Parameters are the ones of fix b7819db (alpha=1, beta=500, delta=0.001: what the
library's own least squares fit returns for uniform data). cdf/icdf/pdf were
repaired there, draw_sample was not.
"""
import sys
import math
import numpy as np
from virocon import (
    ExponentiatedWeibullDistribution,
    GlobalHierarchicalModel,
    LogNormalDistribution,
    DependenceFunction,
)

n = 1_000_000
eps = math.sqrt(math.log(2 / 1e-12) / (2 * n))  # DKW, error probability 1e-12

alpha, beta, delta = 1.0, 500.0, 0.001
dist = ExponentiatedWeibullDistribution(alpha=alpha, beta=beta, delta=delta)

# Independent oracle: F(x) = (1 - exp(-z))**delta with z = (x/alpha)**beta and
# 1 - exp(-z) <= z, hence F(x) <= (x/alpha)**(beta*delta) rigorously.
x0 = 0.01
F_upper = (x0 / alpha) ** (beta * delta)  # = 0.1
F_lib = float(dist.cdf(x0))

failed = False
for rs in (42, np.random.default_rng(42), None):
    s = dist.draw_sample(n, random_state=rs)
    frac_le = np.mean(s <= x0)
    frac_zero = np.mean(s == 0)
    print(
        f"random_state={type(rs).__name__}: fraction(sample <= {x0}) = {frac_le:.4f}, "
        f"exact zeros = {frac_zero:.4f}; true F({x0}) <= {F_upper:.4f} "
        f"(library cdf: {F_lib:.4f}); DKW eps = {eps:.5f}"
    )
    if frac_le > F_upper + eps:
        failed = True

# The same in a joint model: the Rosenblatt transform of the sample is -inf.
mu = DependenceFunction(lambda x: 1 + 0.1 * x)
sigma = DependenceFunction(lambda x: 0.2 + 0 * x)
model = GlobalHierarchicalModel(
    [
        {"distribution": dist},
        {
            "distribution": LogNormalDistribution(),
            "conditional_on": 0,
            "parameters": {"mu": mu, "sigma": sigma},
        },
    ]
)
js = model.draw_sample(n, random_state=1)
frac_joint = np.mean(js[:, 0] <= x0)
print(f"joint sample: fraction(x0 <= {x0}) = {frac_joint:.4f}, zeros = {np.mean(js[:, 0] == 0):.4f}")
if frac_joint > F_upper + eps:
    failed = True

if failed:
    print("VIOLATION: sample does not follow the cdf")
    sys.exit(1)
print("ok")
