SPECIFICATION Spec
CONSTANTS KMax = 10  Sub = 4  Peaks = {512, 4096, 32768}  Steeps = {1, 2, 6}  Thr = 8  Rule = "step_back"  Relative = FALSE  TailPermille = 10  Gaps = {0, 5, 6, 7}
CHECK_DEADLOCK FALSE
INVARIANT StopRule
INVARIANT NoTailTruncation
