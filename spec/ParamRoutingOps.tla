--------------------------- MODULE ParamRoutingOps ---------------------------
(* Parameter routing of virocon's univariate distributions (virocon/distributions.py)   *)
(* and of ConditionalDistribution / DependenceFunction (virocon/dependencies.py).       *)
(*                                                                                      *)
(* A distribution family has an ordered list of parameter NAMES.  An object carries     *)
(* STORED values and optional FIXED values (f_<name>); a call may carry EXPLICIT        *)
(* overrides for a subset E of the names.  The value that the documented semantics      *)
(* uses for name n is Resolve: the explicit value if given, else the stored one.        *)
(* A conditional distribution replaces every DEPENDENT parameter by its dependence      *)
(* function applied to the conditioning value (given); a dependence function that has   *)
(* another dependence function as parameter evaluates it at the SAME given.             *)
(*                                                                                      *)
(* This module has no variables and no constants: it is shared by the state machine     *)
(* ParamRouting.tla (legs M and R) and by the trace specs Trace_C05 / C08 / C11 (leg V) *)
EXTENDS Integers, Sequences, FiniteSets, Fix

----------------------------------------------------------------------------
(* families and their parameter names, in signature order                    *)

Families == {"Weibull", "LogNormal", "Normal", "ExpWeibull", "GenGamma", "VonMises",
             "NormFit", "ScipyGamma", "ScipyRayleigh", "ScipyBeta"}

NamesSeq(fam) ==
    CASE fam = "Weibull"       -> <<"alpha", "beta", "gamma">>
      [] fam = "LogNormal"     -> <<"mu", "sigma">>
      [] fam = "Normal"        -> <<"mu", "sigma">>
      [] fam = "ExpWeibull"    -> <<"alpha", "beta", "delta">>
      [] fam = "GenGamma"      -> <<"m", "c", "lambda_">>
      [] fam = "VonMises"      -> <<"kappa", "mu">>
      [] fam = "NormFit"       -> <<"mu_norm", "sigma_norm">>
      [] fam = "ScipyGamma"    -> <<"a", "loc", "scale">>
      [] fam = "ScipyRayleigh" -> <<"loc", "scale">>
      [] fam = "ScipyBeta"     -> <<"a", "b", "loc", "scale">>
      [] fam = "ScipyVonMises" -> <<"kappa", "loc", "scale">>     \* only in VmSubCases below
Names(fam) == Range(NamesSeq(fam))

(* a subset of the names as the subsequence of NamesSeq (canonical JSON form) *)
AsSeq(fam, S) == SelectSeq(NamesSeq(fam), LAMBDA n : n \in S)

Methods == {"pdf", "cdf", "icdf", "draw_sample"}
ArgKinds == {"scalar", "list", "ndarray"}     \* kind of the x / prob argument
PassKinds == {"kw", "pos"}                    \* overrides as keywords / positionally (None = not given)

----------------------------------------------------------------------------
(* C05: explicit overrides                                                    *)

Resolve(S, Ex, n) == IF n \in DOMAIN Ex THEN Ex[n] ELSE S[n]
ResolveAll(fam, S, Ex) == [n \in Names(fam) |-> Resolve(S, Ex, n)]

(* Every subset of the names may be overridden in one call, for every family: a name     *)
(* that is not passed takes the value of the instance.  (LogNormalNormFitDistribution     *)
(* once demanded "mu_norm and sigma_norm both or not at all" and raised RuntimeError for   *)
(* one of them - repaired in the repository; mutation "bothornone" of ParamRouting.tla.)   *)
OverrideOutcome(fam, E) == "ok"

OverrideCasesOf(fam) ==
    {<<fam, AsSeq(fam, E), m, k, p>> :
        E \in SUBSET Names(fam), m \in Methods, k \in ArgKinds, p \in PassKinds}
OverrideCases == UNION {OverrideCasesOf(fam) : fam \in Families}

(* integer-typed explicit values (python int, numpy int64 / int32 scalar, integer array, all  *)
(* >= 2): every single name and all names at once, every method, keyword and positional.      *)
(* The instance it is compared with is constructed with the same integer objects.             *)
IntKinds == {"pyint", "int64", "int32", "intarray"}
IntOverrideCasesOf(fam) ==
    {<<fam, AsSeq(fam, E), m, vk, p>> :
        E \in {{n} : n \in Names(fam)} \cup {Names(fam)}, m \in Methods, vk \in IntKinds, p \in PassKinds}
IntOverrideCases == UNION {IntOverrideCasesOf(fam) : fam \in Families}

----------------------------------------------------------------------------
(* C08: conditional distributions                                             *)

(* D = set of dependent parameters (>= 1), the others are fixed                  *)
Partitions(fam) == (SUBSET Names(fam)) \ {{}}

(* how the dependence functions are built:                                               *)
(*   plain    - every coefficient set explicitly                                         *)
(*   defaults - coefficients taken from the callable's defaults (1 where there is none)  *)
(*   chain1   - the first dependent parameter's function takes a second dependence       *)
(*              function as parameter (depth 1)                                          *)
(*   chain2   - ... whose inner function again takes a dependence function (depth 2)     *)
(*   chainF   - as chain1, the dependence-function parameter is the FIRST parameter of the   *)
(*   chainM     callable's signature / in the MIDDLE of it (chain1: last)                    *)
(*   const    - every dependence callable is constant in the conditioning value (returns a   *)
(*              scalar / ignores x): the value token carries the pseudo-given 0              *)
Chains == {"plain", "defaults", "chain1", "chain2", "chainF", "chainM", "const"}
ChainDepth(c) == CASE c \in {"chain1", "chainF", "chainM"} -> 1 [] c = "chain2" -> 2 [] OTHER -> 0
(* the conditioning value a dependence callable of chain kind c depends on *)
Seen(c, g) == IF c = "const" THEN 0 ELSE g
(* quick tier: the integer-typed conditioning values are run for these chain kinds only *)
QuickIntChains == {"plain", "const"}

(* call shapes: x scalar/vector, given scalar/vector                             *)
Shapes == {"ss", "vs", "vv", "sv"}
GivenIsVector(s) == s \in {"vv", "sv"}
XIsVector(s) == s \in {"vs", "vv"}

(* The value of a dependence function of chain depth d (the function of parameter n has  *)
(* an inner dependence function, which has an inner one ... d times) at conditioning      *)
(* value g is the token <<"dep", n, g_1, .., g_(d+1)>> where g_k is the conditioning      *)
(* value level k was evaluated at.  The documented meaning: every level sees the same g. *)
ApplyTok(n, gs) == <<"dep", n>> \o gs
Apply(n, depth, g) == ApplyTok(n, [k \in 1..(depth + 1) |-> g])
GivensIn(t) == {t[k] : k \in 3..Len(t)}

(* the first dependent parameter (signature order) carries the chain *)
FirstDep(fam, D) == AsSeq(fam, D)[1]
DepthOf(fam, D, c, n) == IF n = FirstDep(fam, D) THEN ChainDepth(c) ELSE 0

CondResolve(fam, D, c, fixedPar, g) ==
    [n \in Names(fam) |-> IF n \in D THEN Apply(n, DepthOf(fam, D, c, n), Seen(c, g)) ELSE fixedPar[n]]

CondCasesOf(fam) ==
    {<<fam, AsSeq(fam, D), c, s, m>> :
        D \in Partitions(fam), c \in Chains, s \in Shapes, m \in Methods}
CondCases == UNION {CondCasesOf(fam) : fam \in Families}

(* narrow types of the conditioning value(s) with dependence callables that square / invert   *)
(* x (a + b x^2, a + b x^-1): the callable must see the values as doubles (an int16 square     *)
(* wraps, a float16 square overflows, an integer to the power -1 raises); every parameter of   *)
(* the family is dependent.  pdf / cdf / icdf only: a sampler fed with the inf / wrapped values  *)
(* of a defective tree (von Mises kappa = inf) never returns.                                   *)
GivenDtypes == {"intlist", "int16array", "int64array", "int16scalar", "int64scalar", "float16array"}
DtypeFns == {"sq", "inv"}
DtypeCases == {<<fam, gk, fn, m>> : fam \in Families, gk \in GivenDtypes, fn \in DtypeFns,
                                    m \in Methods \ {"draw_sample"}}

(* dependence functions declared WITH the fit-time option bounds= (one (lower, upper) pair per   *)
(* coefficient of the callable) and evaluated WITHOUT a preceding fit.  The callable is           *)
(* f(x, c, a=A, b=B) = a + b x c: the coefficients of an unfitted dependence function are the      *)
(* defaults declared by the callable (1 where it declares none: c).  bounds restrict a FIT; they   *)
(* are no input of an evaluation.  Kind = where the declared defaults lie relative to the bounds:  *)
(*   inside   - every default inside its bounds (the usual declaration)                            *)
(*   above    - the default of a above its upper bound        below - that of b below its lower     *)
(*   implicit - the implicit default 1 of c outside its bounds [2, 3]                               *)
(*   zero     - the upper bound 0 (a falsy number) below the defaults of c and b                    *)
(* BoundsOutside(k) = the coefficients whose default lies outside.  "chained": the function of     *)
(* every parameter takes a second dependence function (declared with bounds of the same kind)      *)
(* as parameter.  Every parameter of the family is dependent.                                      *)
BoundsKinds == {"inside", "above", "below", "implicit", "zero"}
BoundsCoefs == {"c", "a", "b"}
BoundsOutside(k) == CASE k = "inside" -> {} [] k = "above" -> {"a"} [] k = "below" -> {"b"}
                      [] k = "implicit" -> {"c"} [] k = "zero" -> {"c", "b"}
BoundsChains == {"plain", "chained"}
BoundsShapes == {"ss", "vv"}
BoundsCases == {<<fam, bk, ch, s, m>> : fam \in Families, bk \in BoundsKinds, ch \in BoundsChains,
                                        s \in BoundsShapes, m \in Methods}

----------------------------------------------------------------------------
(* C11: fixed parameters through fitting                                      *)

FixSets(fam) == (SUBSET Names(fam)) \ {Names(fam)}      \* every proper subset, {} included
FitMethods == {"mle", "lsq", "wlsq"}
DataKinds == {"own", "other"}                           \* data drawn from the family / from another one

(* transcribed from the code: _fit_mle exists for every family and translates every     *)
(* f_<name>; _fit_lsq exists only for the exponentiated Weibull distribution and only   *)
(* for "nothing fixed" or "delta fixed, alpha and beta free"; everything else raises    *)
(* NotImplementedError, which is the specified outcome.                                  *)
Supports(fam, method, F) ==
    \/ method = "mle"
    \/ (method \in {"lsq", "wlsq"} /\ fam = "ExpWeibull" /\ F \in {{}, {"delta"}})
FitOutcome(fam, method, F) == IF Supports(fam, method, F) THEN "ok" ELSE "NotImplementedError"

FitCasesOf(fam) ==
    {<<fam, AsSeq(fam, F), m, d>> : F \in FixSets(fam), m \in FitMethods, d \in DataKinds}
FitCases == UNION {FitCasesOf(fam) : fam \in Families}

(* special fixed values (one parameter fixed, MLE, own-family data): values that a        *)
(* truthiness test, a type test or a range reduction would treat differently from a       *)
(* regular float.  Location-like parameters admit 0.0 / integer 0 / -0.0 / a negative       *)
(* value; the von Mises location also a value outside [-pi, pi] ("wrap", 4.0); every other   *)
(* parameter an integer-typed value ("int", e.g. f_delta = 5); every parameter a value far   *)
(* from the data-generating one ("far").  The specified outcome is the regular one: the      *)
(* fit succeeds, the fixed value is unchanged, the free parameters are estimated.            *)
LocLike(fam, n) ==
    <<fam, n>> \in {<<"Normal", "mu">>, <<"Weibull", "gamma">>, <<"LogNormal", "mu">>,
                    <<"VonMises", "mu">>, <<"ScipyGamma", "loc">>, <<"ScipyRayleigh", "loc">>,
                    <<"ScipyBeta", "loc">>}
ZeroKinds == {"zero", "intzero", "negzero"}
SpecialKinds(fam, n) ==
    IF LocLike(fam, n)
    THEN ZeroKinds \cup {"neg", "far"} \cup (IF fam = "VonMises" THEN {"wrap"} ELSE {})
         \cup (IF fam = "LogNormal" THEN {"tiny", "huge"} ELSE {})     \* mu = 1e-9 / 25: exp/log round trip
    ELSE {"int", "far"}
         \* generalised gamma, m fixed at the generating value, default start values, n = 1000
         \* own-family data of small magnitude (medians 0.065 .. 0.25): three generating vectors
         \cup (IF fam = "GenGamma" /\ n = "m" THEN {"smalldata_a", "smalldata_b", "smalldata_c"} ELSE {})
SpecialFitCasesOf(fam) ==
    UNION {{<<fam, n, k>> : k \in SpecialKinds(fam, n)} : n \in Names(fam)}
SpecialFitCases == UNION {SpecialFitCasesOf(fam) : fam \in Families}

(* a ScipyDistribution subclass of scipy's vonmises (kappa, loc, scale): scipy's fit returns *)
(* the location wrapped into [-pi, pi] and the scale as 1 whatever was fixed, so the fixed     *)
(* values must be kept by the wrapper.  F always contains scale (scipy does not estimate it);   *)
(* "wrap": f_loc = 4.0.                                                                         *)
VmSubCases == {<<AsSeq("ScipyVonMises", {"scale"}), "regular">>,
               <<AsSeq("ScipyVonMises", {"loc", "scale"}), "regular">>,
               <<AsSeq("ScipyVonMises", {"loc", "scale"}), "wrap">>,
               <<AsSeq("ScipyVonMises", {"kappa", "scale"}), "regular">>}
(* f_<name> = None passed explicitly means "not fixed": one case per family and name *)
NoneFixCases == UNION {{<<fam, n>> : n \in Names(fam)} : fam \in Families}

(* conditional distribution with fixed parameters: every non-empty proper subset fixed,  *)
(* the others dependent                                                                  *)
CondFixCasesOf(fam) == {<<fam, AsSeq(fam, F)>> : F \in (FixSets(fam) \ {{}})}
CondFixCases == UNION {CondFixCasesOf(fam) : fam \in Families}

----------------------------------------------------------------------------
(* numeric tolerances used by the trace specs (fixed point, see each field)              *)

(* 1e-12 relative, in units of 1e-15: round-off of at most a few ulp (2.2e-16 each) in   *)
(* reading back a value that went through exp/log or 1/x twice (mu -> scale -> mu,       *)
(* lambda_ -> 1/lambda_ -> lambda_): the property states 1e-12.                          *)
FixedTolE15 == 1000

=============================================================================
