SPECIFICATION Spec
CONSTANTS Objs = {1,2}  Ns = {3,5}  MaxLen = 3  Mut = "ignoreseed"  EmitHist = FALSE
CHECK_DEADLOCK FALSE
INVARIANT SameSeedSameSample
INVARIANT DifferentSeedsDiffer
INVARIANT GeneratorAdvances
INVARIANT EqualGeneratorsEqualSample
INVARIANT StreamsIndependent
INVARIANT IdentsAgree
