#!/bin/sh
# tools/virocon_vs_seeds.sh <id>...  - developer experiment: run 36 TLC-simulated sessions of spec/Virocon.tla (tools/virocon_sessions.py)
# against each seeded change; prints "<id> sessions N with differences K"
for id in "$@"; do echo $id; done | xargs -P ${PAR:-2} -I{} sh -c 'wt=/var/tmp/vs-{}; git -C /repo worktree add -q --detach $wt HEAD 2>/dev/null && git -C $wt apply /verif/seeded/{}/patch.diff 2>/dev/null && echo "{} $(timeout 1500 /venv/bin/python tools/virocon_sessions.py $wt 36 5 2>&1 | tail -1)" || echo "{} (patch does not apply)"; git -C /repo worktree remove --force $wt 2>/dev/null'
