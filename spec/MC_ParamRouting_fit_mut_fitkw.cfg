SPECIFICATION Spec
CONSTANTS Scen = "fit"  NGiven = 2  MutKind = "fitkw"  MutFam = "GenGamma"  MutName = "m"
CHECK_DEADLOCK FALSE
INVARIANT FixedHonoured
INVARIANT EvalUsesPar
INVARIANT FitOutcomeAsSpecified
INVARIANT FreeEstimated
PROPERTY FixedStable
