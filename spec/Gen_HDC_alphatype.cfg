SPECIFICATION SpecAlphaType
CONSTANTS SelN = 1  SelMaxV = 1
CHECK_DEADLOCK FALSE
