SPECIFICATION Spec
CONSTANTS BaseSet = {1,3,7}  PairBaseSet = {}  HierarchyCheck = FALSE  Shortcut = "none"
CHECK_DEADLOCK FALSE
INVARIANT RejectedNotComputed
