SPECIFICATION Spec
CONSTANTS NS = 5  A = 1  B = 3  EN = 1  ED = 10  MaxIter = 6  TStep = 16  TMax = 320  EmitNext = FALSE
CHECK_DEADLOCK FALSE
INVARIANT PointIsLastEvaluated
INVARIANT WithinTolerance
INVARIANT WarnIffMaxIter
INVARIANT StepHalves
