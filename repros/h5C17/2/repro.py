"""virocon._intersection.intersection: polylines with unsigned integer coordinates.

Two segments (0,0)-(10,10) and (0,10)-(10,0) cross exactly once, at (5, 5), well inside both
segments (general position). With unsigned integer arrays the routine returns no crossing
(uint8/uint16/uint32) or the wrong point (10, 10), which is not on the second segment (uint64).
"""
import sys
import numpy as np
from virocon._intersection import intersection

bad = 0
for dtype in (float, np.int64, np.int32, np.uint8, np.uint16, np.uint32, np.uint64):
    x1 = np.array([0, 10], dtype=dtype)
    y1 = np.array([0, 10], dtype=dtype)
    x2 = np.array([0, 10], dtype=dtype)
    y2 = np.array([10, 0], dtype=dtype)
    x, y = intersection(x1, y1, x2, y2)
    ok = len(x) == 1 and np.allclose([x[0], y[0]], [5.0, 5.0])
    print(np.dtype(dtype).name, "->", list(zip(x.tolist(), y.tolist())), "OK" if ok else "WRONG (expected [(5.0, 5.0)])")
    bad += not ok
sys.exit(1 if bad else 0)
