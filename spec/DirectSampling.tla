--------------------------- MODULE DirectSampling ---------------------------
(* Direction table of DirectSamplingContour._compute (virocon/contours.py).            *)
(*                                                                                      *)
(* Directions live in Z_N, N = 360 / deg_step.  The code generates M angles             *)
(*   angles[i] = (90 deg + 2 steps) - i * step,   i = 0 .. M-1                          *)
(* (np.arange(pi/2 + 2s, -3pi/2 + s, -s)); relative to angles[0] the direction of       *)
(* angle i is Dir(i) = -i mod N.  It closes the table by appending angles[0] and takes  *)
(* as vertex k the intersection of the tangent lines of closed[k+1] and closed[k+2]     *)
(* (0-based, k = 0 .. M-2).  A vertex is modelled by the pair of directions whose       *)
(* tangent lines are intersected: Meet(d, e) is a point iff d # e, Meet(d,e)=Meet(e,d). *)
(*                                                                                      *)
(* History: the pinned code used np.arange(pi/2 + 2s, -3pi/2 + s, -s), which in float   *)
(* arithmetic yields N + 1 or N + 2 angles depending on rounding, and closed the table   *)
(* with angles[0].  With M = N + 1 the last vertex was Meet(Dir(0), Dir(0)) (defect D17, *)
(* repaired by a fix: commit).  The code now generates exactly M = N + 1 angles          *)
(* (Extra = 1, the last one repeats the first direction) and closes the table with       *)
(* angles[1] (CloseIdx = 1), which gives N proper vertices.  Extra and CloseIdx stay     *)
(* constants of the model: (Extras = {1}, CloseIdx = 1) is the code, (Extras = {2},      *)
(* CloseIdx = 0) the other correct table (one duplicated vertex), and (Extras = {1},     *)
(* CloseIdx = 0) the named deviation D17 that must violate NoSelfMeet / FullCircleOnce.  *)
(* Shift # 0 models an index shift in the intersection formula (vacuity guard).         *)
EXTENDS Integers, Sequences, FiniteSets, TLC, Json

CONSTANTS Steps,      \* set of deg_step values (divisors of 360 in 1..60)
          Extras,     \* subset of {1, 2}
          CloseIdx,   \* index (0-based) of the generated angle appended to close the table
          Shift       \* 0 = as coded
VARIABLES pc, step, extra, A, closed, V

vars == <<pc, step, extra, A, closed, V>>

Admissible == {d \in 1..60 : 360 % d = 0}

N == 360 \div step
M == N + extra
Dir(i) == (N - (i % N)) % N                     \* -i mod N

Init ==
    /\ pc = "start"
    /\ step \in Steps /\ extra \in Extras
    /\ A = <<>> /\ closed = <<>> /\ V = <<>>

GenAngles ==                                     \* angles = np.arange(...)
    /\ pc = "start"
    /\ A' = [i \in 1..M |-> Dir(i - 1)]
    /\ pc' = "angles"
    /\ UNCHANGED <<step, extra, closed, V>>

Close ==                                         \* a = concatenate(angles, [angles[CloseIdx]])
    /\ pc = "angles"
    /\ closed' = A \o <<A[CloseIdx + 1]>>
    /\ pc' = "closed"
    /\ UNCHANGED <<step, extra, A, V>>

Intersect ==                                     \* lines a[1:-1] with a[2:]
    /\ pc = "closed"
    /\ V' = [j \in 1..(M - 1) |-> <<closed[j + 1], closed[((j + 1 + Shift) % (M + 1)) + 1]>>]
    /\ pc' = "done"
    /\ UNCHANGED <<step, extra, A, closed>>

Next == GenAngles \/ Close \/ Intersect
Spec == Init /\ [][Next]_vars

----------------------------------------------------------------------------
Done == pc = "done"
E == Len(V)                                      \* number of returned vertices
Succ(j) == IF j = E THEN 1 ELSE j + 1            \* cyclic successor (closing edge E -> 1)
Lines(j) == {V[j][1], V[j][2]}
SamePoint(j, k) == Lines(j) = Lines(k)
Common(j) == Lines(j) \cap Lines(Succ(j))

TypeOK == step \in Admissible /\ extra \in {1, 2}

(* no vertex is the intersection of a line with itself *)
NoSelfMeet == Done => \A j \in 1..E : V[j][1] # V[j][2]

(* every vertex is the intersection of the tangents of two NEIGHBOURING directions   *)
(* (symmetric: the closing vertex <<Dir(1), Dir(0)>> of Extra = 2 is a correct one)   *)
AllAdjacent == Done => \A j \in 1..E : ((V[j][1] - V[j][2]) % N) \in {1, N - 1}

(* every polygon edge, the closing edge included, lies on one tangent line: its two  *)
(* end points share a direction (or are the same point: an edge of length zero)       *)
EdgesOnTangents == Done => \A j \in 1..E : SamePoint(j, Succ(j)) \/ Cardinality(Common(j)) = 1

(* the edges of non-zero length visit every direction of Z_N exactly once, and       *)
(* successive ones advance by exactly one step clockwise                              *)
Proper == {j \in 1..E : ~SamePoint(j, Succ(j))}
OnDir(d) == {j \in Proper : d \in Common(j)}
FullCircleOnce ==
    Done =>
       /\ \A d \in 0..(N - 1) : Cardinality(OnDir(d)) = 1
       /\ \A j \in Proper :
            LET RECURSIVE NextProper(_)
                NextProper(k) == IF k \in Proper THEN k ELSE NextProper(Succ(k))
                nx == NextProper(Succ(j))
            IN \A d \in Common(j) : \A e \in Common(nx) : (d - e) % N = 1
=============================================================================
