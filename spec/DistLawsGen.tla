------------------------------ MODULE DistLawsGen ------------------------------
(* Leg R for the formula half of C05: TLC enumerates the parameter classes of every     *)
(* family (DistLawsOps!LawCases) and emits them as JSON; harness/c05.py concretises       *)
(* each class with numbers, tabulates the real class and Trace_C05 judges the table.      *)
EXTENDS DistLawsOps, TLC, Json
CONSTANT Tier
VARIABLE cs
Init == cs \in LawCases(Tier)
Next == UNCHANGED cs
Spec == Init /\ [][Next]_cs
Emit == PrintT(<<"BEH", ToJson([fam |-> cs[1], cl |-> cs[2]])>>)
=============================================================================
