SPECIFICATION Spec
CONSTANTS G = 4  MaxV = 5  XLeft = 2  YDown = 0  UseMin = FALSE  MaxHits = 99  Algo = "edges"  BothOrders = TRUE
CHECK_DEADLOCK FALSE
INVARIANT NoError
INVARIANT DesignHolds
INVARIANT OnContour
INVARIANT SwapIsExchange
INVARIANT InsideKept
