"""C06 - joint density factorises hierarchically; cdf and marginals are its integrals.

M: TLC explores spec/Rosenblatt.tla in mode "pdf" (PdfStep, exact finite sums on a lattice):
   Factorises, CdfIsOrthantSum, MarginalIsSumOverOthers, NormalisedToOne, ReorderIsInverse for
   every structure / shape assignment / lattice point; two mutation configs (wrong column,
   arg_order applied instead of argsort(arg_order)) must fail.
R: TLC enumerates the configurations (n <= 3), concretised over the non-negative families.
V: model.pdf for float row / float list / int list / (n,d) array / int array against the
   driver's own product of distributions[i].pdf(x_i, given=x[cond[i]]); model.cdf,
   marginal_pdf, marginal_cdf against quadratures over the conditional cdf; total mass;
   marginal_cdf(marginal_icdf(p)) = p within a DKW radius.  spec/Trace_C06.tla judges.
"""
import math
import time
import warnings

import numpy as np

from .common import Q, Qc, Machinery, import_virocon
from . import models as M

LEVEL = "model_checking"
BIG = 2_000_000_000
LEVELS = [1e-8, 1e-4, 0.01, 0.1, 0.3, 0.5, 0.7, 0.9, 0.99, 1 - 1e-4, 1 - 1e-8]


# Named deterministic models (explicit descriptions; stable violation keys).  They exercise the
# regime the random integral models avoid: a density whose mass is narrow relative to its distance
# from 0 -- marginal_pdf / marginal_cdf integrate the other variables over (0, inf).
NAMED = {
    "narrow-conditioning-variable": {
        "n_dim": 2, "cond": [None, 0], "families": ["lognormal", "lognormal"], "shapes": [0, 2],
        "dims": [{"family": "lognormal", "params": {"mu": 3.0, "sigma": 0.05}},
                 {"family": "lognormal", "fixed": {"sigma": 0.5}, "deps": {"mu": ["linear", [0.0, 0.1]]}}]},
    "weibull-location-kink": {
        "n_dim": 2, "cond": [None, 0], "families": ["weibull", "expweibull"], "shapes": [0, 3],
        "dims": [{"family": "weibull", "params": {"alpha": 2.92931156066999, "beta": 1.6453371631343465,
                                                   "gamma": 0.9921150788517182}},
                 {"family": "expweibull", "fixed": {},
                  "deps": {"alpha": ["const", [0.9326626908611051]],
                           "beta": ["asym3", [1.5235928213832088, 0.46857659266181484, 0.8412368755275286]],
                           "delta": ["logistic3", [1.5661102782318028, 0.8375949844113009, 0.4794009638702076]]}}]},
    "weibull-location-grows-with-given": {
        "n_dim": 3, "cond": [None, 0, 0], "families": ["lognormfit", "weibull", "expweibull"], "shapes": [0, 2, 3],
        "dims": [{"family": "lognormfit", "params": {"mu_norm": 1.1373217746444433, "sigma_norm": 1.0031781629401548}},
                 {"family": "weibull", "fixed": {"beta": 2.3009949584872906},
                  "deps": {"alpha": ["const", [2.6532198704821592]],
                           "gamma": ["abslinear", [0.832703571778708, 0.8973416102447995]]}},
                 {"family": "expweibull", "fixed": {},
                  "deps": {"alpha": ["const", [2.8359691248985235]],
                           "beta": ["asym3", [1.5868618684866707, 0.8232315838043578, 0.4135807372746333]],
                           "delta": ["asym3", [1.2614442729264081, 0.9975394235280233, 1.375150967200447]]}}]},
}


def get_model(c):
    vc = import_virocon()
    if c.get("named"):
        return M.from_description(vc, NAMED[c["named"]])
    desc = M.describe(np.random.default_rng(c["seed"]), c["n_dim"], c["cond"], c["families"], c["sh"],
                      spec=M.SPEC_SMOOTH if c.get("smooth") else None)
    return M.from_description(vc, desc)


def model_key(c):
    if c.get("named"):
        return f"named={c['named']}"
    return (f"n_dim={c['n_dim']} cond={c['cond']} families={','.join(c['families'])} shapes={c['sh']} "
            f"seed={c['seed']}")


# ---- the model's own conditional pieces (scalar wrappers) ----------------------------------

class Pieces:
    def __init__(self, model):
        self.m = model
        self.cond = model.conditional_on
        self.n = model.n_dim

    def _call(self, i, name, v, g):
        d = self.m.distributions[i]
        with warnings.catch_warnings():
            warnings.simplefilter("ignore")
            out = getattr(d, name)(v) if self.cond[i] is None else getattr(d, name)(v, given=g)
        return float(np.asarray(out, dtype=float).reshape(-1)[0])

    def f(self, i, v, g=None):
        return self._call(i, "pdf", v, g)

    def F(self, i, v, g=None):
        return self._call(i, "cdf", v, g)

    def q(self, i, p, g=None):
        return self._call(i, "icdf", p, g)

    def integrate(self, fun, i, g=None, upper=None):
        """integral of fun(t) over the support of dimension i given g (cut at upper), by adaptive
        quadrature between the 1e-14 and 1-1e-14 quantiles with break points at quantiles"""
        from scipy.integrate import quad
        lo = self.q(i, 1e-14, g)
        hi = self.q(i, 1 - 1e-14, g)
        if upper is not None:
            hi = min(hi, upper)
        if not hi > lo:
            return 0.0
        pts = sorted({self.q(i, p, g) for p in LEVELS})
        pts = [p for p in pts if lo < p < hi]
        with warnings.catch_warnings():
            warnings.simplefilter("ignore")
            val, _ = quad(fun, lo, hi, points=pts or None, limit=400, epsabs=1e-13, epsrel=1e-11)
        return val

    def expect_chain(self, d, leaf):
        """E over the ancestors of d of leaf(value of d's parent): the marginal of a conditional
        dimension only involves its chain of conditioning variables"""
        p = self.cond[d]
        if self.cond[p] is None:
            return self.integrate(lambda t: self.f(p, t) * leaf(t), p)
        qd = self.cond[p]
        if self.cond[qd] is not None:
            raise Machinery("reference integrals only for chains of length <= 3")
        return self.integrate(
            lambda s: self.f(qd, s) * self.integrate(lambda t: self.f(p, t, s) * leaf(t), p, s), qd)

    def marginal(self, d, v, cum):
        if self.cond[d] is None:
            return self.F(d, v) if cum else self.f(d, v)
        return self.expect_chain(d, (lambda t: self.F(d, v, t)) if cum else (lambda t: self.f(d, v, t)))

    def joint_cdf(self, x):
        """P(X <= x) from 0 (the code integrates from 0): nested quadrature over the first n-1
        dimensions of the product of their densities times the conditional cdf of the last"""
        n, cond = self.n, self.cond
        if n == 2:
            if cond[1] is None:
                return self.F(0, x[0]) * self.F(1, x[1])
            return self.integrate(lambda t: self.f(0, t) * self.F(1, x[1], t), 0, upper=x[0])
        if n != 3:
            raise Machinery("reference joint cdf only for n_dim <= 3")

        def g_of(i, vals):
            return None if cond[i] is None else vals[cond[i]]

        def outer(t0):
            if cond[2] == 1:
                inner = self.integrate(lambda t1: self.f(1, t1, g_of(1, [t0])) * self.F(2, x[2], t1),
                                       1, g_of(1, [t0]), upper=x[1])
            else:
                inner = self.F(1, x[1], g_of(1, [t0])) * self.F(2, x[2], g_of(2, [t0, None]))
            return self.f(0, t0) * inner
        if cond[1] is None and cond[2] in (None, 1):
            # dimension 0 is independent of the rest
            if cond[2] is None:
                return self.F(0, x[0]) * self.F(1, x[1]) * self.F(2, x[2])
            return self.F(0, x[0]) * self.integrate(lambda t1: self.f(1, t1) * self.F(2, x[2], t1), 1, upper=x[1])
        return self.integrate(outer, 0, upper=x[0])


def point_at(pc, levels):
    """the point whose conditional probability levels are `levels` (point selection only)"""
    x = []
    for i, lv in enumerate(levels):
        g = None if pc.cond[i] is None else x[pc.cond[i]]
        x.append(pc.q(i, lv, g))
    return x


# ---- pdf records ---------------------------------------------------------------------------

def rel15(val, ref):
    if ref == math.inf:
        return 0 if val == math.inf else BIG
    if not math.isfinite(val):
        return BIG
    if ref == 0.0:
        return 0 if val == 0.0 else BIG
    return Qc((val - ref) / abs(ref), 1e15, -BIG, BIG)


def ref_product(model, P):
    """the driver's own product of the individual conditional densities (declared structure)"""
    P = np.asarray(P, dtype=float)
    out = np.ones(P.shape[0])
    for i in range(model.n_dim):
        d = model.distributions[i]
        c = model.conditional_on[i]
        with warnings.catch_warnings():
            warnings.simplefilter("ignore")
            fi = d.pdf(P[:, i]) if c is None else d.pdf(P[:, i], given=P[:, c])
        fi = np.asarray(fi, dtype=float)
        zero = (fi == 0) if i == 0 else (zero | (fi == 0))
        with np.errstate(invalid="ignore"):
            out = out * fi
    # a density factor that is exactly 0 makes the joint density 0 (0 * anything = 0), also where another
    # factor is unbounded
    return np.where(zero, 0.0, out)


def ref_product_flushed(model, P):
    """ref_product on a private copy extended by one extra row (dropped afterwards): the conditioning
    values handed to the conditional distributions are then a NEW array of another size, so the
    reference cannot coincide with whatever an earlier call left behind in the objects"""
    P = np.array(P, dtype=float, order="C", copy=True)
    ext = np.vstack([P, P[:1] * 1.37 + 0.011])
    return ref_product(model, ext)[:-1]


def pdf_task(c):
    model = get_model(c)
    pc = Pieces(model)
    rng = np.random.default_rng(c["seed"] + 5)
    n = model.n_dim
    pts = []
    for k in range(c["m"]):
        if k % 3 == 0:      # bulk
            lv = rng.uniform(0.05, 0.95, size=n)
        elif k % 3 == 1:    # tails
            lv = rng.choice([1e-6, 1e-3, 0.999, 1 - 1e-6], size=n)
        else:
            lv = rng.uniform(0.001, 0.999, size=n)
        pts.append(point_at(pc, lv))
    P = np.array(pts, dtype=float)
    if c["m"] > 3:
        P[3] = P[3] * 0.01          # a point near / below the lower end of the support
    Pint = np.maximum(1, np.rint(P)).astype(np.int64)
    ref = ref_product(model, P)
    refint = ref_product(model, Pint.astype(float))
    calls = [("float_row", lambda: model.pdf(np.array(P[0])), ref[:1], False),
             ("float_list", lambda: model.pdf([float(v) for v in P[1 % len(P)]]), ref[1 % len(P):1 % len(P) + 1], False),
             ("array", lambda: model.pdf(P), ref, False),
             ("list_of_lists", lambda: model.pdf([[float(v) for v in row] for row in P]), ref, False),
             ("intvalued_float_array", lambda: model.pdf(Pint.astype(float)), refint, False),
             ("int_list", lambda: model.pdf([int(v) for v in Pint[0]]), refint[:1], True),
             ("int_array", lambda: model.pdf(Pint), refint, True),
             ("int_row", lambda: model.pdf(Pint[1 % len(P)]), refint[1 % len(P):1 % len(P) + 1], True)]
    rec = dict(kind="pdf", exc="", kinds=[])
    for name, call, rf, isint in calls:
        try:
            with warnings.catch_warnings():
                warnings.simplefilter("ignore")
                val = np.asarray(call())
        except Exception as e:  # noqa
            rec["exc"] = f"{name}: {type(e).__name__}: {e}"[:200]
            break
        shapeok = val.ndim == 1 and val.shape[0] == len(rf)
        v = np.asarray(val, dtype=float).reshape(-1)
        rec["kinds"].append(dict(kind=name, n=len(rf), isint=isint, shapeok=bool(shapeok),
                                 rel=[rel15(float(a), float(b)) for a, b in zip(v, rf)] if shapeok else [],
                                 sign=[int(np.sign(a)) if math.isfinite(a) else -1 for a in v]))
    nz = int(np.sum(ref > 0)) + int(np.sum(refint > 0))
    out = [dict(rec=rec, key="pdf " + model_key(c), nontrivial=nz > 0 and M.nontrivial_dependence(model._verif),
                case=c)]
    if c.get("kept"):
        out.append(dict(rec=kept_record(model, P, ref, Pint, refint), key="pdf-kept one-point-at-a-time " + model_key(c),
                        nontrivial=len({float(v) for v in ref if v > 0}) >= 2, case=c, kept="pdf-kept"))
    return out


# ---- one point at a time, every returned array kept --------------------------------------------

KEPT_SPELLINGS = [("kept_float_row", lambda p: np.array(p, dtype=float), False),
                  ("kept_float_list", lambda p: [float(v) for v in p], False),
                  ("kept_one_row_array", lambda p: np.array([p], dtype=float), False),
                  ("kept_int_list", lambda p: [int(v) for v in p], True)]


def _read_kept(name, isint, objs, refs, now):
    """read the objects the calls returned (kept as returned) AFTER all evaluations"""
    arrs = [np.asarray(o) for o in objs]
    shapeok = all(a.ndim == 1 and a.shape[0] == 1 for a in arrs)
    vals = [float(np.asarray(a, dtype=float).reshape(-1)[0]) for a in arrs] if shapeok else []
    return dict(kind=name, n=len(refs), isint=isint, shapeok=bool(shapeok),
                rel=[rel15(a, float(b)) for a, b in zip(vals, refs)],
                relnow=[rel15(a, float(b)) for a, b in zip(now, refs)],
                sign=[int(np.sign(a)) if math.isfinite(a) else -1 for a in vals])


def kept_record(model, P, ref, Pint, refint):
    """model.pdf with ONE point per call (row vector, list, (1, n_dim) array, int list); whatever a call
    returns is kept exactly as returned -- not copied, not indexed, not converted to float -- until every
    point of every spelling has been evaluated, as a caller does who collects [model.pdf(p) for p in points].
    rel = deviation of the kept values read at the end, relnow = of a float taken right after the call"""
    rec = dict(kind="pdf", exc="", kinds=[])
    held = []
    try:
        with warnings.catch_warnings():
            warnings.simplefilter("ignore")
            for name, spell, isint in KEPT_SPELLINGS:
                src, rf = (Pint, refint) if isint else (P, ref)
                objs, now = [], []
                for k in range(len(src)):
                    objs.append(model.pdf(spell(src[k])))
                    now.append(float(np.asarray(objs[-1], dtype=float).reshape(-1)[0]))
                held.append((name, isint, objs, rf, now))
            for name, isint, objs, rf, now in held:
                rec["kinds"].append(_read_kept(name, isint, objs, rf, now))
    except Exception as e:  # noqa
        rec["exc"] = f"kept: {type(e).__name__}: {e}"[:200]
    return rec


def kept_interleaved_task(c):
    """three single-point pdf calls (row vector, list, (1, n_dim) array) whose results are kept, with a
    marginal_pdf / marginal_cdf / cdf call on the same model between the first and the second (and, for the
    fast marginal_pdf, after the third): those evaluate the joint density point by point themselves.  The
    kept values are read at the end; the interleaved call is judged as the integral it is."""
    model = get_model(c)
    other = get_model(c)                      # point selection and references on a separate object
    pc = Pieces(other)
    P = np.array([point_at(pc, lv) for lv in c["levels"]], dtype=float)
    ref = ref_product(other, P)
    what, dim = c["what"], 1
    t0 = time.time()
    rec = dict(kind="pdf", exc="", kinds=[])
    out = []

    def between(x):
        if what == "cdf":
            return float(np.asarray(model.cdf([list(x)])).reshape(-1)[0]), pc.joint_cdf(list(x))
        val = float(np.asarray(getattr(model, what)(np.array([x[dim]]), dim)).reshape(-1)[0])
        return val, pc.marginal(dim, float(x[dim]), what == "marginal_cdf")
    try:
        with warnings.catch_warnings():
            warnings.simplefilter("ignore")
            objs, now, ints = [], [], []
            for k, (name, spell, isint) in enumerate(KEPT_SPELLINGS[:3]):
                objs.append(model.pdf(spell(P[k])))
                now.append(float(np.asarray(objs[-1], dtype=float).reshape(-1)[0]))
                if k == 0 or (k == 2 and what == "marginal_pdf"):
                    ints.append(between(P[(k + 1) % 3]))
            for k, (name, spell, isint) in enumerate(KEPT_SPELLINGS[:3]):
                rec["kinds"].append(_read_kept(f"{name} then {what}", False, [objs[k]], ref[k:k + 1], now[k:k + 1]))
        for val, rf in ints:
            out.append(dict(rec=_int_rec(what, val, rf), key=f"{what} dim={dim} between kept single-point pdf calls {model_key(c)}",
                            nontrivial=rf > 0, case=c))
    except Machinery:
        raise
    except Exception as e:  # noqa
        rec["exc"] = f"kept/{what}: {type(e).__name__}: {e}"[:200]
    out.insert(0, dict(rec=rec, key=f"pdf-kept single points with {what} in between levels={c['levels']} {model_key(c)}",
                       nontrivial=len({float(v) for v in ref if v > 0}) >= 2, case=c, kept="pdf-kept/interleaved",
                       secs=round(time.time() - t0, 1)))
    return out


def boundary_description(rng, variant):
    """parent whose density is exactly 0 below its location / at 0, child whose conditional density is
    unbounded at 0 (Weibull shape < 1, exponentiated Weibull beta*delta < 1, generalized gamma m*c < 1)"""
    parent = [{"family": "weibull", "params": {"alpha": float(rng.uniform(1, 3)), "beta": float(rng.uniform(1.2, 2.5)),
                                                "gamma": float(rng.uniform(0.3, 1.0))}},
              {"family": "lognormal", "params": {"mu": float(rng.uniform(0, 1)), "sigma": float(rng.uniform(0.2, 0.6))}},
              {"family": "expweibull", "params": {"alpha": float(rng.uniform(1, 3)), "beta": float(rng.uniform(1.5, 2.5)),
                                                   "delta": 1.0}}][variant % 3]
    child = [{"family": "weibull", "fixed": {"gamma": 0.0},
              "deps": {"alpha": ["abslinear", [1.0, 0.5]], "beta": ["abslinear", [float(rng.uniform(0.4, 0.6)), 0.1]]}},
             {"family": "expweibull", "fixed": {"delta": 1.0},
              "deps": {"alpha": ["abslinear", [1.0, 0.3]], "beta": ["asym3", [float(rng.uniform(0.4, 0.6)), 0.3, 1.0]]}},
             {"family": "gengamma", "fixed": {},
              "deps": {"m": ["const", [float(rng.uniform(0.3, 0.6))]], "c": ["const", [float(rng.uniform(0.8, 1.4))]],
                       "lambda_": ["asym3", [0.6, 0.8, 0.7]]}},
             {"family": "expweibull", "fixed": {},
              "deps": {"alpha": ["const", [1.5]], "beta": ["const", [float(rng.uniform(0.5, 0.9))]],
                       "delta": ["exp3", [float(rng.uniform(0.3, 0.6)), 0.3, 0.5]]}}][(variant // 3) % 4]
    dims = [parent, child]
    if variant % 2:
        dims.append({"family": "lognormal", "fixed": {"sigma": 0.4}, "deps": {"mu": ["loglinear", [0.2, 0.3]]}})
    n = len(dims)
    return {"n_dim": n, "cond": [None, 0] + ([1] if n == 3 else []), "families": [d["family"] for d in dims],
            "shapes": [0] + [4] * (n - 1), "dims": dims}


def pdf_boundary_task(c):
    """points where the conditioning coordinate has density exactly 0 and the conditional density is
    unbounded: the joint density is 0 (not nan), in every input kind"""
    vc = import_virocon()
    desc = c["desc"]
    model = M.from_description(vc, desc)
    n = desc["n_dim"]
    g = desc["dims"][0]["params"].get("gamma", 0.0)
    tail = [1.3] * (n - 2)
    P = np.array([[0.4 * g, 0.0] + tail, [0.0, 0.0] + tail, [0.4 * g, 1.0] + tail, [0.0, 2.0] + tail], dtype=float)
    Pint = np.zeros((2, n), dtype=np.int64)
    Pint[:, 2:] = 1
    Pint[1, 1] = 1
    ref = ref_product(model, P)
    refint = ref_product(model, Pint.astype(float))
    calls = [("float_row", lambda: model.pdf(np.array(P[0])), ref[:1], False),
             ("float_list", lambda: model.pdf([float(v) for v in P[1]]), ref[1:2], False),
             ("array", lambda: model.pdf(P), ref, False),
             ("fortran_array", lambda: model.pdf(np.asfortranarray(P)), ref, False),
             ("int_list", lambda: model.pdf([int(v) for v in Pint[0]]), refint[:1], True),
             ("int_array", lambda: model.pdf(Pint), refint, True)]
    rec = dict(kind="pdf", exc="", kinds=[])
    for name, call, rf, isint in calls:
        try:
            with warnings.catch_warnings():
                warnings.simplefilter("ignore")
                val = np.asarray(call())
        except Exception as e:  # noqa
            rec["exc"] = f"{name}: {type(e).__name__}: {e}"[:200]
            break
        shapeok = val.ndim == 1 and val.shape[0] == len(rf)
        v = np.asarray(val, dtype=float).reshape(-1)
        rec["kinds"].append(dict(kind=name, n=len(rf), isint=isint, shapeok=bool(shapeok),
                                 rel=[rel15(float(a), float(b)) for a, b in zip(v, rf)] if shapeok else [],
                                 sign=[int(np.sign(a)) if math.isfinite(a) else -1 for a in v]))
    # non-trivial: at least one point really has a zero factor next to an unbounded one
    with warnings.catch_warnings():
        warnings.simplefilter("ignore")
        f1 = np.asarray(model.distributions[1].pdf(P[:2, 1], given=P[:2, 0]), dtype=float)
    fams = ",".join(desc["families"])
    return [dict(rec=rec, key=f"pdf-boundary zero-times-unbounded n_dim={n} families={fams} seed={c['seed']}",
                 nontrivial=bool(np.any(np.isinf(f1)) and np.all(ref[:2] == 0)), case=c, boundary=True)]


# ---- integral records ----------------------------------------------------------------------

def _int_rec(what, val, ref, isint=False, exc=""):
    sc = 1e8 if what == "marginal_pdf" else 1e9
    return dict(kind="integral", what=what, isint=isint, exc=exc,
                val=Qc(val, sc, -BIG, BIG), ref=Qc(ref, sc, -BIG, BIG))


def integral_task(c):
    """one call of model.cdf / marginal_pdf / marginal_cdf (+ reference).  c['what'] selects."""
    model = get_model(c)
    pc = Pieces(model)
    what, dim = c["what"], c.get("dim")
    t0 = time.time()
    x = point_at(pc, c["levels"])
    isint = bool(c.get("isint"))
    if isint:
        x = [float(max(1, round(v))) for v in x]
    try:
        with warnings.catch_warnings():
            warnings.simplefilter("ignore")
            if what == "cdf":
                arg = [[int(v) for v in x]] if isint else [x]
                val = float(np.asarray(model.cdf(arg)).reshape(-1)[0])
                ref = pc.joint_cdf(x)
            elif what in ("marginal_pdf", "marginal_cdf"):
                arg = np.array([int(x[dim])]) if isint else np.array([x[dim]])
                val = float(np.asarray(getattr(model, what)(arg, dim)).reshape(-1)[0])
                ref = pc.marginal(dim, x[dim], what == "marginal_cdf")
            elif what == "mass":
                # far corner: per dimension a value whose reference marginal cdf is >= 1 - 1e-8
                xb = point_at(pc, [1 - 1e-9] * model.n_dim)

                def far(d):
                    v = xb[d]
                    while pc.marginal(d, v, True) < 1 - 1e-8 and v < 1e6:
                        v *= 1.5
                    return v
                if dim is None:
                    corner = [far(d) for d in range(model.n_dim)]
                    val = float(np.asarray(model.cdf([corner])).reshape(-1)[0])
                    ref = pc.joint_cdf(corner)
                else:
                    v = far(dim)
                    val = float(np.asarray(model.marginal_cdf(np.array([v]), dim)).reshape(-1)[0])
                    ref = pc.marginal(dim, v, True)
            else:
                raise Machinery(what)
        rec = _int_rec(what, val, ref, isint)
    except Machinery:
        raise
    except Exception as e:  # noqa
        rec = _int_rec(what, 0, 0, isint, exc=f"{type(e).__name__}: {e}"[:200])
    key = (f"{what}{'' if dim is None else ' dim=%d' % dim}{' int-input' if isint else ''} "
           + ("" if c.get("named") else f"levels={c['levels']} ") + model_key(c))
    return [dict(rec=rec, key=key, nontrivial=rec["ref"] > 0, case=c, secs=round(time.time() - t0, 1))]


def icdf_task(c):
    """marginal_icdf(p, dim): Monte-Carlo quantile for a conditional dimension, exact otherwise"""
    model = get_model(c)
    pc = Pieces(model)
    dim = c["dim"]
    ps = c["ps"]
    np.random.seed(c["seed"] % (2**32 - 1))      # marginal_icdf draws from the global stream
    out = []
    with warnings.catch_warnings():
        warnings.simplefilter("ignore")
        xs = np.asarray(model.marginal_icdf(ps, dim), dtype=float).reshape(-1)
    conditional = model.conditional_on[dim] is not None
    p_small = min(min(ps), 1 - max(ps))
    n = max(int((1 / p_small) * 100), 100000) if conditional else 0
    for p, xv in zip(ps, xs):
        F = pc.marginal(dim, float(xv), True)
        rec = dict(kind="icdf", p=Q(p, 1e9), F=Qc(F, 1e9, -BIG, BIG), n=n)
        out.append(dict(rec=rec, key=f"marginal_icdf dim={dim} p={p} " + model_key(c), nontrivial=conditional, case=c))
    if c.get("with_model_cdf"):
        # the model's own marginal_cdf at the returned quantile (slow: nquad)
        xv = float(xs[len(xs) // 2])
        with warnings.catch_warnings():
            warnings.simplefilter("ignore")
            Fm = float(np.asarray(model.marginal_cdf(np.array([xv]), dim)).reshape(-1)[0])
        rec = dict(kind="icdf", p=Q(ps[len(xs) // 2], 1e9), F=Qc(Fm, 1e9, -BIG, BIG), n=n)
        out.append(dict(rec=rec, key=f"marginal_cdf(marginal_icdf) dim={dim} p={ps[len(xs) // 2]} " + model_key(c),
                        nontrivial=conditional, case=c))
    return out


# ---- marginal_icdf along a history: query, change the model, query again -------------------

def _p3(x, a=0.1, b=1.489, c=0.1901):
    return a + b * x ** c


def _e3(x, a=0.04, b=0.1748, c=-0.2243):
    return a + b * np.exp(c * x)


def _seastate_model(vc):
    """Hs-Tz structure of the predefined DNVGL model (fit-capable dependence functions)"""
    bounds = [(0, None), (0, None), (None, None)]
    return vc.GlobalHierarchicalModel([
        {"distribution": vc.WeibullDistribution(alpha=2.776, beta=1.471, f_gamma=0.0)},
        {"distribution": vc.LogNormalDistribution(), "conditional_on": 0,
         "parameters": {"mu": vc.DependenceFunction(_p3, bounds), "sigma": vc.DependenceFunction(_e3, bounds)}}])


def _change_parameters(model):
    """edit the parameters in place: parent scale x1.6, first coefficient of every dependence
    function of the conditional dimensions x1.25 (all stay admissible)"""
    d0 = model.distributions[0]
    fam = model._verif["dims"][0]["family"]
    if fam in ("weibull", "expweibull"):
        d0.alpha = d0.alpha * 1.6
    elif fam == "lognormal":
        d0.mu = d0.mu + 0.47
    elif fam == "gengamma":
        d0.lambda_ = d0.lambda_ / 1.6
    elif fam == "lognormfit":
        d0.mu_norm, d0.sigma_norm = d0.mu_norm * 1.6, d0.sigma_norm * 1.6
    for i in range(1, model.n_dim):
        if model.conditional_on[i] is None:
            continue
        for dep in model.distributions[i].conditional_parameters.values():
            pars = dict(dep.parameters)
            k0 = next(iter(pars))
            pars[k0] = pars[k0] * 1.25
            dep.parameters = pars


def icdf_history_task(c):
    """marginal_cdf(marginal_icdf(p)) = p must hold for the CURRENT parameters after every change
    of the model object (parameters edited in place, or the model re-fitted to other data)."""
    vc = import_virocon()
    dim, ps = c["dim"], c["ps"]
    out = []
    if c["how"] == "refit":
        truth = _seastate_model(vc)
        data_a = truth.draw_sample(20000, random_state=c["seed"])
        data_b = truth.draw_sample(20000, random_state=c["seed"] + 1) * np.array([0.5, 1.6])
        model = _seastate_model(vc)
        with warnings.catch_warnings():
            warnings.simplefilter("ignore")
            model.fit(data_a)
        name = "named=seastate-weibull-lognormal"
    else:
        model = get_model(c)
        name = model_key(c)
    conditional = model.conditional_on[dim] is not None
    p_small = min(min(ps), 1 - max(ps))
    n = max(int((1 / p_small) * 100), 100000) if conditional else 0
    radius9 = int(1e9 * math.sqrt(28.324 / (2 * max(n, 1)))) if n else 1000
    x_prev = None
    for phase in ("first-query", "after-" + c["how"]):
        if phase != "first-query":
            with warnings.catch_warnings():
                warnings.simplefilter("ignore")
                if c["how"] == "refit":
                    model.fit(data_b)
                else:
                    _change_parameters(model)
        pc = Pieces(model)                      # reads the model's current distributions
        np.random.seed((c["seed"] + len(phase)) % (2**32 - 1))
        with warnings.catch_warnings():
            warnings.simplefilter("ignore")
            xs = np.asarray(model.marginal_icdf(ps, dim), dtype=float).reshape(-1)
        for k, (p, xv) in enumerate(zip(ps, xs)):
            F = pc.marginal(dim, float(xv), True)
            moved = True
            if x_prev is not None:      # non-trivial: the old quantile is no longer the p-quantile
                moved = abs(pc.marginal(dim, float(x_prev[k]), True) - p) * 1e9 > 3 * radius9
            rec = dict(kind="icdf", p=Q(p, 1e9), F=Qc(F, 1e9, -BIG, BIG), n=n)
            out.append(dict(rec=rec, key=f"marginal_icdf history={phase} dim={dim} p={p} {name}",
                            nontrivial=conditional and moved, case=c, history=phase))
        x_prev = xs
    return out


# ---- evaluation histories: evaluate, modify the model object in place, evaluate again ----------

def _evaluate(model, fresh, pts, v, with_cdf):
    """the same evaluations on the model under test (single points FIRST and LAST, arrays in between)
    and on a freshly constructed model with the same parameters; references from the current objects
    (array calls with >= 2 rows) and from quadrature over the fresh objects"""
    P = np.asarray(pts, dtype=float)
    with warnings.catch_warnings():
        warnings.simplefilter("ignore")
        vals = [float(np.asarray(model.pdf([float(t) for t in P[0]])).reshape(-1)[0])]     # single point, list
        vals.append(float(np.asarray(model.pdf(np.array(P[1]))).reshape(-1)[0]))            # single point, row
        vals.extend(float(t) for t in np.asarray(model.pdf(P)).reshape(-1))                  # array
        ints = []
        mp1 = float(np.asarray(model.marginal_pdf(np.array([v[0]]), 1)).reshape(-1)[0])
        mp2 = np.asarray(model.marginal_pdf(np.array(v), 1), dtype=float).reshape(-1)
        cd = float(np.asarray(model.cdf([list(P[0])])).reshape(-1)[0]) if with_cdf else None
        # reference: factorised product from the model's CURRENT objects (arrays, declared structure);
        # computed BEFORE the last call so that the single-point call is the last thing the objects saw
        ref = ref_product_flushed(model, P)
        refs = [ref[0], ref[1]] + list(ref) + [ref[0]]
        vals.append(float(np.asarray(model.pdf([float(t) for t in P[0]])).reshape(-1)[0]))  # single point again (last)
        # a freshly constructed model with the same current parameters
        fv = [float(np.asarray(fresh.pdf([float(t) for t in P[0]])).reshape(-1)[0]),
              float(np.asarray(fresh.pdf(np.array(P[1]))).reshape(-1)[0])]
        fv.extend(float(t) for t in np.asarray(fresh.pdf(P)).reshape(-1))
        fv.append(fv[0])
        pcf = Pieces(fresh)
        fm2 = np.asarray(fresh.marginal_pdf(np.array(v), 1), dtype=float).reshape(-1)
        ints.append(dict(what="marginal_pdf", val=Qc(mp1, 1e8, -BIG, BIG), ref=Qc(pcf.marginal(1, v[0], False), 1e8, -BIG, BIG),
                         fresh=Qc(fm2[0], 1e8, -BIG, BIG)))
        for k in range(len(v)):
            ints.append(dict(what="marginal_pdf", val=Qc(mp2[k], 1e8, -BIG, BIG),
                             ref=Qc(pcf.marginal(1, v[k], False), 1e8, -BIG, BIG), fresh=Qc(fm2[k], 1e8, -BIG, BIG)))
        if with_cdf:
            fc = float(np.asarray(fresh.cdf([list(P[0])])).reshape(-1)[0])
            ints.append(dict(what="cdf", val=Qc(cd, 1e9, -BIG, BIG), ref=Qc(pcf.joint_cdf(list(P[0])), 1e9, -BIG, BIG),
                             fresh=Qc(fc, 1e9, -BIG, BIG)))
    return dict(pdfrel=[rel15(a, float(b)) for a, b in zip(vals, refs)],
                freshrel=[rel15(a, float(b)) for a, b in zip(vals, fv)], ints=ints), float(ref[0])


def refill_history_task(c):
    """evaluate with an ndarray of points -> overwrite the SAME array object in place with other points
    (x[:] = ..., only the conditioning column x[:, 0] = ..., np.copyto) -> evaluate again with that same
    object.  Every value must be the factorised product for the CURRENT content and the value of a
    fresh model; C- and F-ordered buffers, single-point rows that are views of the buffer."""
    vc = import_virocon()
    desc = M.describe(np.random.default_rng(c["seed"]), c["n_dim"], c["cond"], c["families"], c["sh"],
                      spec=M.SPEC_SMOOTH)
    model = M.from_description(vc, desc)
    fresh = M.from_description(vc, desc)
    pcs = Pieces(M.from_description(vc, desc))
    A = np.array([point_at(pcs, lv) for lv in c["levels"]], dtype=float)
    B = np.array([point_at(pcs, lv) for lv in c["levels_b"]], dtype=float)
    X = np.array(A, order=c["order"])                  # the caller's buffer
    xm = np.array([A[0][1], A[1][1]])                  # buffer of marginal_pdf arguments
    out = []

    def phase(first_last):
        with warnings.catch_warnings():
            warnings.simplefilter("ignore")
            vals = [float(t) for t in np.asarray(model.pdf(X)).reshape(-1)]             # the buffer itself
            vals.append(float(np.asarray(model.pdf(X[1])).reshape(-1)[0]))                 # a row view of it
            vals.append(float(np.asarray(model.pdf(X[2:3])).reshape(-1)[0]))               # a one-row slice view
            with_marg = model.n_dim == 2          # (a 3-D marginal_pdf is two nested nquad levels: too slow here)
            mp = np.asarray(model.marginal_pdf(xm, 1), dtype=float).reshape(-1) if with_marg else []
            cur = np.array(X, copy=True)
            ref = ref_product_flushed(model, cur)
            refs = list(ref) + [ref[1], ref[2]]
            fv = [float(t) for t in np.asarray(fresh.pdf(cur.copy())).reshape(-1)]
            fv += [fv[1], fv[2]]
            pcf = Pieces(fresh)
            fm = np.asarray(fresh.marginal_pdf(xm.copy(), 1), dtype=float).reshape(-1) if with_marg else []
            ints = [dict(what="marginal_pdf", val=Qc(mp[k], 1e8, -BIG, BIG),
                         ref=Qc(pcf.marginal(1, float(xm[k]), False), 1e8, -BIG, BIG), fresh=Qc(fm[k], 1e8, -BIG, BIG))
                    for k in range(len(mp))]
            if first_last:
                model.pdf(X)            # the buffer is the last thing the objects have seen
        return dict(kind="history", exc="", pdfrel=[rel15(a, float(b)) for a, b in zip(vals, refs)],
                    freshrel=[rel15(a, float(b)) for a, b in zip(vals, fv)], ints=ints), ref
    how = c["how"]
    key = f"{how} order={c['order']} {model_key(c)}"
    try:
        r1, ref1 = phase(True)
        out.append(dict(rec=r1, key=f"eval-history first-evaluation (buffer) {key}", nontrivial=True, case=c,
                        history="first-evaluation"))
        if how == "refill-all":
            X[:] = B
        elif how == "refill-cond-column":
            X[:, 0] = B[:, 0]
        else:
            np.copyto(X, B)
        xm[:] = [B[0][1], B[1][1]]
        r2, ref2 = phase(False)
        moved = bool(np.any(np.abs(ref2 - ref1) > 1e-3 * np.abs(ref1)))
        out.append(dict(rec=r2, key=f"eval-history evaluation-after-{key}", nontrivial=moved, case=c,
                        history="after-refill"))
    except Machinery:
        raise
    except Exception as e:  # noqa
        out.append(dict(rec=dict(kind="history", exc=f"{type(e).__name__}: {e}"[:200], pdfrel=[], freshrel=[], ints=[]),
                        key=f"eval-history evaluation-after-{key}", nontrivial=False, case=c, history="after-refill"))
    return out


def eval_history_task(c):
    """construct -> pdf / marginal_pdf (/ cdf) at single points and arrays -> modify the model object in
    place -> the same evaluations at the same points again; judged against the CURRENT objects"""
    import copy
    vc = import_virocon()
    desc_a = M.describe(np.random.default_rng(c["seed"]), c["n_dim"], c["cond"], c["families"], c["sh"],
                        spec=M.SPEC_SMOOTH)
    model = M.from_description(vc, desc_a)
    fresh_a = M.from_description(vc, desc_a)
    pcs = Pieces(fresh_a)                      # point selection on a separate object
    pts = [point_at(pcs, lv) for lv in c["levels"]]
    v = [pts[0][1], pts[1][1]]
    out = []
    how = c["how"]
    what = how + (f"[{c['entry']}]->{c['families_b'][c['entry']]}" if how == "replace-entry" else "")
    try:
        r1, ref_before = _evaluate(model, fresh_a, pts, v, c.get("with_cdf"))
        out.append(dict(rec=dict(kind="history", exc="", **r1), key=f"eval-history first-evaluation {model_key(c)}",
                        nontrivial=True, case=c, history="first-evaluation"))
        with warnings.catch_warnings():
            warnings.simplefilter("ignore")
            desc_now = None
            if how == "dep-parameters":        # dep.parameters["a"] = ... (item assignment on the dict)
                for i in range(1, model.n_dim):
                    if model.conditional_on[i] is not None:
                        for dep in model.distributions[i].conditional_parameters.values():
                            k0 = next(iter(dep.parameters))
                            dep.parameters[k0] = dep.parameters[k0] * 1.3
            elif how == "dep-fit":             # DependenceFunction.fit called directly
                for i in range(1, model.n_dim):
                    if model.conditional_on[i] is not None:
                        for pname, dep in model.distributions[i].conditional_parameters.items():
                            kind, co = desc_a["dims"][i]["deps"][pname]
                            xs = np.linspace(0.2, 6.0, 25)
                            target = M.FUNCS[kind](xs, *([co[0] * 1.3] + list(co[1:])))
                            dep.fit(xs, np.asarray(target, dtype=float) + 0.0 * xs)
            elif how == "set-attribute":
                M.change_parameters(model)
            elif how == "replace-entry":
                k = c["entry"]
                desc_b = M.describe(np.random.default_rng(c["seed"] + 5), c["n_dim"], c["cond"], c["families_b"],
                                    c["sh"], spec=M.SPEC_SMOOTH)
                model.distributions[k] = M.from_description(vc, desc_b).distributions[k]
                desc_now = copy.deepcopy(desc_a)
                desc_now["dims"][k] = copy.deepcopy(desc_b["dims"][k])
                desc_now["families"][k] = desc_b["families"][k]
                desc_now["shapes"][k] = desc_b["shapes"][k]
            if desc_now is None:
                desc_now = M.current_description(model, desc_a)
        fresh_b = M.from_description(vc, desc_now)
        r2, ref_after = _evaluate(model, fresh_b, pts, v, c.get("with_cdf"))
        moved = ref_before > 0 and abs(ref_after - ref_before) > 1e-3 * ref_before
        out.append(dict(rec=dict(kind="history", exc="", **r2),
                        key=f"eval-history evaluation-after-{what} {model_key(c)}", nontrivial=bool(moved), case=c,
                        history="after-modification"))
    except Machinery:
        raise
    except Exception as e:  # noqa
        if how == "dep-fit" and out:        # a failing curve fit is not the subject of this property
            return out
        out.append(dict(rec=dict(kind="history", exc=f"{type(e).__name__}: {e}"[:200], pdfrel=[], freshrel=[], ints=[]),
                        key=f"eval-history evaluation-after-{what} {model_key(c)}", nontrivial=False, case=c,
                        history="after-modification"))
    return out


# ---- a variable addressed from the end (negative dim) or by a numpy integer ---------------------

def dim_alias_task(c):
    """marginal_pdf / marginal_cdf / marginal_icdf with dim = -k (int or numpy integer) must equal the
    same call with dim = n_dim - k, and the reference marginal of that variable; an out-of-range dim
    must raise"""
    model = get_model(c)
    pc = Pieces(model)
    n_dim, k = model.n_dim, c["k"]
    pos = n_dim - k
    x = point_at(pc, c["levels"])
    v = x[pos]
    out = []
    t0 = time.time()
    for what in c["whats"]:
        for label, neg in (("int", -k), ("numpy-int64", np.int64(-k)), ("numpy-int64-nonneg", np.int64(pos))):
            if label != "int" and not c.get("numpy_too"):
                continue
            rec = dict(kind="alias", what=what, exc="", val=0, same=0, ref=0, raised=True)
            try:
                with warnings.catch_warnings():
                    warnings.simplefilter("ignore")
                    if what == "marginal_icdf":
                        np.random.seed(c["seed"] % (2**32 - 1))
                        a = float(np.asarray(model.marginal_icdf(np.array([0.5]), neg)).reshape(-1)[0])
                        np.random.seed(c["seed"] % (2**32 - 1))
                        b = float(np.asarray(model.marginal_icdf(np.array([0.5]), pos)).reshape(-1)[0])
                        # compare in probability: F(x) of both quantiles (scale 1e9)
                        rec.update(val=Qc(pc.marginal(pos, a, True), 1e9, -BIG, BIG),
                                   same=Qc(pc.marginal(pos, b, True), 1e9, -BIG, BIG))
                        rec["ref"] = rec["same"]
                    else:
                        sc = 1e8 if what == "marginal_pdf" else 1e9
                        a = float(np.asarray(getattr(model, what)(np.array([v]), neg)).reshape(-1)[0])
                        b = float(np.asarray(getattr(model, what)(np.array([v]), pos)).reshape(-1)[0])
                        rec.update(val=Qc(a, sc, -BIG, BIG), same=Qc(b, sc, -BIG, BIG),
                                   ref=Qc(pc.marginal(pos, v, what == "marginal_cdf"), sc, -BIG, BIG))
            except Exception as e:  # noqa
                rec["exc"] = f"{type(e).__name__}: {e}"[:200]
            out.append(dict(rec=rec, key=f"{what} dim={-k} ({label}) of n_dim={n_dim} levels={c['levels']} " + model_key(c),
                            nontrivial=rec["ref"] > 0 and model.conditional_on[pos] is not None, case=c,
                            secs=round(time.time() - t0, 1)))
    if c.get("out_of_range"):
        for what in ("marginal_pdf", "marginal_cdf", "marginal_icdf"):
            for bad in (n_dim, -n_dim - 1):
                rec = dict(kind="alias", what=what + "-out-of-range", exc="", val=0, same=0, ref=0, raised=False)
                try:
                    with warnings.catch_warnings():
                        warnings.simplefilter("ignore")
                        arg = np.array([0.5]) if what == "marginal_icdf" else np.array([v])
                        getattr(model, what)(arg, bad)
                except (IndexError, ValueError):
                    rec["raised"] = True
                except Exception as e:  # noqa
                    rec["exc"] = f"{type(e).__name__}: {e}"[:200]
                out.append(dict(rec=rec, key=f"{what} dim={bad} out of range of n_dim={n_dim}", nontrivial=True, case=c))
    return out


def run_task(c):
    return {"kept_interleaved": kept_interleaved_task, "pdf_boundary": pdf_boundary_task, "refill_history": refill_history_task, "dim_alias": dim_alias_task, "eval_history": eval_history_task, "pdf": pdf_task, "integral": integral_task, "icdf": icdf_task,
            "icdf_history": icdf_history_task}[c["task"]](c)


# ---- case selection ------------------------------------------------------------------------

def make_tasks(ctx, cfgs):
    rng = np.random.default_rng(ctx.seed + 6)
    fam_i = ctx.seed

    def fams(n):
        nonlocal fam_i
        out = []
        for _ in range(n):
            out.append(M.NONNEG[fam_i % len(M.NONNEG)])
            fam_i += int(rng.integers(1, 3))
        return out

    def base(cfg, smooth=False):
        return dict(n_dim=cfg["n_dim"], cond=cfg["cond"], sh=cfg["sh"], families=fams(cfg["n_dim"]),
                    seed=int(rng.integers(1, 2**31 - 1)), smooth=smooth)

    pdf_tasks, slow = [], []
    by_n = {n: [c for c in cfgs if c["n_dim"] == n] for n in (2, 3)}
    # kept=True: the same points also one at a time with every returned array kept until all are evaluated
    for rep in range(ctx.pick(4, 12)):
        for cfg in by_n[2]:
            pdf_tasks.append(dict(base(cfg), task="pdf", m=ctx.pick(9, 30), kept=(rep % 2 == 0)))
    for rep in range(ctx.pick(1, 3)):
        for idx, cfg in enumerate(by_n[3]):
            pdf_tasks.append(dict(base(cfg), task="pdf", m=ctx.pick(9, 30), kept=((idx + rep + ctx.seed) % ctx.pick(4, 2) == 0)))
    for j in range(ctx.pick(24, 96)):
        sd = int(rng.integers(1, 2**31 - 1))
        d_ = boundary_description(np.random.default_rng(sd), j)
        pdf_tasks.append(dict(task="pdf_boundary", n_dim=d_["n_dim"], cond=d_["cond"], sh=d_["shapes"],
                              families=d_["families"], seed=sd, desc=d_))
    # integrals: smooth densities; conditional structures with a real dependence (shape 2..4)
    cond2 = [c for c in by_n[2] if c["cond"][1] == 0 and c["sh"][1] != 1]
    ind2 = [c for c in by_n[2] if c["cond"][1] is None]
    lv2 = [[0.5, 0.5], [0.9, 0.2], [0.3, 0.95], [0.999, 0.99], [0.05, 0.6]]
    n2 = ctx.pick(5, 20)
    for k in range(n2):
        cfg = cond2[(k + ctx.seed) % len(cond2)] if k % 4 != 3 else ind2[k % len(ind2)]
        b = base(cfg, smooth=True)
        npts = ctx.pick(2, 3)
        for j in range(npts):
            lv = lv2[(k + j) % len(lv2)]
            slow.append(dict(b, task="integral", what="cdf", levels=lv))
            slow.append(dict(b, task="integral", what="marginal_cdf", dim=1, levels=lv))
            slow.append(dict(b, task="integral", what="marginal_pdf", dim=1, levels=lv))
        lv = lv2[k % len(lv2)]
        slow.append(dict(b, task="integral", what="marginal_pdf", dim=1, levels=lv, isint=True))
        slow.append(dict(b, task="integral", what="marginal_cdf", dim=1, levels=lv, isint=True))
        slow.append(dict(b, task="integral", what="marginal_pdf", dim=0, levels=lv))
        if k % 2 == 0:
            slow.append(dict(b, task="integral", what="cdf", levels=lv, isint=True))
        if k % 2 == 0 and (k == 0 or not ctx.quick):      # far-corner integrals are the slowest 2-D calls
            slow.append(dict(b, task="integral", what="mass", dim=1, levels=lv))
            slow.append(dict(b, task="integral", what="mass", dim=None, levels=lv))
        slow.append(dict(b, task="icdf", dim=1, ps=[0.01, 0.5, 0.9, 0.999], with_model_cdf=(k % 3 == 0)))
        slow.append(dict(b, task="icdf", dim=0, ps=[0.01, 0.5, 0.999]))
    # 3-D: marginal_pdf of dimension 1 uses the argument order [2, 0, 1] (not its own inverse)
    c3 = [c for c in by_n[3] if c["cond"][1] == 0 and c["cond"][2] is not None and 1 not in c["sh"][1:]]
    n3 = ctx.pick(2, 10)
    for k in range(n3):
        cfg = c3[(k * 7 + ctx.seed) % len(c3)]
        b = base(cfg, smooth=True)
        lv = [[0.5, 0.6, 0.4], [0.8, 0.3, 0.7], [0.2, 0.9, 0.5]][k % 3]
        slow.append(dict(b, task="integral", what="marginal_pdf", dim=1, levels=lv))
        slow.append(dict(b, task="integral", what="marginal_pdf", dim=2, levels=lv))
        if not ctx.quick:
            slow.append(dict(b, task="integral", what="marginal_pdf", dim=1, levels=lv, isint=True))
            slow.append(dict(b, task="icdf", dim=2, ps=[0.05, 0.5, 0.99]))
            if k < 2:      # three nested levels of nquad: many minutes each, started first
                slow.append(dict(b, task="integral", what="marginal_cdf", dim=1, levels=lv, heavy=True))
                slow.append(dict(b, task="integral", what="cdf", levels=lv, heavy=True))
    # the variable addressed from the end: dim = -k (and numpy integers), 2-D and 3-D
    for j in range(ctx.pick(2, 6)):
        cfg = cond2[(j * 4 + 1 + ctx.seed) % len(cond2)]
        b = base(cfg, smooth=True)
        for kk in (1, 2):
            slow.append(dict(b, task="dim_alias", k=kk, levels=lv2[j % len(lv2)], numpy_too=(j == 0),
                             whats=["marginal_pdf", "marginal_cdf", "marginal_icdf"] if kk == 1 else ["marginal_pdf", "marginal_cdf"],
                             out_of_range=(j == 0 and kk == 1)))
    for j in range(ctx.pick(1, 3)):
        cfg = c3[(j * 11 + 3 + ctx.seed) % len(c3)]
        b = base(cfg, smooth=True)
        for kk in (1, 2, 3):
            slow.append(dict(b, task="dim_alias", k=kk, levels=[[0.5, 0.6, 0.4], [0.8, 0.3, 0.7], [0.3, 0.7, 0.6]][j],
                             whats=["marginal_pdf"] + (["marginal_icdf"] if kk == 1 else []),
                             out_of_range=(j == 0 and kk == 1)))
    # the caller's points buffer refilled in place between two evaluations
    c2d = [c_ for c_ in cond2 if c_["sh"][1] in (2, 3, 4)]
    c3d = [c_ for c_ in by_n[3] if c_["cond"][1] == 0 and c_["cond"][2] in (0, 1) and 1 not in c_["sh"][1:]]
    for k in range(ctx.pick(12, 48)):
        cfg = (c2d if k % 3 else c3d)[(k * 5 + ctx.seed) % len(c2d if k % 3 else c3d)]
        n_ = cfg["n_dim"]
        la = [[0.5, 0.5, 0.4], [0.8, 0.3, 0.6], [0.2, 0.9, 0.5], [0.95, 0.6, 0.3]]
        lb = [[0.9, 0.4, 0.6], [0.15, 0.5, 0.5], [0.6, 0.2, 0.7], [0.35, 0.8, 0.4]]
        slow.append(dict(base(cfg, smooth=True), task="refill_history",
                         how=["refill-all", "refill-cond-column", "refill-copyto"][k % 3], order="CF"[(k // 3) % 2],
                         levels=[l_[:n_] for l_ in la], levels_b=[l_[:n_] for l_ in lb]))
    # evaluation histories on one model object
    hows = ["dep-parameters", "dep-fit", "set-attribute", "replace-entry", "dep-parameters", "replace-entry"]
    for k in range(ctx.pick(12, 48)):
        cfg = cond2[(k * 3 + ctx.seed) % len(cond2)]
        b = base(cfg, smooth=True)
        t = dict(b, task="eval_history", how=hows[k % len(hows)], levels=[[0.5, 0.5], [0.8, 0.3], [0.2, 0.9], [0.95, 0.6]],
                 with_cdf=(k % 6 == 0))
        if t["how"] == "replace-entry":
            t["entry"] = (k // 3) % 2
            fb = list(b["families"])
            if (k // 6) % 2 == 0:
                fb[t["entry"]] = M.NONNEG[(M.NONNEG.index(fb[t["entry"]]) + 1 + k % 3) % len(M.NONNEG)]
            t["families_b"] = fb
        slow.append(t)
    # histories: query marginal_icdf, change the model object, query again
    for k in range(ctx.pick(4, 16)):
        cfg = cond2[(k * 5 + ctx.seed) % len(cond2)]
        slow.append(dict(base(cfg, smooth=True), task="icdf_history", how="parameter-change", dim=1,
                         ps=[0.05, 0.5, 0.95]))
    for k in range(ctx.pick(1, 3)):
        slow.append(dict(task="icdf_history", how="refit", dim=1, ps=[0.25, 0.5, 0.75], n_dim=2, cond=[None, 0],
                         sh=[0, 4], families=["weibull", "lognormal"], seed=ctx.seed + 11 + k))
    # single-point pdf results kept across a marginal_pdf / marginal_cdf / cdf call on the same model (one nquad
    # result each: a handful)
    for k in range(ctx.pick(4, 12)):
        cfg = c2d[(k * 3 + 1 + ctx.seed) % len(c2d)]
        slow.append(dict(base(cfg, smooth=True), task="kept_interleaved",
                         what=["marginal_pdf", "cdf", "marginal_pdf", "marginal_cdf"][k % 4],
                         levels=[[0.5, 0.5], [0.8, 0.3], [0.2, 0.9]] if k % 2 == 0 else [[0.9, 0.6], [0.3, 0.4], [0.6, 0.85]]))
    # named deterministic cases (stable keys)
    nb = dict(n_dim=2, cond=[None, 0], sh=[0, 2], families=["lognormal", "lognormal"], seed=0, smooth=False,
              named="narrow-conditioning-variable")
    slow.append(dict(nb, task="integral", what="marginal_pdf", dim=1, levels=[0.5, 0.5]))
    slow.append(dict(nb, task="integral", what="mass", dim=1, levels=[0.5, 0.5]))
    slow.append(dict(nb, task="integral", what="marginal_pdf", dim=1, levels=[0.5, 0.5], families=["weibull", "expweibull"],
                     sh=[0, 3], named="weibull-location-kink"))
    nb3 = dict(n_dim=3, cond=[None, 0, 0], sh=[0, 2, 3], families=["lognormfit", "weibull", "expweibull"], seed=0,
               smooth=False, named="weibull-location-grows-with-given")
    if not ctx.quick:       # one call of ~60 s
        slow.append(dict(nb3, task="integral", what="marginal_pdf", dim=2, levels=[0.8, 0.3, 0.7], heavy=True))
    # longest calls first (measured: far-corner mass 15-65 s, 3-D marginals 10-25 s, 2-D cdf 10-30 s)
    cost = {"mass": 0, "cdf": 2, "marginal_cdf": 3, "marginal_pdf": 5, None: 6}
    slow.sort(key=lambda t: (-1 if t.get("heavy") else 1 if t["n_dim"] == 3 else cost.get(t.get("what"), 4)))
    # ... but one call of every kind goes first, so that a loaded machine cannot make a kind vacuous
    first, seen = [], set()
    for t in sorted(slow, key=lambda t: -cost.get(t.get("what"), 4)):
        k = (t["task"], t.get("what"), t.get("how"), bool(t.get("isint")), t["n_dim"],
             t.get("dim") if t["n_dim"] == 3 else 0)
        if k not in seen:
            seen.add(k)
            first.append(t)
    heavy = [t for t in slow if t.get("heavy")]
    first = [t for t in first if not t.get("heavy")]
    slow = heavy + first + [t for t in slow if all(t is not f for f in first + heavy)]
    return pdf_tasks, slow


# ---- judge ---------------------------------------------------------------------------------

def judge(ctx, results, label):
    recs, meta = [], []
    for outs in results:
        for o in outs or []:
            rec = dict(o["rec"])
            rec["id"] = len(recs) + 1
            recs.append(rec)
            meta.append(o)
    failing = ctx.validate("Trace_C06", "Trace_C06.cfg", recs, chunk=5000)
    for rec, o in zip(recs, meta):
        ctx.case(o["key"], nontrivial=o["nontrivial"])
        for clause in failing.get(rec["id"], []):
            if rec["kind"] == "pdf":
                bad = [(k["kind"], k["rel"][:3]) for k in rec["kinds"]
                       if (any(abs(v) > 1000 for v in k["rel"]) or not k["shapeok"])
                       and (clause != "KindsAgree" or k["isint"]) and (clause != "Factorises" or not k["isint"])]
                detail = f"exc={rec['exc']} deviating kinds (rel 1e-15): {bad[:4]}"
                key = f"{[b[0] for b in bad] or ''} {o['key']}" if clause in ("KindsAgree", "ResultShape") else o["key"]
            else:
                detail = str({k: rec[k] for k in rec if k not in ("id", "kind")})[:600]
                key = o["key"]
            ctx.violation(clause, key, detail, replay=o["case"])
    ctx.log(f"{label}: {len(recs)} records judged, {sum(1 for r in recs if r['id'] in failing)} rejected")
    return recs, meta, failing


def selftest(ctx, recs, failing):
    import copy
    good_pdf = next((r for r in recs if r["kind"] == "pdf" and r["id"] not in failing and not r["exc"]), None)
    if good_pdf is None:
        raise Machinery("selftest: no accepted pdf record")
    good_int = {w: next((r for r in recs if r["kind"] == "integral" and r["what"] == w and not r["isint"]
                         and r["id"] not in failing and r["ref"] > 1000), None)
                for w in ("cdf", "marginal_pdf", "mass")}
    muts = []
    g = copy.deepcopy(good_pdf); g["kinds"][2]["rel"][0] = 5000; muts.append(("Factorises", g))
    g = copy.deepcopy(good_pdf); k = next(k for k in g["kinds"] if k["isint"]); k["rel"][0] = -BIG; muts.append(("KindsAgree", g))
    g = copy.deepcopy(good_pdf); g["kinds"][2]["sign"][0] = -1; muts.append(("NonNeg", g))
    g = copy.deepcopy(good_pdf); g["kinds"][0]["shapeok"] = False; muts.append(("ResultShape", g))
    good_kept = next((r for r in recs if r["kind"] == "pdf" and r["id"] not in failing and not r["exc"]
                      and r["kinds"][0]["kind"] == "kept_float_row" and len(r["kinds"][0]["rel"]) >= 2), None)
    if good_kept is None:
        raise Machinery("selftest: no accepted record of kept single-point results")
    # every kept value has become the density of the point evaluated last
    g = copy.deepcopy(good_kept); g["kinds"][0]["rel"][0] = 731000000; muts.append(("Factorises", g))
    g = copy.deepcopy(good_kept); g["kinds"][3]["rel"][0] = -BIG; muts.append(("KindsAgree", g))
    if good_int["cdf"]:
        g = copy.deepcopy(good_int["cdf"]); g["val"] += 5000; muts.append(("CdfMatches", g))
        g = copy.deepcopy(good_int["cdf"]); g["val"] = 0; g["isint"] = True; muts.append(("KindsAgree", g))
    if good_int["marginal_pdf"]:
        g = copy.deepcopy(good_int["marginal_pdf"]); g["val"] += 5000 + g["ref"] // 100; muts.append(("MarginalsMatch", g))
    if good_int["mass"]:
        g = copy.deepcopy(good_int["mass"]); g["val"] -= 100000; muts.append(("NormalisedToOne", g))
    gh = dict(kind="history", exc="", pdfrel=[0, 3, -2], freshrel=[0, 0, 0],
              ints=[dict(what="marginal_pdf", val=30000000, ref=30000010, fresh=30000000),
                    dict(what="cdf", val=300000000, ref=300000100, fresh=300000000)])
    g = copy.deepcopy(gh); g["pdfrel"][0] = -600000000; muts.append(("Factorises", g))
    g = copy.deepcopy(gh); g["freshrel"][2] = 5000; muts.append(("SameAsFreshModel", g))
    g = copy.deepcopy(gh); g["ints"][0]["fresh"] += 5000; muts.append(("SameAsFreshModel", g))
    g = copy.deepcopy(gh); g["ints"][0]["val"] += 5000; g["ints"][0]["fresh"] += 5000; muts.append(("MarginalsMatch", g))
    g = copy.deepcopy(gh); g["ints"][1]["val"] += 5000; g["ints"][1]["fresh"] += 5000; muts.append(("CdfMatches", g))
    ga = dict(kind="alias", what="marginal_cdf", exc="", val=440570000, same=440570000, ref=440570100, raised=True)
    g = dict(ga, val=980700000); muts.append(("DimAliasesAgree", g))
    g = dict(ga, val=980700000, same=980700000); muts.append(("MarginalsMatch", g))
    muts.append(("OutOfRangeDimRejected", dict(ga, what="marginal_pdf-out-of-range", raised=False)))
    muts.append(("IcdfInvertsCdf", dict(kind="icdf", p=500000000, F=520000000, n=100000)))
    muts.append(("IcdfInvertsCdf", dict(kind="icdf", p=500000000, F=500002000, n=0)))
    accept = dict(kind="icdf", p=500000000, F=510000000, n=100000, id=len(muts) + 1)   # inside the DKW radius
    sr = []
    for i, (cl, r) in enumerate(muts):
        r["id"] = i + 1
        sr.append(r)
    accept["id"] = len(muts) + 1
    gh["id"] = len(muts) + 2
    ga["id"] = len(muts) + 3
    t = ctx.traces
    f2 = ctx.validate("Trace_C06", "Trace_C06.cfg", sr + [accept, gh, ga])
    if ga["id"] in f2:
        raise Machinery(f"selftest: a conforming alias record was rejected: {f2[ga['id']]}")
    if gh["id"] in f2:
        raise Machinery(f"selftest: a conforming history record was rejected: {f2[gh['id']]}")
    ctx.traces = t
    for cl, r in muts:
        if cl not in f2.get(r["id"], []):
            raise Machinery(f"selftest: corrupted record not rejected by {cl}: {f2.get(r['id'])}")
    if accept["id"] in f2:
        raise Machinery("selftest: a deviation inside the DKW radius was rejected")
    ctx.log(f"selftest: {len(muts)} corrupted records rejected by their clauses")


def run(ctx):
    import_virocon()
    ctx.rule = ("configurations (n_dim <= 3, structure, shape classes) enumerated by TLC from spec/Rosenblatt.tla, "
                "concretised over the 5 non-negative families with seeded admissible parameters; pdf: every configuration "
                "(2-D x4/x12, 3-D x1/x3), 9/30 points "
                "per model (bulk, tails, below support, integer-valued) in 8 input kinds; every other 2-D and every "
                "4th/2nd 3-D model also ONE POINT PER CALL (row vector, list, (1, n_dim) array, int list) with every "
                "returned array kept as returned until all points of all spellings are evaluated, and 4/12 models with a "
                "marginal_pdf / marginal_cdf / cdf call between kept single-point calls; integrals: conditional 2-D "
                "models (and independent ones) at 2-4 probability-level points, 3-D marginal_pdf of dimensions 1 "
                "and 2 (thorough also two 3-D cdf / marginal_cdf calls); marginal_pdf / marginal_cdf / marginal_icdf with the variable "
                "addressed from the end (dim = -k, python int and numpy integer; 2-D and 3-D) against the same call "
                "with dim = n_dim-k and the reference, out-of-range dims must raise; "
                "boundary points where the conditioning coordinate has density 0 "
                "(below a location, at 0) and the conditional density is unbounded at 0 (Weibull shape < 1, exponentiated "
                "Weibull beta*delta < 1, generalized gamma m*c < 1): joint density 0 in every input kind; "
                "buffer histories (model.pdf / marginal_pdf with an ndarray, the SAME array object "
                "refilled in place by x[:] = .., x[:, 0] = .. or np.copyto, C and F order, row views, evaluated again); "
                "evaluation histories on one model object (pdf at single "
                "points and arrays, marginal_pdf, cdf -> modify in place: dependence-function parameters dict, "
                "DependenceFunction.fit, parameter attributes, replaced entry of model.distributions -> the same "
                "evaluations again) judged against the factorised reference from the current objects and against a "
                "freshly constructed model; marginal_icdf histories (query, edit parameters in place or "
                "re-fit, query again) judged against the reference marginal cdf of the CURRENT parameters; "
                "distinct = distinct (call, point, model); "
                "non-trivial = reference value > 0 (pdf: and a dependence that varies with the given)")
    ctx.trusted = ["TLC evaluating spec/Trace_C06.tla", "scipy.integrate.quad as reference quadrature over the "
                   "model's own conditional pdf/cdf (break points at quantiles, epsrel 1e-11)",
                   "the model's own distributions[i].pdf/cdf/icdf as the conditional pieces (as the property states)"]
    ctx.assumptions = ["integral comparisons on RANDOM models use quadrature-friendly parameters (models.SPEC_SMOOTH): "
                       "bounded densities (Weibull beta >= 1.3 ...), no location-like parameter that grows with "
                       "the given and no Weibull location (gamma = 0); the regime outside (mass narrow relative to "
                       "its distance from 0, or a support starting inside (0, inf): integration over (0, inf) loses "
                       "mass / does not resolve the kink) is covered by the named cases of c06.NAMED",
                       "model.cdf integrates from 0: non-negative families only",
                       "integral calls that do not finish within the wall-clock budget (6x the unloaded time) are "
                       "dropped and counted in notes; what finished is judged; machinery failure only if none finished"]
    ctx.model_check("Rosenblatt", ctx.pick("MC_Rosenblatt_c06_quick.cfg", "MC_Rosenblatt_c06_thorough.cfg"),
                    must_cover=("PdfStep",), timeout=3000)
    ctx.model_check("Rosenblatt", "MC_Rosenblatt_c06_wrongcol.cfg", expect_violation="Factorises")
    ctx.model_check("Rosenblatt", "MC_Rosenblatt_c06_noinverse.cfg", expect_violation="ReorderIsInverse")
    ctx.model_check("Rosenblatt", "MC_Rosenblatt_c06_noinverse_sum.cfg", expect_violation="MarginalIsSumOverOthers")
    ctx.model_check("Rosenblatt", "MC_Rosenblatt_c06_rawnegdim.cfg", expect_violation="ReorderIsInverse")
    ctx.model_check("Rosenblatt", "MC_Rosenblatt_c06_rawnegdim_sum.cfg", expect_violation="MarginalIsSumOverOthers")
    cfgs = [c for c in M.tlc_configs(ctx, "Gen_Rosenblatt3.cfg")]
    pdf_tasks, slow = make_tasks(ctx, cfgs)
    t0 = time.time()
    res_pdf = M.pmap(run_task, pdf_tasks, workers=ctx.pick(4, 8))
    ctx.log(f"pdf: {len(pdf_tasks)} models evaluated in {time.time() - t0:.1f}s")
    t0 = time.time()
    res_slow = M.pmap_deadline(run_task, slow, workers=ctx.pick(12, 14), deadline_s=ctx.pick(300, 2700))
    dropped = sum(1 for r in res_slow if r is None)
    ctx.log(f"integrals: {len(slow)} calls, {dropped} not finished within the budget, {time.time() - t0:.1f}s")
    recs, meta, failing = judge(ctx, list(res_pdf) + [r for r in res_slow if r is not None], "pdf + integrals")
    ctx.sample({"case": meta[0]["case"], "record": {**recs[0], "kinds": recs[0].get("kinds", [])[:2]}})
    if ctx.violations:
        return          # report them; the vacuity guards below would only mask the finding
    kinds = {}
    for r, o in zip(recs, meta):
        k = r["kind"] if r["kind"] != "integral" else r["what"] + ("/int" if r["isint"] else "")
        if r["kind"] == "alias":
            k = "alias/" + r["what"]
        if o.get("history"):
            k = ("icdf/" if r["kind"] == "icdf" else "eval-history/") + o["history"]
        if o.get("kept"):
            k = o["kept"]
        kinds[k] = kinds.get(k, 0) + 1
    ctx.notes["records_by_kind"] = kinds
    ctx.notes["integral_calls_dropped_for_time"] = dropped
    # a slow machine is not a verdict: whatever finished was judged; the run only fails as machinery
    # if NOTHING finished.  Kinds that are missing because of dropped calls are recorded.
    if dropped == len(slow):
        raise Machinery(f"none of the {len(slow)} integral calls finished within the budget")
    missing = [k for k in ("pdf", "cdf", "marginal_pdf", "marginal_cdf", "mass", "icdf", "marginal_pdf/int",
                           "icdf/after-parameter-change", "icdf/after-refit", "eval-history/after-modification", "eval-history/after-refill",
                           "alias/marginal_pdf", "alias/marginal_cdf", "alias/marginal_icdf",
                           "alias/marginal_pdf-out-of-range", "pdf-kept", "pdf-kept/interleaved")
               if not kinds.get(k)]
    ctx.notes["kinds_without_a_record"] = missing
    nmoved = sum(1 for r, o in zip(recs, meta) if r["kind"] == "history" and o.get("history") == "after-modification"
                 and o["nontrivial"])
    nkept = sum(1 for o in meta if o.get("kept") == "pdf-kept" and o["nontrivial"])
    ctx.notes["models_evaluated_one_point_at_a_time_with_all_results_kept"] = nkept
    if nkept < 20:
        raise Machinery(f"vacuous: only {nkept} models were evaluated point by point with the results kept")
    nbound = sum(1 for o in meta if o.get("boundary") and o["nontrivial"])
    ctx.notes["pdf_boundary_models_with_zero_times_unbounded_points"] = nbound
    if nbound < 8:
        raise Machinery(f"vacuous: only {nbound} boundary models have a zero factor next to an unbounded one")
    nrefill = sum(1 for r, o in zip(recs, meta) if r["kind"] == "history" and o.get("history") == "after-refill"
                  and o["nontrivial"])
    ctx.notes["buffer_refill_histories"] = nrefill
    if dropped == 0 and nrefill < 6:
        raise Machinery(f"vacuous: only {nrefill} in-place buffer refills changed the densities")
    ctx.notes["evaluation_histories_whose_modification_changed_the_density"] = nmoved
    if dropped == 0 and nmoved < 6:
        raise Machinery(f"vacuous: only {nmoved} evaluation histories changed the density at the repeated point")
    if missing and dropped == 0:
        raise Machinery(f"vacuous: no record of kind {missing} although no call was dropped")
    if missing:
        ctx.log(f"machine slow: {dropped} calls dropped, no record of kind {missing} in this run")
    selftest(ctx, recs, failing)
    ctx.sample({"case": meta[0]["case"], "record": {**recs[0], "kinds": recs[0]["kinds"][:2]}})
    for pred in (lambda r: r["kind"] == "integral", lambda r: r["kind"] == "icdf" and r["n"] > 0):
        i = next((k for k, r in enumerate(recs) if pred(r)), None)
        if i is not None:
            ctx.sample({"case": meta[i]["case"], "record": recs[i]})
    ctx.exhaustive = False
    ctx.notes["slowest_integral_calls_s"] = sorted(((o.get("secs", 0), o["key"].split(" levels")[0]) for o in meta
                                                    if "secs" in o), reverse=True)[:5]


def replay(ctx, case):
    import_virocon()
    judge(ctx, [run_task(case["case"])], "replay")
