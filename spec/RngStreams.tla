----------------------------- MODULE RngStreams -----------------------------
(* Histories of draw_sample calls over the random-state values of RngStreamsOps.          *)
(* TLC explores every history of at most MaxLen draws over Objs x Ns x RsValues; the      *)
(* invariants state the reproducibility clauses of C07 about the model's predicted        *)
(* relation between samples.  With EmitHist every history is printed for replay on the    *)
(* real classes (leg R); Trace_C07 judges the observed digest pattern with the same       *)
(* clause operators.                                                                      *)
EXTENDS RngStreamsOps, Json, TLC

CONSTANTS Objs, Ns, MaxLen, Mut, EmitHist
VARIABLES st, hist, ids
vars == <<st, hist, ids>>

Init == st = InitStreams /\ hist = <<>> /\ ids = <<>>

Draw(obj, n, rs) ==
    /\ Len(hist) < MaxLen
    /\ LET d == [obj |-> obj, n |-> n, rs |-> rs] IN
         /\ ids' = Append(ids, Ident(st, d, Mut))
         /\ st' = After(st, d, Mut)
         /\ hist' = Append(hist, d)

Next == \E obj \in Objs, n \in Ns, rs \in RsValues : Draw(obj, n, rs)
Spec == Init /\ [][Next]_vars

PredEq(i, j) == Rel(ids[i], ids[j]) = "eq"
PredNe(i, j) == Rel(ids[i], ids[j]) = "ne"
NotPredNe(i, j) == ~PredNe(i, j)

SameSeedSameSample == SameSeedSameSampleOn(hist, PredEq)
DifferentSeedsDiffer == DifferentSeedsDifferOn(hist, NotPredNe)
GeneratorAdvances == GeneratorAdvancesOn(hist, NotPredNe)
EqualGeneratorsEqualSample == EqualGeneratorsEqualSampleOn(hist, PredEq)
StreamsIndependent == StreamsIndependentOn(hist, NotPredNe)
(* the stepwise identities are the ones the trace specification recomputes *)
IdentsAgree == Mut = "none" => ids = Idents(hist)

Emit == EmitHist /\ Len(hist) >= 1 => PrintT(<<"BEH", ToJson(hist)>>)
=============================================================================
