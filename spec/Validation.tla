----------------------------- MODULE Validation -----------------------------
(* C18 - the way of a specification through virocon's checks as a state machine:          *)
(*   described -Construct-> constructed -Slice-> sliced -Fit-> fitted -Compute-> result   *)
(* each step either raises (pc = "raised", stage and class recorded) or passes.  TLC      *)
(* explores it for every enumerated case: all well-formed 1-4 dimensional descriptions    *)
(* with every valid operation, every single malformation at every position, every pair.   *)
EXTENDS ValidationOps, TLC, Json

CONSTANTS BaseSet,        \* indices into Bases explored
          PairBaseSet,    \* bases for which all pairs of malformations are explored
          HierarchyCheck, \* FALSE = deviation D10: conditional_on is not checked against i
          Shortcut        \* "none" | "allfixed" | "sample" | "slicerkw" | "lateref" | "paramsignored" | "falsyfixed" | "depkwignored" | "fitkeyignored" | "objectunchecked" | "noneaccepted" | "entryaccepted"
VARIABLES pc, case, stage, cls

vars == <<pc, case, stage, cls>>

Init == /\ case \in AllCases(BaseSet, PairBaseSet)
        /\ pc = "described" /\ stage = 0 /\ cls = "none"

Step(from, to, k, exc) ==
    /\ pc = from
    /\ IF exc = "none" THEN pc' = to /\ stage' = stage /\ cls' = cls
       ELSE pc' = "raised" /\ stage' = k /\ cls' = exc
    /\ UNCHANGED case

Construct == Step("described", "constructed", 1, ConstructExc(case, HierarchyCheck, Shortcut))
Slice     == Step("constructed", "sliced", 2, SliceExc(case, Shortcut))
Fit       == Step("sliced", "fitted", 3, IF case.ctx.fitted THEN FitExc(case, Shortcut) ELSE "none")
Compute   == /\ pc = "fitted"
             /\ LET exc == ComputeExc(case, Shortcut) IN
                  IF exc = "none" THEN pc' = "result" /\ stage' = 5 /\ cls' = "result"
                  ELSE pc' = "raised" /\ stage' = 4 /\ cls' = exc
             /\ UNCHANGED case

Next == Construct \/ Slice \/ Fit \/ Compute
Spec == Init /\ [][Next]_vars

Finished == pc \in {"raised", "result"}

(* ---- invariants ---- *)
CatalogueConsistent == /\ InDomain(case)
                       /\ (WellFormed(case) <=> case.mal = <<>>)
                       /\ (WellFormed(case) <=> Stage(case) = 5)
RejectedNotComputed == Finished /\ ~WellFormed(case) => pc = "raised" /\ stage <= Stage(case)
PrefixAccepted == pc = "raised" => stage >= Stage(case)
AcceptedWhenWellFormed == Finished /\ WellFormed(case) => pc = "result"
DocumentedClass == pc = "raised" => cls \in Documented

(* ---- leg R ---- *)
Emit == pc = "described" => PrintT(<<"BEH", ToJson(case)>>)
=============================================================================
