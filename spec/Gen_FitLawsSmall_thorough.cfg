SPECIFICATION Spec
CONSTANTS Reps = {0, 1, 2}
CHECK_DEADLOCK FALSE
INVARIANT Emit
INVARIANT AllInRange
