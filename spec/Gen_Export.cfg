SPECIFICATION GenSpec
CONSTANTS Decimals = 6  NoClose = FALSE  AlwaysTxt = FALSE  RawHeader = FALSE
CHECK_DEADLOCK FALSE
INVARIANT EmitCase
