------------------------------ MODULE Slicing ------------------------------
(* The slicing algorithm as a state machine over SlicingOps (see there).      *)
EXTENDS SlicingOps

----------------------------------------------------------------------------
(* 2. the algorithm as a state machine, explored exhaustively by TLC          *)

CONSTANTS MaxLen, MaxV,     \* data vectors: length 1..MaxLen over 0..MaxV
          Upw,              \* units per width for the equal-width slicer (even)
          Skew              \* 0 = edges exact; 1 = upper edge of interval i recomputed one
                            \*     "ulp" below the lower edge of i+1 (the float behaviour
                            \*     of centre +/- width/2 at decimal widths)
VARIABLES pc, kind, data, opt, raw, refs, kept, err

vars == <<pc, kind, data, opt, raw, refs, kept, err>>

DataVecs == UNION {[1..n -> 0..MaxV] : n \in 1..MaxLen}

(* equal-width algorithm: centre c_i (x2 units), membership by comparing with c -+ w/2.  *)
(* Skew shifts the recomputed upper edge down by half a unit (values are integers, so    *)
(* a value equal to the ideal edge then falls through).                                  *)
WidthMask(d, i, lo, upw, ropen, skew) ==
    LET c2 == 2 * lo + 2 * (i - 1) * upw + upw      \* centre x2
        lo2 == c2 - upw
        hi2 == c2 + upw - skew
    IN [j \in 1..Len(d) |->
          IF ropen THEN (IF lo2 <= 2 * d[j] /\ 2 * d[j] < hi2 THEN 1 ELSE 0)
                   ELSE (IF lo2 < 2 * d[j] /\ 2 * d[j] <= hi2 THEN 1 ELSE 0)]

(* argsort chunks -> masks.  Faithful = mask over input positions (position p is in chunk *)
(* c iff p is one of the chunk's argsort entries).                                       *)
ArgSort(d) ==
    LET RECURSIVE Srt(_)
        Srt(S) == IF S = {} THEN <<>>
                  ELSE LET m == CHOOSE a \in S : \A b \in S : d[a] < d[b] \/ (d[a] = d[b] /\ a <= b)
                       IN <<m>> \o Srt(S \ {m})
    IN Srt(1..Len(d))
PointsMask(d, c, np, lastfull) ==
    LET ord == ArgSort(d)
        cb == ChunkBounds(Len(d), np, lastfull)[c]
        members == {ord[r] : r \in cb[1]..cb[2]}
    IN [j \in 1..Len(d) |-> IF j \in members THEN 1 ELSE 0]

OptW == [ropen : BOOLEAN, incmax : {TRUE}, n : {1}, lastfull : {TRUE},
         minpts : 0..2, minint : 0..3, ref : {"center", "left", "right"}]
OptN == [ropen : {TRUE}, incmax : BOOLEAN, n : 1..3, lastfull : {TRUE},
         minpts : 0..2, minint : 0..3, ref : {"center", "left", "right"}]
OptP == [ropen : {TRUE}, incmax : {TRUE}, n : 1..3, lastfull : BOOLEAN,
         minpts : 0..2, minint : 0..3, ref : {"center"}]

Init ==
    /\ pc = "start"
    /\ data \in DataVecs
    /\ \/ kind = "width" /\ opt \in OptW
       \/ kind = "number" /\ opt \in OptN
       \/ kind = "points" /\ opt \in OptP
    /\ raw = <<>> /\ refs = <<>> /\ kept = {} /\ err = FALSE

DataMax == SetMax(Range(data))
DataMin == SetMin(Range(data))

Slice ==
    /\ pc = "start"
    /\ \/ /\ kind = "width"
          /\ LET K == WidthCount(0, DataMax, Upw) IN
               /\ raw' = [i \in 1..K |-> WidthMask(data, i, 0, Upw, opt.ropen, Skew)]
               /\ refs' = [i \in 1..K |-> RefQ(opt.ref, i, 0, Upw)]
       \/ /\ kind = "number"
          /\ LET d == [j \in 1..Len(data) |-> opt.n * data[j]]    \* pre-scale by n
                 lo == opt.n * DataMin hi == opt.n * DataMax
                 w == DataMax - DataMin
             IN /\ raw' = [i \in 1..opt.n |->
                     [j \in 1..Len(d) |->
                        IF i < opt.n \/ ~opt.incmax
                        THEN (IF lo + (i - 1) * w <= d[j] /\ d[j] < lo + i * w THEN 1 ELSE 0)
                        ELSE (IF lo + (i - 1) * w <= d[j] /\ d[j] <= lo + i * w THEN 1 ELSE 0)]]
                /\ refs' = [i \in 1..opt.n |-> RefQ(opt.ref, i, lo, w)]
       \/ /\ kind = "points"
          /\ opt.n <= Len(data)
          /\ LET cb == ChunkBounds(Len(data), opt.n, opt.lastfull) IN
               /\ raw' = [c \in 1..Len(cb) |-> PointsMask(data, c, opt.n, opt.lastfull)]
               /\ refs' = [c \in 1..Len(cb) |-> MedianQ(data, PointsMask(data, c, opt.n, opt.lastfull))]
    /\ pc' = "sliced"
    /\ UNCHANGED <<kind, data, opt, kept, err>>

EffMinPts == IF kind = "points" /\ opt.n < opt.minpts THEN opt.n ELSE opt.minpts
EffMinInt == IF kind = "number" /\ opt.n < opt.minint THEN opt.n ELSE opt.minint

DropSmall ==
    /\ pc = "sliced"
    /\ kept' = KeepIdx(raw, EffMinPts)
    /\ pc' = "dropped"
    /\ UNCHANGED <<kind, data, opt, raw, refs, err>>

CheckMin ==
    /\ pc = "dropped"
    /\ err' = (Cardinality(kept) < EffMinInt)
    /\ pc' = "done"
    /\ UNCHANGED <<kind, data, opt, raw, refs, kept>>

Next == Slice \/ DropSmall \/ CheckMin
Spec == Init /\ [][Next]_vars

(* ---- invariants of the algorithm (design-level statement of C10) ---- *)
Sliced == pc \in {"sliced", "dropped", "done"}

AtMostOne == Sliced => \A j \in 1..Len(data) : Cardinality(InSet(raw, j)) <= 1

ExactlyOne ==
    Sliced =>
      \A j \in 1..Len(data) :
        CASE kind = "width" ->
               Covered(data[j], 0, DataMax, opt.ropen) => Cardinality(InSet(raw, j)) = 1
          [] kind = "number" ->
               NumCovered(data[j], DataMin, DataMax, opt.incmax) => Cardinality(InSet(raw, j)) = 1
          [] kind = "points" -> Cardinality(InSet(raw, j)) = 1

MembershipIdeal ==
    Sliced =>
      \A j \in 1..Len(data) :
        CASE kind = "width" ->
               InSet(raw, j) \subseteq Acceptable(data[j], 0, Upw, opt.ropen, Skew = 0, Len(raw))
          [] kind = "number" ->
               InSet(raw, j) \subseteq
                 NumAcceptable(opt.n * data[j], opt.n * DataMin, opt.n * DataMax,
                               DataMax - DataMin, opt.n, opt.incmax, TRUE)
          [] kind = "points" ->
               \A c \in InSet(raw, j) :
                 LET cb == ChunkBounds(Len(data), opt.n, opt.lastfull)[c]
                     sorted == SortedVals(data, AllOnes(Len(data)))
                 IN \E r \in cb[1]..cb[2] : sorted[r] = data[j]

MaxIncluded ==
    Sliced /\ kind = "number" /\ opt.incmax =>
      \A j \in 1..Len(data) : data[j] = DataMax => InSet(raw, j) = {opt.n}

PointsChunkSizes ==
    Sliced /\ kind = "points" =>
      LET cb == ChunkBounds(Len(data), opt.n, opt.lastfull) IN
        \A c \in 1..Len(raw) : Cnt(raw[c]) = cb[c][2] - cb[c][1] + 1

DropExactlySmall ==
    pc \in {"dropped", "done"} => kept = {i \in 1..Len(raw) : Cnt(raw[i]) >= EffMinPts}

ErrorIffTooFew == pc = "done" => (err <=> Cardinality(kept) < EffMinInt)

=============================================================================
