SPECIFICATION Spec
CONSTANTS MaxRound = 2  Mutation = "subsetreversed"  EmitBeh = FALSE
CHECK_DEADLOCK FALSE
INVARIANT FittedAfterConditioners
INVARIANT IndependentFitImmediately
INVARIANT NoPrematureFit
