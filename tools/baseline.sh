#!/bin/sh
# Run the repository's pinned test suite with the verification guard off and compare with BASELINE.json stable_pass.
mkdir -p /var/tmp/verif-bl
cd /repo && env -u VIROCON_VERIF /venv/bin/python -m pytest -ra -q -p no:cacheprovider --timeout=900 --continue-on-collection-errors -n 8 --junitxml=/var/tmp/verif-bl/j.xml 2>&1 | tail -2
python3 - <<'PY'
import json, sys, xml.etree.ElementTree as ET
b = json.load(open('/root/.vp/BASELINE.json'))
ok = set()
for tc in ET.parse('/var/tmp/verif-bl/j.xml').iter('testcase'):
    if not any(c.tag in ('failure', 'error', 'skipped') for c in tc):
        ok.add(tc.get('classname') + '::' + tc.get('name'))
missing = [x for x in b['stable_pass'] if x not in ok]
print('baseline stable_pass:', len(b['stable_pass']), 'passing now:', len(ok), 'missing:', missing)
sys.exit(1 if missing else 0)
PY
rc=$?
rm -rf /var/tmp/verif-bl
exit $rc
