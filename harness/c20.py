"""C20 - exported, plotted and loaded data are exactly the computed / stored values.

M: TLC explores spec/Export.tla (save: ResolvePath -> Write -> ReadBack; plot: Draw) for every
   configuration case; deviations '%1.5f', missing closing point, always-append-'.txt' must
   violate ParsedIsRound6 / ClosedPolyline / PathRule.
R: the same module (GenSpec) emits every configuration case (contour size 1-4, 2-D/3-D,
   semantics strings with ';', space, non-ASCII, empty; paths with / without extension, dots in
   directories, hidden files; swap_axis; design_conditions None/True/array; sample; ax).
V: the driver performs the real calls (Agg backend, directory under .work/C20), reads files back,
   inspects the matplotlib artists and records code points / fixed-point integers; spec/Trace_C20.tla
   compares with ExportOps.  The other plot functions: arrays handed to matplotlib against the
   model's own values re-evaluated by the driver; read_ec_benchmark_dataset on synthetic files.
"""
import math
import os
import pathlib
import re
import shutil
import struct
import warnings
from decimal import Decimal, ROUND_HALF_EVEN

import numpy as np

from .common import Q, Qc, Machinery, import_virocon, INT_MAX, REPO

LEVEL = "model_checking"


def cps(s):
    return [ord(ch) for ch in s]


def from_cps(c):
    return "".join(chr(v) for v in c)


class StandIn:
    def __init__(self, coords):
        self.coordinates = np.asarray(coords, dtype=float)


_REAL = {}


def tofloat(co):
    """contour.coordinates as a float (N, ndim) array, whatever container the class uses
    (a list of regions, each a list of per-dimension arrays, is concatenated in order)"""
    if isinstance(co, list) and co and isinstance(co[0], (list, tuple)) and len(co[0]) and np.ndim(co[0][0]) == 1:
        return np.concatenate([np.array(p, dtype=float).T for p in co])
    try:
        a = np.asarray(co, dtype=float)
        if a.ndim == 2:
            return a
    except (ValueError, TypeError):
        pass
    return np.array([[float(np.ravel(v)[0]) for v in row] for row in co], dtype=float)


def real_contour(vc, obj, seed):
    """one real 2-D contour object per class and seed (sea-state model of the test-suite)"""
    key = (obj, seed)
    if key in _REAL:
        return _REAL[key]

    def _power3(x, a=0.1, b=1.489, c=0.1901):
        return a + b * x ** c

    def _exp3(x, a=0.04, b=0.1748, c=-0.2243):
        return a + b * np.exp(c * x)
    with warnings.catch_warnings():
        warnings.simplefilter("ignore")
        model = vc.GlobalHierarchicalModel([
            {"distribution": vc.WeibullDistribution(alpha=2.776, beta=1.471, gamma=0.8888)},
            {"distribution": vc.LogNormalDistribution(), "conditional_on": 0,
             "parameters": {"mu": vc.DependenceFunction(_power3), "sigma": vc.DependenceFunction(_exp3)}}])
        rng = np.random.default_rng([seed, 77])
        alpha = float(rng.choice([0.01, 0.02, 0.05]))
        sample = model.draw_sample(int(rng.integers(3000, 6000)), random_state=int(rng.integers(0, 2**31)))
        if obj == "iform":
            c = vc.IFORMContour(model, alpha, n_points=int(rng.integers(10, 60)))
        elif obj == "isorm":
            c = vc.ISORMContour(model, alpha, n_points=int(rng.integers(10, 60)))
        elif obj == "hdc":
            c = vc.HighestDensityContour(model, alpha, limits=[(0, 20), (0, 20)], deltas=[0.5, 0.5])
        elif obj == "hdc_multiregion":
            # truly bimodal 2-D density: y|x is very wide in a narrow strip around x = 5
            def _sig(x, a=0.3, b=8.0, c=5.0, d=0.02):
                return a + b * np.exp(-((x - c) ** 2) / d)

            def _mu(x, a=5.0):
                return a + 0 * x
            m2 = vc.GlobalHierarchicalModel([
                {"distribution": vc.NormalDistribution(mu=5, sigma=1.5)},
                {"distribution": vc.NormalDistribution(), "conditional_on": 0,
                 "parameters": {"mu": vc.DependenceFunction(_mu), "sigma": vc.DependenceFunction(_sig)}}])
            c = vc.HighestDensityContour(m2, 0.1, limits=[(0, 10), (0, 10)], deltas=0.05)
        elif obj == "hdc_multiregion3d":
            # ordinary unimodal 3-D hierarchy on a slightly coarse grid: a 2-cell island remains
            def _lin(x, a=1.0, b=0.5):
                return a + b * x

            def _c03(x, a=0.3):
                return a + 0 * x

            def _c05(x, a=0.5):
                return a + 0 * x
            m3 = vc.GlobalHierarchicalModel([
                {"distribution": vc.WeibullDistribution(alpha=2, beta=1.5, gamma=0.1)},
                {"distribution": vc.LogNormalDistribution(), "conditional_on": 0,
                 "parameters": {"mu": vc.DependenceFunction(_lin), "sigma": vc.DependenceFunction(_c03)}},
                {"distribution": vc.NormalDistribution(), "conditional_on": 1,
                 "parameters": {"mu": vc.DependenceFunction(_lin), "sigma": vc.DependenceFunction(_c05)}}])
            c = vc.HighestDensityContour(m3, 0.1, limits=[(0, 6), (0, 30), (0, 20)], deltas=[0.5, 1, 1])
        elif obj == "ds":
            c = vc.DirectSamplingContour(model, alpha, sample=sample, deg_step=int(rng.choice([5, 10, 24])))
        elif obj == "and":
            c = vc.AndContour(model, alpha, sample=sample, deg_step=int(rng.choice([5, 10])))
        else:
            c = vc.OrContour(model, alpha, sample=sample, deg_step=int(rng.choice([5, 10])))
    _REAL[key] = c
    return c


def round6(v):
    """exact: the double v rounded half-even to 6 decimals -> (neg, |q|)"""
    d = Decimal(float(v)).quantize(Decimal("0.000001"), rounding=ROUND_HALF_EVEN)
    neg = bool(math.copysign(1.0, float(v)) < 0)
    return {"neg": neg, "q": int(abs(d) * 1000000)}


def special_values(rng, n):
    """coordinates that make rounding / sign / width visible"""
    pool = [0.0, -0.0, 1e-9, -1e-9, 0.5e-6, 1.5e-6, 2.5e-6, -2.5e-6, 1.2345675, 1.2345665, 0.9999995, 9.9999995,
            123.456789, -17.25, 1999.9999999, 1e-7, 3.0000005, -0.0000005, 1.0, 10.0, 100.0]
    out = []
    for _ in range(n):
        k = rng.random()
        if k < 0.45:
            out.append(float(rng.choice(pool)))
        elif k < 0.8:
            out.append(float(rng.normal(0, 10 ** rng.uniform(-3, 3))))
        else:
            out.append(float(round(rng.uniform(-50, 50), int(rng.integers(0, 8)))))
    return [max(-1999.0, min(1999.0, v)) for v in out]


# ----------------------------------------------------------------------------------
# save_contour_coordinates


def save_record(vc, case, workdir):
    from virocon.contours import save_contour_coordinates
    rng = np.random.default_rng([case["seed"], case["idx"]])
    npts, ndim = case["npts"], case["ndim"]
    if case.get("obj", "standin") == "standin":
        coords = np.array(special_values(rng, npts * ndim)).reshape(npts, ndim)
        contour = StandIn(coords)
    else:
        contour = real_contour(vc, case["obj"], case["seed"])
        coords = tofloat(contour.coordinates)
        if case["obj"].startswith("hdc_multiregion") and not isinstance(contour.coordinates, list):
            raise Machinery("the multi-region highest density contour has a single region")
    path = from_cps(case["path"])
    d = workdir / f"s{case['idx']}_{case['seed']}"
    if d.exists():
        shutil.rmtree(d)
    d.mkdir(parents=True)
    sub = os.path.dirname(path)
    if sub:
        (d / sub).mkdir(parents=True, exist_ok=True)
    sem = None
    if case["sem"] != 0:
        sem = {"names": [from_cps(c) for c in case["names"]], "units": [from_cps(c) for c in case["units"]],
               "symbols": [f"S{i}" for i in range(ndim)]}
    rec = dict(kind="save", sem=case["sem"], ndim=ndim, names=case["names"], units=case["units"], path=case["path"],
               coords=[[round6(v) for v in row] for row in coords], exc="", nfiles=0, created=[], lines=[],
               endsnl=True, parseok=True, parsed=[])
    before = {str(p.relative_to(d)) for p in d.rglob("*") if p.is_file()}
    try:
        with warnings.catch_warnings():
            warnings.simplefilter("ignore")
            save_contour_coordinates(contour, (pathlib.Path(d) / path) if case.get("aspath") else str(d / path), sem)
        new = sorted({str(p.relative_to(d)) for p in d.rglob("*") if p.is_file()} - before)
        rec["nfiles"] = len(new)
        if len(new) == 1:
            rec["created"] = cps(new[0].replace(os.sep, "/"))
            raw = (d / new[0]).read_bytes()
            text = raw.decode("utf-8")
            rec["endsnl"] = text.endswith("\n")
            lines = re.split("\r\n|\n|\r", text)          # the lines a reader sees
            if lines and lines[-1] == "":
                lines = lines[:-1]
            rec["lines"] = [cps(ln) for ln in lines]
            parsed = []
            for ln in lines[max(1, len(lines) - len(coords)):]:     # the data rows are the last lines
                row = []
                for f in ln.split(";"):
                    try:
                        v = Decimal(f) * 1000000
                        if v != v.to_integral_value() or abs(v) > INT_MAX:
                            raise ValueError(f)
                        row.append(int(v))
                    except Exception:  # noqa
                        rec["parseok"] = False
                        row.append(0)
                parsed.append(row)
            rec["parsed"] = parsed
    except Exception as e:  # noqa
        rec["exc"] = f"{type(e).__name__}: {e}"[:160]
    shutil.rmtree(d, ignore_errors=True)
    return rec


# ----------------------------------------------------------------------------------
# plot_2D_contour


def arrq(a):
    a = np.asarray(a, dtype=float).reshape(-1, 2)
    return [[Q(x, 1e6), Q(y, 1e6)] for x, y in a]


def plot_record(vc, case):
    import matplotlib.pyplot as plt
    from matplotlib.collections import PathCollection
    from virocon.plotting import plot_2D_contour
    from virocon.utils import calculate_design_conditions
    rng = np.random.default_rng([case["seed"], case["idx"], 5])
    npts, swap = case["npts"], bool(case["swap"])
    if npts >= 3:       # a proper polygon around a random centre
        ang = np.sort(rng.uniform(0, 2 * np.pi, npts))
        r = rng.uniform(0.5, 3, npts)
        c = rng.uniform(4, 20, 2)
        coords = np.c_[c[0] + r * np.cos(ang), c[1] + r * np.sin(ang)]
    else:
        coords = rng.uniform(-20, 20, size=(npts, 2))
    coords = np.round(coords, int(rng.integers(1, 9)))
    contour = StandIn(coords)
    if case.get("obj", "standin") != "standin":
        contour = real_contour(vc, case["obj"], case["seed"])
        coords = tofloat(contour.coordinates)
    sample = rng.normal(5, 3, size=(int(rng.integers(1, 30)), 2)) if case["sample"] else None
    if sample is not None and rng.random() < 0.3:
        sample = sample.tolist()          # array-like
    dckind = case["dc"]
    dc_arg, dcexp = None, []
    sem = None
    if case["sem"] != 0:
        sem = {"names": [from_cps(c) for c in case["names"]], "units": [from_cps(c) for c in case["units"]],
               "symbols": [from_cps(c) for c in case["symbols"]]}
    rec = dict(kind="plot", sem=case["sem"], ndim=2, names=case["names"], units=case["units"], symbols=case["symbols"],
               coords=arrq(coords), swap=swap, dckind=dckind, dcexp=[], hassample=sample is not None,
               sample=arrq(sample) if sample is not None else [], exc="", lines=[], scatters=[], retdc=False,
               retarr=[], retax=True, xlabel=[], ylabel=[])
    fig = None
    try:
        with warnings.catch_warnings():
            warnings.simplefilter("ignore")
            if dckind in ("array", "list", "tuple", "tuples"):
                dc_arg = rng.uniform(0, 10, size=(int(rng.integers(1, 8)), 2))
                dcexp = dc_arg.copy()
                if dckind == "list":
                    dc_arg = dc_arg.tolist()
                elif dckind == "tuple":
                    dc_arg = tuple(tuple(row) for row in dc_arg.tolist())
                elif dckind == "tuples":
                    dc_arg = [tuple(row) for row in dc_arg.tolist()]
            elif dckind == "true":
                dc_arg = True
                dcexp = np.asarray(calculate_design_conditions(contour, swap_axis=swap), dtype=float)
            rec["dcexp"] = arrq(dcexp) if dckind != "none" else []
            ax_in = None
            if case["axgiven"]:
                fig, ax_in = plt.subplots()
            kw = dict(sample=sample, semantics=sem, swap_axis=swap, ax=ax_in)
            if dckind != "none" or case["idx"] % 2:
                kw["design_conditions"] = dc_arg
            ret = plot_2D_contour(contour, **kw)
            if isinstance(ret, tuple):
                ax, rdc = ret
                rec["retdc"] = True
                rec["retarr"] = arrq(rdc)
            else:
                ax = ret
            fig = ax.figure
            rec["retax"] = bool(hasattr(ax, "plot") and (ax_in is None or ax is ax_in))
            rec["lines"] = [arrq(ln.get_xydata()) for ln in ax.lines]
            rec["scatters"] = [arrq(np.asarray(c.get_offsets())) for c in ax.collections
                               if isinstance(c, PathCollection) and len(c.get_offsets()) > 0]
            rec["xlabel"] = cps(ax.get_xlabel())
            rec["ylabel"] = cps(ax.get_ylabel())
    except Machinery:
        raise
    except Exception as e:  # noqa
        rec["exc"] = f"{type(e).__name__}: {e}"[:160]
    finally:
        plt.close("all")
    return rec


# ----------------------------------------------------------------------------------
# read_ec_benchmark_dataset


def bits(v):
    """the 64 bits of a double as four 16-bit integers (TLC integers are 32 bit)"""
    b = struct.unpack(">Q", struct.pack(">d", v))[0]
    return [(b >> 48) & 0xFFFF, (b >> 32) & 0xFFFF, (b >> 16) & 0xFFFF, b & 0xFFFF]


def dataset_cases(ctx):
    sizes = ctx.pick([1, 2, 17, 1000], [1, 2, 3, 17, 500, 2000, 10000])
    i = 0
    for n in sizes:
        for ncol in (2, 3):
            for order in ("hourly", "gaps", "unordered"):
                i += 1
                yield dict(fn="dataset", n=n, ncol=ncol, order=order, idx=i, seed=ctx.seed, reuse=False,
                           precision="repr" if i % 2 else "4dec")
    # one path rewritten with different datasets in sequence and read again after every rewrite
    # (what is returned must be what the file holds NOW)
    for n in ctx.pick([3, 3, 40, 2, 40], [3, 3, 40, 2, 40, 1000, 7, 1000]):
        for ncol in (2, 3, 2):
            i += 1
            yield dict(fn="dataset", n=n, ncol=ncol, order=("hourly", "gaps", "unordered")[i % 3], idx=i,
                       seed=ctx.seed, reuse=True)


def dataset_record(vc, case, workdir):
    import pandas as pd
    rng = np.random.default_rng([case["seed"], case["idx"], 9])
    n, ncol = case["n"], case["ncol"]
    base = int(rng.integers(150000, 400000))            # hours since 1970
    if case["order"] == "hourly":
        hours = base + np.arange(n)
    elif case["order"] == "gaps":
        hours = base + np.cumsum(rng.integers(1, 50, n))
    else:
        hours = base + rng.permutation(3 * n)[:n]
    if case.get("precision") == "repr":
        # full precision (shortest round-trip decimals, 15-17 significant digits), many values < 1
        vals = np.exp(rng.uniform(-12, 3.4, size=(n, ncol)))
        fmt = repr
    else:
        vals = np.round(rng.uniform(0, 30, size=(n, ncol)), 4)
        fmt = lambda v: f"{v:.4f}"
    names = ["time (YYYY-MM-DD-HH)", "significant wave height (m)", "zero-up-crossing period (s)", "wind speed (m s-1)"]
    cols = names[:ncol + 1]
    path = workdir / ("ds_reused_path.txt" if case.get("reuse") else f"ds_{case['idx']}.txt")
    epoch = np.datetime64("1970-01-01T00")
    with open(path, "w") as fh:
        fh.write("; ".join(cols) + "\n")
        for h, row in zip(hours, vals):
            t = (epoch + np.timedelta64(int(h), "h")).astype("datetime64[h]").astype(object)
            fh.write(t.strftime("%Y-%m-%d-%H") + "; " + "; ".join(fmt(float(v)) for v in row) + "\n")
    texts = [[fmt(float(v)) for v in row] for row in vals]
    rec = dict(kind="dataset", exc="", wantts=[int(h) for h in hours], wantvals=[[Q(v, 1e4) for v in row] for row in vals],
               wantbits=[[bits(float(t)) for t in row] for row in texts],      # the double the decimal text denotes
               wantcols=[cps(c) for c in cols[1:]], gotlen=0, gotts=[], gotvals=[], gotbits=[], gotcols=[])
    try:
        with warnings.catch_warnings():
            warnings.simplefilter("ignore")
            df = vc.read_ec_benchmark_dataset(str(path))
        rec["gotlen"] = int(len(df))
        idx = pd.DatetimeIndex(df.index)
        rec["gotts"] = [int(v) for v in (idx.values.astype("datetime64[h]") - epoch).astype(int)]
        exact = bool(np.all(idx.values == idx.values.astype("datetime64[h]")))
        if not exact:
            rec["gotts"] = [-1] * len(rec["gotts"])
        rec["gotvals"] = [[Q(v, 1e4) for v in row] for row in np.asarray(df.values, dtype=float)]
        rec["gotbits"] = [[bits(float(v)) for v in row] for row in np.asarray(df.values, dtype=float)]
        rec["gotcols"] = [cps(str(c)) for c in df.columns]
    except Exception as e:  # noqa
        rec["exc"] = f"{type(e).__name__}: {e}"[:160]
    if not case.get("reuse"):
        path.unlink(missing_ok=True)
    return rec


# ----------------------------------------------------------------------------------
# the other plot functions on a fitted model


def arr_rec(clause, got, want, scale, tol=0, label=""):
    try:
        g = [Qc(v, scale) for v in np.asarray(got, dtype=float).ravel()]
        w = [Qc(v, scale) for v in np.asarray(want, dtype=float).ravel()]
        return dict(kind="arrays", clause=clause, got=g, want=w, tol=tol, exc="", label=label)
    except Exception as e:  # noqa
        return dict(kind="arrays", clause=clause, got=[], want=[], tol=tol, exc=f"{type(e).__name__}: {e}"[:160],
                    label=label)


def fitted_models(vc, ctx):
    out = []
    specs = [("DNVGL_Hs_Tz", vc.get_DNVGL_Hs_Tz, "ec-benchmark_dataset_A_1year.txt")]
    if not ctx.quick:
        specs += [("OMAE2020_Hs_Tz", vc.get_OMAE2020_Hs_Tz, "ec-benchmark_dataset_B_1year.txt"),
                  ("OMAE2020_V_Hs", vc.get_OMAE2020_V_Hs, "ec-benchmark_dataset_D_1year.txt")]
    for name, getter, fname in specs:
        with warnings.catch_warnings():
            warnings.simplefilter("ignore")
            data = vc.read_ec_benchmark_dataset(str(REPO / "datasets" / fname))
            dd, fd, sem = getter()
            model = vc.GlobalHierarchicalModel(dd)
            model.fit(data, fd)
        out.append((name, model, data, sem))
    return out


def filliben(n):
    m = np.empty(n)
    m[-1] = 0.5 ** (1.0 / n)
    m[0] = 1 - m[-1]
    i = np.arange(2, n)
    m[1:-1] = (i - 0.3175) / (n + 0.365)
    return m


def other_plots(vc, ctx, name, model, data, sem):
    """-> list of (label, record)"""
    import matplotlib.pyplot as plt
    from matplotlib.collections import PathCollection
    from virocon import plotting
    recs = []
    add = lambda clause, got, want, scale, tol=0: recs.append(arr_rec(clause, got, want, scale, tol, f"{name} {clause}"))
    values = np.asarray(data.values, dtype=float)
    with warnings.catch_warnings():
        warnings.simplefilter("ignore")
        # ---- marginal quantiles: recording wrapper around the model's own marginal_icdf
        sub = values[:: max(1, len(values) // 300)]
        calls = []
        orig = model.marginal_icdf

        def rec_icdf(q, dim, *a, **k):
            r = orig(q, dim, *a, **k)
            calls.append((int(dim), np.array(q, dtype=float).copy(), np.array(r, dtype=float).copy()))
            return r
        model.marginal_icdf = rec_icdf
        try:
            axes = plotting.plot_marginal_quantiles(model, sub, sem)
        finally:
            del model.marginal_icdf
        for dim in range(model.n_dim):
            xy = axes[dim].get_lines()[0].get_xydata()
            mine = [c for c in calls if c[0] == dim]
            add(f"MarginalQuantiles.ordered_sample[{dim}]", xy[:, 1], np.sort(sub[:, dim]), 1e6)
            if mine:
                add(f"MarginalQuantiles.model_quantiles[{dim}]", xy[:, 0], mine[-1][2], 1e6)
                add(f"MarginalQuantiles.probabilities[{dim}]", mine[-1][1], filliben(len(sub)), 1e9, 1)
            else:
                recs.append(dict(kind="arrays", clause=f"MarginalQuantiles.model_quantiles[{dim}]", got=[], want=[0],
                                 tol=0, exc="", label=name))
            if model.conditional_on[dim] is None:      # deterministic: re-evaluate independently of the plot call
                add(f"MarginalQuantiles.icdf_reevaluated[{dim}]", xy[:, 0], model.distributions[dim].icdf(filliben(len(sub))), 1e6, 1)
        plt.close("all")
        # ---- dependence functions
        axes = plotting.plot_dependence_functions(model, sem)
        k = 0
        for dim in range(model.n_dim):
            if model.conditional_on[dim] is None:
                continue
            dist = model.distributions[dim]
            for par, dep in dist.conditional_parameters.items():
                ax = axes[k]
                k += 1
                sc = [np.asarray(c.get_offsets()) for c in ax.collections if isinstance(c, PathCollection)]
                est = np.c_[dist.conditioning_values, [p[par] for p in dist.parameters_per_interval]]
                add(f"DependenceFunctions.interval_estimates[{dim}.{par}]", sc[0] if sc else [], est, 1e6)
                xy = ax.lines[0].get_xydata()
                x = np.linspace(0, max(dist.conditioning_values))
                add(f"DependenceFunctions.curve_x[{dim}.{par}]", xy[:, 0], x, 1e6)
                add(f"DependenceFunctions.curve_y[{dim}.{par}]", xy[:, 1], dep(x), 1e6)
        plt.close("all")
        # ---- histograms of interval distributions
        figs, axl = plotting.plot_histograms_of_interval_distributions(model, data, sem)

        def check_hist(tag, ax, dat, dist):
            dat = np.asarray(dat, dtype=float)
            x = np.linspace(np.min(dat), np.max(dat))
            xy = ax.lines[0].get_xydata()
            add(f"Histograms.pdf_x[{tag}]", xy[:, 0], x, 1e6)
            add(f"Histograms.pdf_y[{tag}]", xy[:, 1], dist.pdf(x), 1e6)
            poly = ax.patches[0].get_xy()
            # stepfilled polygon: (e0,0),(e0,h0),(e1,h0),(e1,h1),...,(en,h_{n-1}),(en,0)...
            edges = poly[0:-1:2, 0]
            edges = edges[: int(np.argmax(edges)) + 1]
            heights = poly[1:2 * len(edges) - 1:2, 1]
            cnt = np.array([np.sum((dat >= edges[i]) & ((dat < edges[i + 1]) if i < len(edges) - 2 else (dat <= edges[i + 1])))
                            for i in range(len(edges) - 1)], dtype=float)
            dens = cnt / (len(dat) * np.diff(edges))
            add(f"Histograms.bar_heights[{tag}]", heights, dens, 1e6, 2)
            add(f"Histograms.range[{tag}]", [edges[0], edges[-1]], [np.min(dat), np.max(dat)], 1e6, 1)
            title = ax.get_title()
            add(f"Histograms.n_in_title[{tag}]", [int(title.split("n=")[1])], [len(dat)], 1)
        for dim in range(model.n_dim):
            dist = model.distributions[dim]
            if model.conditional_on[dim] is None:
                check_hist(f"{dim}", axl[dim], values[:, dim], dist)
            else:
                for i, d_i in enumerate(dist.distributions_per_interval):
                    check_hist(f"{dim}.{i}", axl[dim][i], dist.data_intervals[i], d_i)
        plt.close("all")
        # ---- 2-D isodensity: the arrays handed to Axes.contour
        ng = ctx.pick(25, 60)
        for swap in (False, True):
            for limits, levels in ((None, None), ([(0.5, 12.0), (1.0, 16.0)], [0.001, 0.01, 0.1])):
                fig, ax = plt.subplots()
                got = {}
                oc = ax.contour

                def rec_contour(X, Y, Z, *a, **k):
                    got.update(X=np.array(X, dtype=float), Y=np.array(Y, dtype=float), Z=np.array(Z, dtype=float),
                               levels=np.array(k.get("levels", a[0] if a else []), dtype=float))
                    return oc(X, Y, Z, *a, **k)
                ax.contour = rec_contour
                sub2 = values[:: max(1, len(values) // 200)]
                plotting.plot_2D_isodensity(model, sub2, sem, swap_axis=swap, limits=limits, levels=levels, ax=ax,
                                            n_grid_steps=ng)
                tag = f"swap={swap},limits={'given' if limits else 'auto'}"
                sc = [np.asarray(c.get_offsets()) for c in ax.collections
                      if isinstance(c, PathCollection) and len(c.get_offsets()) > 0]
                add(f"Isodensity.sample[{tag}]", sc[0] if sc else [], sub2[:, ::-1] if swap else sub2, 1e6)
                if got:
                    pts = np.c_[got["Y"].ravel(), got["X"].ravel()] if swap else np.c_[got["X"].ravel(), got["Y"].ravel()]
                    add(f"Isodensity.density_on_grid[{tag}]", got["Z"].ravel(), model.pdf(pts), 1e9, 1)
                    if limits:
                        lo = [limits[0][0], limits[1][0]]
                        hi = [limits[0][1], limits[1][1]]
                    else:
                        ex = 0.05 * (sub2.max(0) - sub2.min(0))
                        lo, hi = sub2.min(0) - ex, sub2.max(0) + ex
                    gx = np.linspace(lo[0], hi[0], ng)
                    gy = np.linspace(lo[1], hi[1], ng)
                    # plotted abscissa = model dimension 2 iff swap
                    axis_x = got["X"][0, :] if not swap else got["X"][:, 0]
                    axis_y = got["Y"][:, 0] if not swap else got["Y"][0, :]
                    add(f"Isodensity.grid_x[{tag}]", axis_x, gx if not swap else gy, 1e6, 1)
                    add(f"Isodensity.grid_y[{tag}]", axis_y, gy if not swap else gx, 1e6, 1)
                    if levels:
                        add(f"Isodensity.levels[{tag}]", got["levels"], levels, 1e9)
                else:
                    recs.append(dict(kind="arrays", clause=f"Isodensity.density_on_grid[{tag}]", got=[], want=[0], tol=0,
                                     exc="", label=name))
                plt.close("all")
    return recs


# ----------------------------------------------------------------------------------


def design_record(vc, case):
    """calculate_design_conditions on a real contour object: the result depends on nothing but the
    coordinates (same call on a stand-in with the same points); that it is the top ordinate is C17"""
    from virocon.utils import calculate_design_conditions
    rec = dict(kind="arrays", clause="DesignConditionsOfContourObject", got=[], want=[], tol=0, exc="")
    try:
        with warnings.catch_warnings():
            warnings.simplefilter("ignore")
            contour = real_contour(vc, case["obj"], case["seed"])
            got = np.asarray(calculate_design_conditions(contour, swap_axis=bool(case["swap"])), dtype=float)
            want = np.asarray(calculate_design_conditions(StandIn(tofloat(contour.coordinates)),
                                                          swap_axis=bool(case["swap"])), dtype=float)
        rec["got"] = [Qc(v, 1e6) for v in got.ravel()]
        rec["want"] = [Qc(v, 1e6) for v in want.ravel()]
    except Exception as e:  # noqa
        rec["exc"] = f"{type(e).__name__}: {e}"[:160]
    return rec


def depconst_records(vc, case):
    """plot_dependence_functions for a model with dependence functions that are constant in the
    conditioning value and return a scalar / 0-d array / 1-element array: the drawn line is
    np.full(len(x), value); varying functions and interval estimates as for every other model."""
    import matplotlib.pyplot as plt
    from matplotlib.collections import PathCollection
    from virocon import plotting
    ret, which, fitted = case["returns"], case["constant"], bool(case["fitted"])
    tag = f"returns={ret} constant={which} fitted={fitted}"
    wrap = {"scalar": lambda a: a, "zerod": lambda a: np.array(a), "one": lambda a: np.array([a])}[ret]

    def _linear(x, a=1.0, b=0.3):
        return a + b * x

    def _exp3(x, a=0.1, b=0.4, c=-0.5):
        return a + b * np.exp(c * x)

    def _const_mu(x, a=1.4):
        return wrap(a)

    def _const_sigma(x, a=0.25):
        return wrap(a)

    def _vec_mu(x, a=1.4):
        return a + 0.0 * x

    def _vec_sigma(x, a=0.25):
        return a + 0.0 * x

    def build(vectorised=False):
        mu = _linear if which == "sigma" else (_vec_mu if vectorised else _const_mu)
        sg = _exp3 if which == "mu" else (_vec_sigma if vectorised else _const_sigma)
        return vc.GlobalHierarchicalModel([
            {"distribution": vc.WeibullDistribution(alpha=2.0, beta=1.5, gamma=0.0)},
            {"distribution": vc.LogNormalDistribution(), "conditional_on": 0,
             "parameters": {"mu": vc.DependenceFunction(mu), "sigma": vc.DependenceFunction(sg, bounds=[(0.01, None)] + [(None, None)] * (2 if which == "mu" else 0))}}])
    recs = []
    bad = lambda clause, e: recs.append(dict(kind="arrays", clause=clause, got=[], want=[], tol=0,
                                             exc=f"{type(e).__name__}: {e}"[:160], label=f"constdep {tag} {clause}"))
    with warnings.catch_warnings():
        warnings.simplefilter("ignore")
        model = build()
        if fitted:
            try:
                data = build(vectorised=True).draw_sample(3000, random_state=case["seed"] + 1)
                model.fit(data)
            except Exception:  # noqa  (fitting such a model is not what is judged here)
                return []
        try:
            axes = plotting.plot_dependence_functions(model)
        except Exception as e:  # noqa
            bad("DependenceFunctions.constant_function_drawn", e)
            plt.close("all")
            return recs
        try:
            dist = model.distributions[1]
            cv = dist.conditioning_values
            x = np.linspace(0, max(cv)) if cv is not None else np.linspace(0, 10)
            for k, (par, dep) in enumerate(dist.conditional_parameters.items()):
                ax = axes[k]
                xy = ax.lines[0].get_xydata()
                const = which == "all" or which == par
                want_y = np.full(len(x), float(dep.parameters["a"])) if const else dep(x)
                for clause, got, want in ((f"DependenceFunctions.curve_x[{par}]", xy[:, 0], x),
                                          (f"DependenceFunctions.{'constant_' if const else ''}curve_y[{par}]", xy[:, 1], want_y)):
                    r = arr_rec(clause, got, want, 1e6, 0, f"constdep {tag} {clause}")
                    recs.append(r)
                if cv is not None:
                    sc = [np.asarray(c.get_offsets()) for c in ax.collections if isinstance(c, PathCollection)]
                    est = np.c_[cv, [p[par] for p in dist.parameters_per_interval]]
                    recs.append(arr_rec(f"DependenceFunctions.interval_estimates[{par}]", sc[0] if sc else [], est, 1e6, 0,
                                        f"constdep {tag} DependenceFunctions.interval_estimates[{par}]"))
        except Exception as e:  # noqa
            bad("DependenceFunctions.constant_function_drawn", e)
        plt.close("all")
    return recs


def key_of(case):
    if case["fn"] == "save":
        return (f"save contour={case.get('obj', 'standin')} npts={case['npts']} ndim={case['ndim']} sem={case['sem']} "
                f"path={'Path' if case.get('aspath') else 'str'}:{from_cps(case['path'])!r} seed={case['seed']}")
    if case["fn"] == "plot":
        return (f"plot_2D_contour contour={case.get('obj', 'standin')} npts={case['npts']} swap={case['swap']} "
                f"design_conditions={case['dc']} "
                f"sample={case['sample']} sem={case['sem']} ax={'given' if case['axgiven'] else 'None'} seed={case['seed']}")
    if case["fn"] == "design":
        return f"design contour={case['obj']} swap={case['swap']} seed={case['seed']}"
    if case["fn"] == "dataset":
        return (f"read_ec_benchmark_dataset rows={case['n']} cols={case['ncol']} order={case['order']} "
                f"digits={case.get('precision', '4dec')}"
                + (f" path=reused#{case['idx']}" if case.get("reuse") else ""))
    return case["label"]


def selftest_records():
    save = dict(kind="save", sem=1, ndim=2, names=[cps("a;b"), cps("höhe")], units=[cps(""), cps("m")],
                path=cps("d.v1/out"), coords=[[{"neg": True, "q": 0}, {"neg": False, "q": 1234568}]], exc="", nfiles=1,
                created=cps("d.v1/out.txt"), lines=[cps("a;b ();höhe (m)"), cps("-0.000000;1.234568")], endsnl=True,
                parseok=True, parsed=[[0, 1234568]])
    plot = dict(kind="plot", sem=0, ndim=2, names=[[], []], units=[[], []], symbols=[[], []],
                coords=[[1, 2], [3, 4], [5, 0]], swap=True, dckind="array", dcexp=[[7, 7]], hassample=True,
                sample=[[8, 9]], exc="", lines=[[[2, 1], [4, 3], [0, 5], [2, 1]]], scatters=[[[9, 8]], [[7, 7]]],
                retdc=True, retarr=[[7, 7]], retax=True,
                xlabel=cps("Variable 2, $\\it{X_2}$ (arb. unit)"), ylabel=cps("Variable 1, $\\it{X_1}$ (arb. unit)"))
    bb = [[[1, 2, 3, 4], [5, 6, 7, 8]], [[1, 2, 3, 4], [5, 6, 7, 9]]]
    ds = dict(kind="dataset", exc="", wantts=[10, 11], wantvals=[[1, 2], [3, 4]], wantbits=bb, wantcols=[cps("a"), cps("b")],
              gotlen=2, gotts=[10, 11], gotvals=[[1, 2], [3, 4]], gotbits=bb, gotcols=[cps("a"), cps("b")])
    arr = dict(kind="arrays", clause="X.y", got=[1, 2], want=[1, 2], tol=0, exc="")
    out = []
    k = 0

    def put(src, expect, **chg):
        nonlocal k
        k += 1
        r = dict(src)
        r.update(chg)
        r["id"] = 2_000_000_000 + k
        out.append((r, expect))

    put(save, [])
    put(save, ["PathRule"], created=cps("d.v1/out"))
    put(save, [], path=cps("d.v1/out.dat"), created=cps("d.v1/out.dat"))
    put(save, ["PathRule"], path=cps("d.v1/out.dat"), created=cps("d.v1/out.dat.txt"))
    put(save, [], path=cps(".hid"), created=cps(".hid.txt"))
    put(save, ["HeaderLine"], lines=[cps("a;b ( );höhe (m)"), cps("-0.000000;1.234568")])
    put(save, ["OneHeaderLine", "RowCount", "RowText", "ParsedRound6"], lines=[cps("a;b ();höhe (m)")], parsed=[])
    brk = dict(save, names=[cps("a\nb"), cps("höhe\r\n")], units=[cps("\rx"), cps("m")])
    put(brk, [], lines=[cps("a b ( x);höhe  (m)"), cps("-0.000000;1.234568")])
    put(brk, [], lines=[cps("ab (x);höhe (m)"), cps("-0.000000;1.234568")])
    put(brk, ["HeaderLine"], lines=[cps("a b (x);höhe(m)"), cps("-0.000000;1.234568")])
    put(brk, ["HeaderLine"], lines=[cps("a  b (x);höhe (m)"), cps("-0.000000;1.234568")])
    put(brk, ["OneHeaderLine", "RowCount", "RowText", "HeaderLine"],
        lines=[cps("a"), cps("b ("), cps("x);höhe"), cps(" (m)"), cps("-0.000000;1.234568")])
    put(brk, ["HeaderLine"], lines=[cps("a b (x);hohe (m)"), cps("-0.000000;1.234568")])
    put(save, ["RowText"], lines=[cps("a;b ();höhe (m)"), cps("-0.00000;1.23457")])
    put(save, ["RowText"], lines=[cps("a;b ();höhe (m)"), cps("0.000000;1.234568")])
    put(save, ["RowText"], lines=[cps("a;b ();höhe (m)"), cps("-0.000000,1.234568")])
    put(save, ["ParsedRound6"], parsed=[[0, 1234570]])
    put(save, ["NoException"], exc="X")
    put(plot, [])
    put(plot, ["Polyline"], lines=[[[2, 1], [4, 3], [0, 5]]])
    put(plot, ["Polyline"], lines=[[[1, 2], [3, 4], [5, 0], [1, 2]]])
    put(plot, ["OneLine"], lines=[[[2, 1], [4, 3], [0, 5], [2, 1]], [[0, 0]]])
    put(plot, ["Scatter"], scatters=[[[8, 9]], [[7, 7]]])
    put(plot, ["Scatter"], scatters=[[[9, 8]]])
    put(plot, ["DesignReturned"], retdc=False, retarr=[])
    put(plot, ["AxisLabels"], xlabel=cps("Variable 1, $\\it{X_1}$ (arb. unit)"))
    put(plot, ["NoException"], exc="ValueError: The truth value of an array")
    put(ds, [])
    put(ds, ["EveryRow", "TimeStampIndex", "RowsInOrder", "ExactValues"], gotlen=1, gotts=[10], gotvals=[[1, 2]],
        gotbits=bb[:1])
    put(ds, ["ExactValues"], gotbits=[bb[0], [[1, 2, 3, 4], [5, 6, 7, 8]]])
    put(ds, ["TimeStampIndex"], gotts=[11, 10])
    put(ds, ["RowsInOrder"], gotvals=[[3, 4], [1, 2]])
    put(ds, ["ColumnNames"], gotcols=[cps(" a"), cps("b")])
    put(arr, [])
    put(arr, ["X.y"], got=[1, 3])
    put(arr, ["X.y"], got=[1])
    return out


def execute(vc, ctx, case):
    if case["fn"] == "save":
        return save_record(vc, case, ctx.work / "files")
    if case["fn"] == "plot":
        return plot_record(vc, case)
    if case["fn"] == "dataset":
        return dataset_record(vc, case, ctx.work / "files")
    if case["fn"] == "design":
        return design_record(vc, case)
    raise Machinery(f"unknown case {case}")


def judge(ctx, vc, cases, extra, label, selftest=False):
    (ctx.work / "files").mkdir(parents=True, exist_ok=True)
    recs = []
    for c in cases:
        recs.append(execute(vc, ctx, c))
    allc = list(cases) + [dict(fn="arrays", label=r.get("label", r["clause"])) for r in extra]
    recs += extra
    for i, r in enumerate(recs):
        r["id"] = i + 1
    st = selftest_records() if selftest else []
    send = [{k: v for k, v in r.items() if k != "label"} for r in recs] + [r for r, _ in st]
    failing = ctx.validate("Trace_C20", "Trace_C20.cfg", send, chunk=3000, xss="512m")
    for r, expect in st:
        got = failing.pop(r["id"], [])
        if sorted(got) != sorted(expect):
            raise Machinery(f"selftest: synthetic record {r} expected rejection by {expect}, got {got}")
    for c, r in zip(allc, recs):
        nontrivial = not r.get("exc")
        ctx.case(key_of(c), nontrivial)
        for clause in failing.get(r["id"], []):
            detail = {k: (v if not isinstance(v, list) or len(v) <= 8 else v[:8] + ["..."]) for k, v in r.items()}
            if "lines" in detail and r["kind"] == "save":
                detail["lines"] = [from_cps(ln) for ln in r["lines"][:5]]
            ctx.violation(clause, key_of(c), f"record={detail}", replay=c)
    ctx.log(f"{label}: {len(recs)} executions judged, {sum(1 for r in recs if r['id'] in failing)} rejected")
    return recs


def run(ctx):
    vc = import_virocon()
    import matplotlib
    matplotlib.use("Agg")
    ctx.rule = ("TLC enumerates every configuration: save_contour_coordinates: 1-4 points x 2-D/3-D x semantics None or "
                "20 string assignments over {'Hs','Wave height','a;b','höhe','θ','m²','','x (y)', five strings with LF / "
                "CR LF / CR line breaks inside, leading, trailing, seven with a tab, double / triple / leading / "
                "trailing blanks, a blank next to a line break} x 10 paths "
                "(with/without extension, dotted directories, hidden files, trailing dot, spaces); plot_2D_contour: 1-4 "
                "points x swap_axis x design_conditions None/True/ndarray/list/tuple/list of tuples x sample x semantics x ax; "
                "real contour objects of all 2-D classes incl. a multi-region highest density contour (2-D; 3-D for "
                "saving) through save / plot / calculate_design_conditions; the driver supplies "
                "seeded coordinates incl. rounding ties, negative zero, 7+ decimals (quick 1, thorough 6 data seeds); "
                "plus read_ec_benchmark_dataset on synthetic files (1..1e4 rows, hourly/gaps/unordered, 2-3 columns; fresh "
                "paths and ONE path rewritten with different datasets and re-read after every rewrite) and "
                "the four other plot functions on fitted predefined models; plot_dependence_functions also on models whose "
                "dependence functions are constant and return a scalar / 0-d array / 1-element array (one constant, all "
                "constant; fitted and unfitted). distinct = distinct call; non-trivial = the "
                "call returned")
    ctx.trusted = ["TLC 1.8 evaluating spec/ExportOps.tla, spec/Trace_C20.tla",
                   "harness/c20.py: exact decimal rounding (decimal.Decimal) of the doubles, UTF-8 decoding of the file, "
                   "matplotlib artist getters (Line2D.get_xydata, PathCollection.get_offsets, Polygon.get_xy)",
                   "recording wrappers around model.marginal_icdf and Axes.contour (pass-through)"]
    ctx.assumptions = ["|coordinates| < 2000 so that value * 1e6 fits TLC's 32-bit integers",
                       "semantics strings are printable text, possibly with LF / CR LF / CR line breaks",
                       "contour objects for save/plot are stand-ins with a .coordinates attribute"]
    ctx.model_check("Export", ctx.pick("MC_Export_quick.cfg", "MC_Export_thorough.cfg"),
                    must_cover=("ResolvePath", "Write", "ReadBack", "Draw"))
    ctx.model_check("Export", "MC_Export_fmt5.cfg", expect_violation="ParsedIsRound6")
    ctx.model_check("Export", "MC_Export_noclose.cfg", expect_violation="ClosedPolyline")
    ctx.model_check("Export", "MC_Export_alwaystxt.cfg", expect_violation="PathRule")
    ctx.model_check("Export", "MC_Export_rawheader.cfg", expect_violation="OneHeaderLine")
    gen = ctx.generate("Export", "Gen_Export.cfg")
    gen.sort(key=lambda g: str(sorted(g.items())))
    cases = []
    for rep in range(ctx.pick(1, 6)):
        for i, g in enumerate(gen):
            cases.append(dict(g, idx=i, seed=ctx.seed * 100 + rep))
    depcases = [c for c in cases if c["fn"] == "depconst"]
    cases = [c for c in cases if c["fn"] != "depconst"]
    cases += list(dataset_cases(ctx))
    extra = []
    for c in depcases:
        extra += depconst_records(vc, c)
    ctx.notes["constant_dependence_function_plots"] = len(depcases)
    for name, model, data, sem in fitted_models(vc, ctx):
        extra += other_plots(vc, ctx, name, model, data, sem)
    recs = judge(ctx, vc, cases, extra, "configuration cases + other plot functions", selftest=True)
    ctx.notes["generated_configurations"] = len(gen)
    ctx.notes["array_comparisons_other_plot_functions"] = len(extra)
    ctx.exhaustive = True
    s = next(i for i, c in enumerate(cases) if c["fn"] == "save" and c["sem"] == 3)
    ctx.sample({"emitted": {k: v for k, v in cases[s].items()},
                "record": {k: v for k, v in recs[s].items() if k != "lines"},
                "file": [from_cps(x) for x in recs[s]["lines"]]})
    p = next(i for i, c in enumerate(cases) if c["fn"] == "plot" and c["dc"] == "array")
    ctx.sample({"emitted": cases[p], "record": recs[p]})


def replay(ctx, case):
    vc = import_virocon()
    import matplotlib
    matplotlib.use("Agg")
    c = case["case"]
    if c["fn"] == "arrays" and c["label"].startswith("constdep "):
        m = re.match(r"constdep returns=(\w+) constant=(\w+) fitted=(\w+) ", c["label"])
        sub = dict(fn="depconst", returns=m.group(1), constant=m.group(2), fitted=m.group(3) == "True", seed=ctx.seed, idx=0)
        judge(ctx, vc, [], [r for r in depconst_records(vc, sub) if r.get("label") == c["label"]], "replay")
    elif c["fn"] == "arrays":
        extra = []
        for name, model, data, sem in fitted_models(vc, ctx):
            extra += [r for r in other_plots(vc, ctx, name, model, data, sem) if r.get("label") == c["label"]]
        judge(ctx, vc, [], extra, "replay")
    elif c["fn"] == "dataset" and c.get("reuse"):
        # the failing read was preceded by another dataset at the same path
        judge(ctx, vc, [dict(c, idx=c["idx"] + 1000, n=c["n"] + 2), c], [], "replay")
    else:
        judge(ctx, vc, [c], [], "replay")
