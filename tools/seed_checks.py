#!/usr/bin/env python3
"""tools/seed_checks.py <id> - the checks recorded for a seeded change (those that caught it before, plus its own property)"""
import json, sys
m = json.load(open(f"/verif/seeded/{sys.argv[1]}/meta.json"))
ks = list((m.get("confirmed_by_lead", {}).get("checks") or {}).keys()) or [m.get("property")]
if m.get("property") not in ks:
    ks.append(m.get("property"))
print(",".join(ks))
