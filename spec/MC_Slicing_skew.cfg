SPECIFICATION Spec
CONSTANTS MaxLen = 3  MaxV = 6  Upw = 2  Skew = 1
CHECK_DEADLOCK FALSE
INVARIANT AtMostOne
INVARIANT ExactlyOne
INVARIANT MembershipIdeal
INVARIANT MaxIncluded
INVARIANT PointsChunkSizes
INVARIANT DropExactlySmall
INVARIANT ErrorIffTooFew
