# C18: a conditional parameter that is neither fixed nor given a dependence function
# (its entry in 'parameters' is None, or a plain number) is accepted at construction.
import sys
import numpy as np
from virocon import (GlobalHierarchicalModel, WeibullDistribution, LogNormalDistribution,
                     DependenceFunction)

def lin(x, a=1.0, b=0.1):
    return a + b * x

violations = 0
for n_dim in (2, 3, 4):
    for pos in range(1, n_dim):
        for bad in (None, 2.0):
            descs = [{"distribution": WeibullDistribution()}]
            for i in range(1, n_dim):
                descs.append({"distribution": LogNormalDistribution(), "conditional_on": i - 1,
                              "parameters": {"mu": DependenceFunction(lin),
                                             "sigma": DependenceFunction(lin)}})
            descs[pos]["parameters"]["sigma"] = bad   # sigma: not fixed (f_sigma is None) and no function
            try:
                m = GlobalHierarchicalModel(descs)
            except Exception as e:
                continue
            violations += 1
            # the defect only surfaces later, far from where it was supplied:
            try:
                m.pdf(np.ones((1, n_dim)))
                later = "pdf returned a value"
            except Exception as e:
                later = f"pdf -> {type(e).__name__}: {e}"
            print(f"n_dim={n_dim} dim={pos} sigma={bad!r}: accepted by GlobalHierarchicalModel(); {later}")
print("violations:", violations)
sys.exit(1 if violations else 0)
