"""C08 - a conditional distribution is its template evaluated at the dependence values.

M: TLC explores spec/ParamRouting.tla, scenario "cond": NewDist -> CondCall x NGiven for every
   family x non-empty dependent set D x chain kind x call shape x method; invariants
   CondEqualsTemplateAtValues, VectorisedEqualsPointwise, ChainedSameGiven, FixedSameForAllGiven;
   mutation configs (stale inner given, first-element given, dropped explicit parameter).
R: TLC emits every such case as JSON; each is instantiated on the real ConditionalDistribution /
   DependenceFunction classes (callables incl. signature defaults and chains of depth 1 and 2).
V: spec/Trace_C08.tla judges every execution and asserts that the executed set is CondCases.
Bounds: spec/ParamRoutingBounds.tla (Declare -> Eval / Fit; mutation ClipInit) emits ParamRoutingOps!BoundsCases:
   dependence functions declared WITH bounds= (declared defaults inside / outside the bounds), evaluated without a
   fit; the reference values are the driver's own calls of the python callables with their declared defaults.
"""
from __future__ import annotations

import json
import warnings

import numpy as np

from .common import Qc, Machinery, import_virocon, parse_tuple_fields
from . import distfam as D

LEVEL = "model_checking"
BIG = 2_000_000_000

XV = [0.9, 1.6, 2.3, 3.1, 1.6]
PV = [0.05, 0.3, 0.62, 0.97, 0.3]
GIVEN_VEC = ([0.6, 1.3, 2.2, 2.9, 1.3], [2.9, 0.6, 1.7, 1.3, 2.2])
GIVEN_SCA = (1.7, 2.9)
X_SCA = (1.6, 2.3)
P_SCA = (0.3, 0.62)


# dependence callables: only +, *, / so that the harness' own float arithmetic reproduces
# the values bit for bit (IEEE-754 correctly rounded in numpy and in python alike)
def _lin(x, a, b):
    return a + b * x


def _chain(x, a, b, inner):
    return a + b * x * inner(x)


def _chain_first(x, inner, a, b):      # the dependence-function parameter FIRST in the signature
    return a + b * x * inner(x)


def _chain_mid(x, a, inner, b):        # ... in the MIDDLE
    return a + b * x * inner(x)


def _const_default(V):
    def _const(x, a=V):                # returns a scalar whatever the shape of x
        return a

    return _const


def _const_ignoring_x(x, a, b):        # ignores x; coefficients assigned explicitly
    return a + 0 * b


def _mid(x, a, b, inner):
    return a + b * inner(x) / (1 + x)


def _with_defaults(A, B):
    def _defaults(x, c, a=A, b=B):   # c has no default: DependenceFunction uses 1
        return a + b * x * c

    return _defaults


def ref_value(spec, g):
    """the documented value of a dependence-function spec at the conditioning value g (python
    floats only); every inner function is evaluated at the SAME g"""
    kind = spec[0]
    if kind == "lin":
        return spec[1] + spec[2] * g
    if kind == "def":
        return spec[1] + spec[2] * g * 1
    if kind == "const":
        return spec[1]
    if kind == "chain":
        return spec[1] + spec[2] * g * ref_value(spec[3], g)
    if kind == "mid":
        return spec[1] + spec[2] * ref_value(spec[3], g) / (1 + g)
    raise KeyError(kind)


def make_deps(vc, fam, Dn, chain):
    """dependence function objects for the dependent names + their reference specs"""
    DF = vc.DependenceFunction
    names = D.NAMES[fam]
    S = D.STORED[fam]
    coef = {n: (S[n], round(0.01 * (names.index(n) + 2) * S[n], 9)) for n in Dn}
    deps, specs = {}, {}

    def plain(n):
        a, b = coef[n]
        f = DF(_lin)
        f.parameters = {"a": a, "b": b}
        return f, ("lin", a, b)

    first = Dn[0]
    chained = ("chain1", "chain2", "chainF", "chainM")
    for n in Dn:
        if n == first and chain in chained:
            continue
        if chain == "const":
            V = coef[n][0]
            if Dn.index(n) % 2 == 0:
                deps[n] = DF(_const_default(V))
            else:
                deps[n] = DF(_const_ignoring_x)
                deps[n].parameters = {"a": V, "b": 1.0}
            specs[n] = ("const", V)
        elif chain == "defaults":
            a, b = coef[n]
            deps[n] = DF(_with_defaults(a, b))
            specs[n] = ("def", a, b)
        else:
            deps[n], specs[n] = plain(n)
    if chain in chained:
        a, b = coef[first]
        if chain != "chain2":
            if len(Dn) >= 2:
                inner, ispec = deps[Dn[-1]], specs[Dn[-1]]   # shared object, as in the V-Hs model
            else:
                inner = DF(_lin)
                inner.parameters = {"a": 0.7, "b": 0.11}
                ispec = ("lin", 0.7, 0.11)
        else:
            inner2 = DF(_lin)
            inner2.parameters = {"a": 0.7, "b": 0.11}
            inner = DF(_mid, inner=inner2)
            inner.parameters = {"a": 0.6, "b": 0.3}
            ispec = ("mid", 0.6, 0.3, ("lin", 0.7, 0.11))
        f = DF({"chainF": _chain_first, "chainM": _chain_mid}.get(chain, _chain), inner=inner)
        f.parameters = {"a": a, "b": b}
        deps[first] = f
        specs[first] = ("chain", a, b, ispec)
    return {n: deps[n] for n in Dn}, specs


def inputs(variant, seed):
    """evaluation points and conditioning values: variant 0 canonical, others seeded random"""
    if variant in (0, -2):     # -2: canonical inputs, INTEGER-typed fixed values (see cond_record)
        return XV, PV, GIVEN_VEC, GIVEN_SCA, X_SCA, P_SCA
    if variant == -1:   # integer-typed conditioning values (python int, numpy integer scalar, int64 vector)
        return (XV, PV, (np.array([1, 2, 3, 2, 1], dtype=np.int64), np.array([3, 1, 2, 2, 3], dtype=np.int64)),
                (2, np.int64(3)), X_SCA, P_SCA)
    rng = np.random.default_rng(1000 * seed + variant)
    r = lambda lo, hi, n: [float(f"{v:.6g}") for v in rng.uniform(lo, hi, n)]
    gv = (r(0.5, 3.0, 5), r(0.5, 3.0, 5))
    gv[0][4] = gv[0][1]   # a repeated conditioning value
    return r(0.9, 3.1, 5), r(0.02, 0.98, 5), gv, tuple(r(0.5, 3.0, 2)), tuple(r(0.9, 3.1, 2)), tuple(r(0.02, 0.98, 2))


def kinds_agree(rec, call, g, res):
    """the vector of conditioning values as list / tuple / pandas Series gives the ndarray result"""
    import pandas as pd

    for name, conv in (("list", lambda a: [float(v) for v in a]), ("tuple", lambda a: tuple(float(v) for v in a)),
                       ("Series", lambda a: pd.Series(np.asarray(a, dtype=float)))):
        try:
            good = D.compare(call(conv(g)), res)[0]
            why = "differs from the ndarray result"
        except Exception as e:  # noqa
            good, why = False, f"{type(e).__name__}: {e}"[:80]
        if not good:
            rec["kindsame"] = False
            rec["kindbad"] = rec["kindbad"] or f"given as {name}: {why}"


def cond_record(vc, rid, case, seed=0, variant=0):
    XV, PV, GIVEN_VEC, GIVEN_SCA, X_SCA, P_SCA = inputs(variant, seed)
    fam, Dn, chain, shape, method = case["fam"], list(case["D"]), case["chain"], case["shape"], case["method"]
    names = D.NAMES[fam]
    fixedn = [n for n in names if n not in Dn]
    Fx = D.fixed_values(fam)
    if variant == -2:          # f_<name> given as python int (2 / 3): relayed explicitly to the template
        Fx = {n: 2 + names.index(n) % 2 for n in names}
    rec = dict(id=rid, kind="cond", variant=variant, fam=fam, D=Dn, chain=chain, shape=shape, method=method, exc="",
               shapeok=True, tplrel=0, vecrel=0, parrel=0, fixedok=True, ncmp=0, effective=False, indep=True,
               kindsame=True, kindbad="")
    const = chain == "const"
    xvec, gvec = shape[0] == "v", shape[1] == "v"
    worst = dict(tpl=0.0, vec=0.0, par=0.0)
    rs = 4242 + seed
    with warnings.catch_warnings(), np.errstate(all="ignore"):
        warnings.simplefilter("ignore")
        try:
            tmpl = D.build(vc, fam, {}, fixed={n: Fx[n] for n in fixedn})
            deps, specs = make_deps(vc, fam, Dn, chain)
            cond = vc.distributions.ConditionalDistribution(tmpl, deps)
            for call in (0, 1):
                g = np.array(GIVEN_VEC[call]) if gvec else GIVEN_SCA[call]
                if method == "draw_sample":
                    x = 5 if xvec else 1
                else:
                    vals, sca = (PV, P_SCA) if method == "icdf" else (XV, X_SCA)
                    x = np.array(vals) if xvec else sca[call]
                gl = [v.item() if hasattr(v, "item") else v
                      for v in (list(GIVEN_VEC[call]) if gvec else [GIVEN_SCA[call]])]
                refpar = [{n: (ref_value(specs[n], gi) if n in Dn else Fx[n]) for n in names} for gi in gl]
                # dependence function objects at the given(s)
                for n in Dn:
                    got = cond.conditional_parameters[n](g)
                    want = [p[n] for p in refpar] if gvec else refpar[0][n]
                    if const and np.ndim(got) == 0:     # constant in given: a scalar stands for every element
                        got = np.broadcast_to(got, np.shape(want))
                    _, shp, rel = D.compare(got, want)
                    worst["par"] = max(worst["par"], rel if shp else float("inf"))
                # fixed parameters
                pv = cond._get_param_values(g) if hasattr(cond, "_get_param_values") else dict(cond.fixed_parameters)
                for n in fixedn:
                    if not (np.all(np.asarray(pv[n]) == Fx[n]) and cond.fixed_parameters[n] == Fx[n]):
                        rec["fixedok"] = False
                if method == "draw_sample":
                    res = cond.draw_sample(x, g, random_state=rs)
                    if gvec:
                        expl = {n: (np.array([p[n] for p in refpar]) if n in Dn else Fx[n]) for n in names}
                        want = D.build(vc, fam).draw_sample(x, **expl, random_state=rs)
                        exp_shape = (x, len(gl))
                    else:
                        want = D.build(vc, fam, refpar[0]).draw_sample(x, random_state=rs)
                        exp_shape = (x,)
                    rec["shapeok"] = rec["shapeok"] and np.shape(res) == exp_shape
                    _, shp, rel = D.compare(res, want)
                    worst["tpl"] = max(worst["tpl"], rel if shp else float("inf"))
                    rec["ncmp"] += int(np.size(res))
                    # one independent variate per (row, conditioning value): no value repeated
                    rec["indep"] = rec["indep"] and np.unique(np.asarray(res)).size == int(np.prod(exp_shape))
                    if gvec and variant == 0 and call == 0:
                        kinds_agree(rec, lambda gg: cond.draw_sample(x, gg, random_state=rs), g, res)
                    try:   # does the dependence matter?  (the default NormFit instance cannot be evaluated)
                        base = tmpl.draw_sample(x, random_state=rs)
                        rec["effective"] = rec["effective"] or not D.compare(res, np.broadcast_to(
                            np.asarray(base).reshape((-1,) + (1,) * (np.ndim(res) - 1)), np.shape(res)))[0]
                    except Exception:  # noqa
                        rec["effective"] = True
                    continue
                fn = getattr(cond, method)
                res = fn(x, g)
                if gvec and variant == 0 and call == 0:
                    kinds_agree(rec, lambda gg: fn(x, gg), g, res)
                exp_shape = np.broadcast(np.asarray(x), np.asarray(g)).shape
                if const and np.shape(res) == np.shape(x):
                    # every parameter is constant in given: the value for every given is the value at x
                    res = np.broadcast_to(res, exp_shape)
                rec["shapeok"] = rec["shapeok"] and np.shape(res) == exp_shape
                resf = np.asarray(res, dtype=float).reshape(-1)
                nel = max(len(gl), len(XV) if xvec else 1)
                if resf.size != nel:
                    rec["shapeok"] = False
                    continue
                for i in range(nel):
                    xi = float(np.asarray(x).reshape(-1)[i if xvec else 0])
                    gi = gl[i if gvec else 0]
                    par = refpar[i if gvec else 0]
                    fresh = D.build(vc, fam, par)
                    tv = getattr(fresh, method)(xi)
                    _, shp, rel = D.compare(resf[i], tv)
                    worst["tpl"] = max(worst["tpl"], rel if shp else float("inf"))
                    sv = fn(xi, gi)
                    _, shp, rel = D.compare(resf[i], sv)
                    worst["vec"] = max(worst["vec"], rel if shp else float("inf"))
                    if np.ndim(sv) != 0:
                        rec["shapeok"] = False
                    rec["ncmp"] += 2
                try:
                    base = getattr(tmpl, method)(x)
                    rec["effective"] = rec["effective"] or not D.compare(
                        res, np.broadcast_to(np.asarray(base, dtype=float), np.shape(res)))[0]
                except Exception:  # noqa
                    rec["effective"] = True
        except Exception as e:  # noqa
            rec["exc"] = f"{type(e).__name__}: {e}"[:200]
    rec.update(tplrel=Qc(worst["tpl"], 1e15, 0, BIG), vecrel=Qc(worst["vec"], 1e15, 0, BIG),
               parrel=Qc(worst["par"], 1e15, 0, BIG))
    return rec


HIST_FAMS = ["ExpWeibull", "Weibull", "LogNormal", "Normal", "GenGamma", "VonMises", "NormFit",
             "ScipyGamma", "ScipyRayleigh", "ScipyBeta"]


def condhist_record(vc, rid, hcase, index):
    """One TLC history of ParamRoutingMemo on a real ConditionalDistribution whose first dependent
    parameter has a chained dependence function of the given depth.  E<g>: evaluate cdf/pdf/icdf
    at conditioning value g (nothing else is evaluated in between); S<k>: assign new coefficients
    to the function of level k; F: fit the innermost function to new data.  After every E the
    result must be the fresh template at the CURRENT dependence values."""
    depth, steps = int(hcase["depth"]), list(hcase["steps"])
    fam = HIST_FAMS[index % len(HIST_FAMS)]
    names = D.NAMES[fam]
    Dn = list(names) if (index // len(HIST_FAMS)) % 2 == 0 else [names[0]]
    fixedn = [n for n in names if n not in Dn]
    Fx = D.fixed_values(fam)
    mode = (index // 3) % 3          # conditioning value: float scalar / float vector / integer vector
    gtab = {0: {"E1": 1.7, "E2": 2.9},
            1: {"E1": np.array([0.6, 1.3, 2.2]), "E2": np.array([2.9, 0.6, 1.3])},
            2: {"E1": np.array([1, 2, 3], dtype=np.int64), "E2": np.array([3, 1, 2], dtype=np.int64)}}[mode]
    rec = dict(id=rid, kind="condhist", depth=depth, steps=steps, fam=fam, D=Dn, gmode=mode, exc="",
               tplrel=0, parrel=0, nev=0, badstep="")
    worst = dict(tpl=0.0, par=0.0)
    with warnings.catch_warnings(), np.errstate(all="ignore"):
        warnings.simplefilter("ignore")
        try:
            DF = vc.DependenceFunction
            first = Dn[0]
            S = D.STORED[fam]
            lev = {}
            innermost = DF(_lin)
            innermost.parameters = {"a": 0.7, "b": 0.11}
            if depth == 1:
                lev[2] = innermost
            else:
                lev[3] = innermost
                lev[2] = DF(_mid, inner=innermost)
                lev[2].parameters = {"a": 0.6, "b": 0.3}
            lev[1] = DF(_chain, inner=lev[2])
            lev[1].parameters = {"a": S[first], "b": round(0.02 * S[first], 9)}
            deps = {first: lev[1]}
            others = {}
            for n in Dn[1:]:
                f = DF(_lin)
                f.parameters = {"a": S[n], "b": round(0.01 * (names.index(n) + 2) * S[n], 9)}
                deps[n] = f
                others[n] = ("lin", f.parameters["a"], f.parameters["b"])
            tmpl = D.build(vc, fam, {}, fixed={n: Fx[n] for n in fixedn})
            cond = vc.distributions.ConditionalDistribution(tmpl, deps)

            def spec_first():
                c = {k: (float(v.parameters["a"]), float(v.parameters["b"])) for k, v in lev.items()}
                inner = ("lin",) + c[depth + 1]
                if depth == 2:
                    inner = ("mid",) + c[2] + (inner,)
                return ("chain",) + c[1] + (inner,)

            nset = 0
            for si, st in enumerate(steps):
                if st[0] == "S":
                    nset += 1
                    f = lev[int(st[1])]
                    f.parameters = {k: float(f"{float(v) * (1 + 0.13 * nset):.9g}") for k, v in f.parameters.items()}
                    continue
                if st == "F":
                    nset += 1
                    xs = np.array([0.5, 1.0, 2.0, 3.0, 4.0])
                    innermost.fit(xs, (0.7 + 0.05 * nset) + (0.11 + 0.02 * nset) * xs)
                    continue
                g = gtab[st]
                gl = [v.item() for v in g] if np.ndim(g) else [g]
                spec1 = spec_first()
                for meth in ("cdf", "pdf", "icdf"):
                    xv = (PV if meth == "icdf" else XV)[:len(gl)]
                    x = np.array(xv) if np.ndim(g) else xv[0]
                    res = np.asarray(getattr(cond, meth)(x, g), dtype=float).reshape(-1)
                    for i, gi in enumerate(gl):
                        par = {n: (ref_value(spec1 if n == first else others[n], gi) if n in Dn else Fx[n])
                               for n in names}
                        tv = getattr(D.build(vc, fam, par), meth)(xv[i])
                        _, shp, rel = D.compare(res[i] if res.size == len(gl) else np.nan, tv)
                        rel = rel if shp else float("inf")
                        if rel > 1e-13 and not rec["badstep"]:
                            rec["badstep"] = f"{si + 1}:{st}"
                        worst["tpl"] = max(worst["tpl"], rel)
                    rec["nev"] += 1
                got = lev[1](g)
                want = [ref_value(spec1, gi) for gi in gl] if np.ndim(g) else ref_value(spec1, gl[0])
                _, shp, rel = D.compare(got, want)
                worst["par"] = max(worst["par"], rel if shp else float("inf"))
        except Exception as e:  # noqa
            rec["exc"] = f"{type(e).__name__}: {e}"[:200]
    rec.update(tplrel=Qc(worst["tpl"], 1e15, 0, BIG), parrel=Qc(worst["par"], 1e15, 0, BIG))
    return rec


def hist_key(h, i):
    return (f"history depth={h['depth']} steps={'-'.join(h['steps'])} "
            f"template={HIST_FAMS[i % len(HIST_FAMS)]} gmode={(i // 3) % 3}")


def _sq(x, a, b):
    return a + b * x ** 2


def _inv(x, a, b):
    return a + b * x ** -1


def narrow_given(gkind):
    """(given in the narrow type, the same values as python floats)"""
    vals = [100, 200, 300]
    if gkind == "intlist":
        return list(vals), [float(v) for v in vals]
    if gkind == "int16array":
        return np.array(vals, dtype=np.int16), [float(v) for v in vals]
    if gkind == "int64array":
        return np.array(vals, dtype=np.int64), [float(v) for v in vals]
    if gkind == "float16array":
        return np.array(vals, dtype=np.float16), [float(v) for v in vals]
    if gkind == "int16scalar":
        return np.int16(300), [300.0]
    return np.int64(300), [300.0]


def conddtype_record(vc, rid, case, seed=0):
    fam, gkind, fn, method = case["fam"], case["gkind"], case["fn"], case["method"]
    names = D.NAMES[fam]
    rec = dict(id=rid, kind="conddtype", fam=fam, gkind=gkind, fn=fn, method=method, exc="", shapeok=True,
               tplrel=0, vecrel=0, ncmp=0)
    worst = dict(tpl=0.0, vec=0.0)
    rs = 555 + seed
    with warnings.catch_warnings(), np.errstate(all="ignore"):
        warnings.simplefilter("ignore")
        try:
            S = D.STORED[fam]
            deps, coef = {}, {}
            for k, n in enumerate(names):
                a, b = S[n], (1e-6 * (k + 1) * S[n] if fn == "sq" else S[n])
                f = vc.DependenceFunction(_sq if fn == "sq" else _inv)
                f.parameters = {"a": a, "b": b}
                deps[n], coef[n] = f, (a, b)
            cond = vc.distributions.ConditionalDistribution(D.build(vc, fam), deps)
            g, gl = narrow_given(gkind)
            ref = lambda n, gi: coef[n][0] + coef[n][1] * (gi * gi if fn == "sq" else 1.0 / gi)
            refpar = [{n: ref(n, gi) for n in names} for gi in gl]
            vec = np.ndim(g) > 0 or isinstance(g, list)
            xs = (PV if method == "icdf" else XV)[:len(gl)]
            if method == "draw_sample":
                res = cond.draw_sample(3, g, random_state=rs)
                if vec:
                    want = D.build(vc, fam).draw_sample(3, **{n: np.array([p[n] for p in refpar]) for n in names},
                                                       random_state=rs)
                else:
                    want = D.build(vc, fam, refpar[0]).draw_sample(3, random_state=rs)
                rec["shapeok"] = np.shape(res) == ((3, len(gl)) if vec else (3,))
                _, shp, rel = D.compare(res, want)
                worst["tpl"] = rel if shp else float("inf")
                rec["ncmp"] = int(np.size(res))
            else:
                x = np.array(xs) if vec else xs[0]
                fnc = getattr(cond, method)
                res = np.asarray(fnc(x, g), dtype=float)
                rec["shapeok"] = res.shape == ((len(gl),) if vec else ())
                resf = res.reshape(-1)
                for i, gi in enumerate(gl):
                    if i >= resf.size:
                        break
                    tv = getattr(D.build(vc, fam, refpar[i]), method)(xs[i])
                    _, shp, rel = D.compare(resf[i], tv)
                    worst["tpl"] = max(worst["tpl"], rel if shp else float("inf"))
                    one = g[i] if vec else g          # one element of the container, in its own type
                    _, shp, rel = D.compare(resf[i], fnc(xs[i], one))
                    worst["vec"] = max(worst["vec"], rel if shp else float("inf"))
                    rec["ncmp"] += 2
        except Exception as e:  # noqa
            rec["exc"] = f"{type(e).__name__}: {e}"[:160]
    rec.update(tplrel=Qc(worst["tpl"], 1e15, 0, BIG), vecrel=Qc(worst["vec"], 1e15, 0, BIG))
    return rec


def dtype_key(c):
    return f"{c['fam']} {c['method']} given={c['gkind']} dependence={'a+b*x**2' if c['fn'] == 'sq' else 'a+b*x**-1'}"


def _bounded(A, B):
    def _bounded_defaults(x, c, a=A, b=B):            # c declares no default: 1
        return a + b * x * c

    return _bounded_defaults


def _bounded_chain(A, B):
    def _bounded_chained(x, c, inner, a=A, b=B):      # inner: a second dependence function
        return a + b * x * c * inner(x)

    return _bounded_chained


def bounds_of(bkind, A, B):
    """bounds= for the coefficients (c, a, b) of _bounded(A, B) (A, B > 0, c -> 1): the kinds of
    ParamRoutingOps!BoundsKinds, in the notations virocon accepts (None / +-inf for "no bound",
    tuples / lists)"""
    inf = float("inf")
    return {"inside": [(0, None), (0, None), (None, None)],
            "above": [[-inf, inf], [0, A / 2], [0, inf]],
            "below": [(None, None), (None, None), (2 * B, None)],
            "implicit": [(2, 3), (0, None), (0, None)],
            "zero": [(None, 0), (None, None), (None, 0.0)]}[bkind]


def condbounds_record(vc, rid, case, seed=0):
    """One case of ParamRoutingOps!BoundsCases: every parameter of the family has a dependence function
    declared WITH bounds= and is evaluated without a fit.  The reference value of a parameter at g is
    the driver's own call of the python callable with its declared defaults (c = 1), one python float
    at a time - never a call of the DependenceFunction object."""
    fam, bkind, chain, shape, method = case["fam"], case["bkind"], case["chain"], case["shape"], case["method"]
    names = D.NAMES[fam]
    S = D.STORED[fam]
    rec = dict(id=rid, kind="condbounds", fam=fam, bkind=bkind, chain=chain, shape=shape, method=method, exc="",
               shapeok=True, tplrel=0, vecrel=0, parrel=0, ncmp=0)
    worst = dict(tpl=0.0, vec=0.0, par=0.0)
    vec = shape == "vv"
    rs = 777 + seed
    with warnings.catch_warnings(), np.errstate(all="ignore"):
        warnings.simplefilter("ignore")
        try:
            DF = vc.DependenceFunction
            deps, ref = {}, {}
            for n in names:
                A, B = S[n], round(0.01 * (names.index(n) + 2) * S[n], 9)
                if chain == "chained":
                    inner_fn = _bounded(0.7, 0.11)
                    inner = DF(inner_fn, bounds=bounds_of(bkind, 0.7, 0.11))
                    fn = _bounded_chain(A, B)
                    deps[n] = DF(fn, bounds=bounds_of(bkind, A, B), inner=inner)
                    ref[n] = (lambda fn, inner_fn: lambda gi: fn(gi, 1, lambda x: inner_fn(x, 1)))(fn, inner_fn)
                else:
                    fn = _bounded(A, B)
                    deps[n] = DF(fn, bounds_of(bkind, A, B)) if names.index(n) % 2 else DF(fn, bounds=bounds_of(bkind, A, B))
                    ref[n] = (lambda fn: lambda gi: fn(gi, 1))(fn)
            cond = vc.distributions.ConditionalDistribution(D.build(vc, fam), deps)
            g = np.array(GIVEN_VEC[0]) if vec else GIVEN_SCA[0]
            gl = [float(v) for v in (GIVEN_VEC[0] if vec else [GIVEN_SCA[0]])]
            refpar = [{n: float(ref[n](gi)) for n in names} for gi in gl]
            for n in names:
                got = cond.conditional_parameters[n](g)
                want = [p[n] for p in refpar] if vec else refpar[0][n]
                _, shp, rel = D.compare(got, want)
                worst["par"] = max(worst["par"], rel if shp else float("inf"))
            if method == "draw_sample":
                x = 5 if vec else 1
                res = cond.draw_sample(x, g, random_state=rs)
                if vec:
                    want = D.build(vc, fam).draw_sample(x, **{n: np.array([p[n] for p in refpar]) for n in names},
                                                       random_state=rs)
                else:
                    want = D.build(vc, fam, refpar[0]).draw_sample(x, random_state=rs)
                rec["shapeok"] = np.shape(res) == ((x, len(gl)) if vec else (x,))
                _, shp, rel = D.compare(res, want)
                worst["tpl"] = rel if shp else float("inf")
                rec["ncmp"] = int(np.size(res))
            else:
                vals, sca = (PV, P_SCA) if method == "icdf" else (XV, X_SCA)
                xs = list(vals) if vec else [sca[0]]
                fnc = getattr(cond, method)
                res = np.asarray(fnc(np.array(xs) if vec else xs[0], g), dtype=float)
                rec["shapeok"] = res.shape == ((len(gl),) if vec else ())
                resf = res.reshape(-1)
                for i, gi in enumerate(gl):
                    if i >= resf.size:
                        break
                    tv = getattr(D.build(vc, fam, refpar[i]), method)(xs[i])
                    _, shp, rel = D.compare(resf[i], tv)
                    worst["tpl"] = max(worst["tpl"], rel if shp else float("inf"))
                    _, shp, rel = D.compare(resf[i], fnc(xs[i], gi))
                    worst["vec"] = max(worst["vec"], rel if shp else float("inf"))
                    rec["ncmp"] += 2
        except Exception as e:  # noqa
            rec["exc"] = f"{type(e).__name__}: {e}"[:160]
    rec.update(tplrel=Qc(worst["tpl"], 1e15, 0, BIG), vecrel=Qc(worst["vec"], 1e15, 0, BIG),
               parrel=Qc(worst["par"], 1e15, 0, BIG))
    return rec


def bounds_key(c):
    return f"{c['fam']} {c['method']} bounds={c['bkind']} chain={c['chain']} shape={c['shape']} unfitted"


def key_of(c):
    return f"{c['fam']} {c['method']} dependent={'+'.join(c['D'])} chain={c['chain']} shape={c['shape']}"


QUICK_INT_CHAINS = ("plain", "const")      # = QuickIntChains of spec/ParamRoutingOps.tla


def judge(ctx, vc, cases, summary=True, variants=(0,), hists=(), dcases=(), bcases=()):
    part = [v for v in variants if v in (-1, -2) and ctx.quick and summary]
    cases = [dict(c, variant=c.get("variant", v)) for v in variants for c in cases
             if not (v in part and c["chain"] not in QUICK_INT_CHAINS)]
    recs = [cond_record(vc, i + 1, c, ctx.seed, c["variant"]) for i, c in enumerate(cases)]
    hrecs = [condhist_record(vc, len(recs) + i + 1, h, i) for i, h in enumerate(hists)]
    drecs = [conddtype_record(vc, len(recs) + len(hrecs) + i + 1, c, ctx.seed) for i, c in enumerate(dcases)]
    brecs = [condbounds_record(vc, len(recs) + len(hrecs) + len(drecs) + i + 1, c, ctx.seed)
             for i, c in enumerate(bcases)]
    allrecs = recs + hrecs + drecs + brecs
    if summary:
        allrecs.append(dict(id=len(allrecs) + 1, kind="summary", fullreps=len(variants) - len(part),
                            partreps=len(part)))
    failing = ctx.validate("Trace_C08", "Trace_C08.cfg", allrecs)
    for c, r in zip(cases, recs):
        ctx.case(f"cond {key_of(c)} v{c['variant']}", nontrivial=r["exc"] == "" and r["effective"])
        for clause in failing.get(r["id"], []):
            ctx.violation(clause, key_of(c),
                          f"exc={r['exc']!r} tplrel={r['tplrel']}e-15 vecrel={r['vecrel']}e-15 "
                          f"parrel={r['parrel']}e-15 shapeok={r['shapeok']} fixedok={r['fixedok']} {r['kindbad']}", replay=c)
    for i, (h, r) in enumerate(zip(hists, hrecs)):
        ctx.case(hist_key(h, i), nontrivial=r["exc"] == "" and any(st[0] in "SF" for st in h["steps"]))
        for clause in failing.get(r["id"], []):
            ctx.violation(clause, hist_key(h, i),
                          f"exc={r['exc']!r} tplrel={r['tplrel']}e-15 parrel={r['parrel']}e-15 "
                          f"first stale step {r['badstep']}", replay=dict(kind="condhist", case=h, index=i))
    for c, r in zip(dcases, drecs):
        ctx.case("conddtype " + dtype_key(c), nontrivial=r["exc"] == "")
        for clause in failing.get(r["id"], []):
            ctx.violation(clause, dtype_key(c), f"exc={r['exc']!r} tplrel={r['tplrel']}e-15 vecrel={r['vecrel']}e-15 "
                          f"shapeok={r['shapeok']}", replay=dict(kind="conddtype", case=c))
    for c, r in zip(bcases, brecs):
        ctx.case("condbounds " + bounds_key(c), nontrivial=r["exc"] == "" and c["bkind"] != "inside")
        for clause in failing.get(r["id"], []):
            ctx.violation(clause, bounds_key(c), f"exc={r['exc']!r} tplrel={r['tplrel']}e-15 vecrel={r['vecrel']}e-15 "
                          f"parrel={r['parrel']}e-15 shapeok={r['shapeok']}", replay=dict(kind="condbounds", case=c))
    if summary and failing.get(allrecs[-1]["id"]):
        raise Machinery(f"coverage clauses rejected: {failing[allrecs[-1]['id']]}")
    ctx.log(f"{len(recs)} conditional executions, {len(hrecs)} chained-function histories judged, "
            f"{sum(1 for r in allrecs if r['id'] in failing)} rejected")
    return cases, recs, failing


def selftest(ctx, rec, hrec=None, brec=None):
    import copy

    muts = []
    if brec is not None:
        for clause, chg in (("DependenceValueIsCallableValue", dict(parrel=10 ** 8)),
                            ("CondEqualsTemplateAtValues", dict(tplrel=10 ** 8)),
                            ("VectorisedEqualsPointwise", dict(vecrel=5000)), ("Compared", dict(ncmp=0))):
            r = copy.deepcopy(brec)
            r.update(chg)
            r["id"] = 900000 + len(muts)
            muts.append((r, clause))
    if hrec is not None:
        for clause, chg in (("CondEqualsTemplateAtValues", dict(tplrel=10 ** 8)), ("ChainedSameGiven", dict(parrel=10 ** 8)),
                            ("Compared", dict(nev=0))):
            r = copy.deepcopy(hrec)
            r.update(chg)
            r["id"] = 900000 + len(muts)
            muts.append((r, clause))
    for clause, chg in (("CondEqualsTemplateAtValues", dict(tplrel=5000)),
                        ("VectorisedEqualsPointwise", dict(vecrel=5000)),
                        ("ChainedSameGiven", dict(parrel=10 ** 9)),
                        ("FixedSameForAllGiven", dict(fixedok=False)),
                        ("ResultShape", dict(shapeok=False)),
                        ("GivenKindsAgree", dict(kindsame=False)),
                        ("SampleRowsIndependent", dict(indep=False, method="draw_sample")),
                        ("Compared", dict(ncmp=0)),
                        ("UnexpectedException", dict(exc="ValueError: x"))):
        r = copy.deepcopy(rec)
        r.update(chg)
        r["id"] = 900000 + len(muts)
        muts.append((r, clause))
    failing = ctx.validate("Trace_C08", "Trace_C08.cfg", [m for m, _ in muts])
    ctx.traces -= len(muts) - len(failing)
    for m, clause in muts:
        if clause not in failing.get(m["id"], []):
            raise Machinery(f"self-test: corrupted record not rejected by {clause} (got {failing.get(m['id'])})")
    ctx.notes["selftest_corrupted_records_rejected"] = len(muts)


def run(ctx):
    vc = import_virocon()
    D.check_distinct()
    ctx.rule = ("TLC enumerates every (family as template, non-empty dependent subset D of its parameter names "
                "[the others fixed], chain kind plain/defaults/chain1/chain2/chainF/chainM (dependence-function parameter "
                "last/first/middle in the signature)/const (callables constant in given: scalar-returning or ignoring "
                "x), call shape x scalar|vector x given "
                "scalar|vector, method pdf/cdf/icdf/draw_sample); each is instantiated on the real classes and "
                "called twice with different conditioning values, with float and with integer-typed conditioning values and with integer-typed fixed values (quick: both "
                "integer variants for the plain and const chain kinds) "
                "(thorough: 3 more seeded random input variants); plus every history of <= 4 steps (evaluate at g1/g2, "
                "assign new coefficients to a level, fit the innermost level) of a chained dependence function of depth "
                "1 and 2, replayed on a real ConditionalDistribution (template family, dependent set and conditioning "
                "value kind rotate with the history index); plus every (family, bounds kind inside/above/below/implicit/"
                "zero, plain/chained, scalar/vector, method) with dependence functions declared with bounds= and "
                "evaluated unfitted (non-trivial: a declared default outside its bounds); non-trivial = the result differs from the "
                "template evaluated without the dependence values; distinct = distinct case tuple")
    ctx.trusted = ["TLC 1.8 evaluating spec/ParamRoutingOps.tla / Trace_C08.tla",
                   "harness/c08.py reference arithmetic of the dependence callables (+, *, / only; IEEE exact)",
                   "a fresh template instance constructed with the reference values as the oracle"]
    ctx.assumptions = ["draw_sample: equality of the draw under the same integer seed; for a vector given the oracle "
                       "is the template called with the resolved parameter vectors explicitly (an instance cannot "
                       "hold one value per element); no per-element comparison of samples",
                       "fixed values are observed through ConditionalDistribution._get_param_values (falls back to "
                       ".fixed_parameters if the method is renamed)",
                       "evaluation points lie inside the support for every given"]
    ctx.model_check("ParamRouting", ctx.pick("MC_ParamRouting_cond_quick.cfg", "MC_ParamRouting_cond_thorough.cfg"),
                    must_cover=("NewDist", "CondCall"))
    ctx.model_check("ParamRouting", "MC_ParamRouting_cond_mut_stale.cfg", expect_violation="ChainedSameGiven")
    ctx.model_check("ParamRouting", "MC_ParamRouting_cond_mut_vec.cfg", expect_violation="VectorisedEqualsPointwise")
    ctx.model_check("ParamRouting", "MC_ParamRouting_cond_mut_drop.cfg",
                    expect_violation="CondEqualsTemplateAtValues")
    ctx.model_check("ParamRouting", "MC_ParamRouting_cond_mut_const.cfg", expect_violation="OneResultPerGiven")
    for d in (1, 2):
        ctx.model_check("ParamRoutingMemo", f"MC_ParamRoutingMemo_d{d}.cfg", must_cover=("Step",))
    ctx.model_check("ParamRoutingMemo", "MC_ParamRoutingMemo_mut.cfg",
                    expect_violation="CondEqualsTemplateAlongHistory")
    cases = ctx.generate("ParamRouting", "Gen_ParamRouting_cond.cfg")
    hists = (ctx.generate("ParamRoutingMemo", "Gen_ParamRoutingMemo_d1.cfg")
             + ctx.generate("ParamRoutingMemo", "Gen_ParamRoutingMemo_d2.cfg"))
    dcases = ctx.generate("ParamRoutingDtypeGen", "Gen_ParamRoutingDtype.cfg")
    # dependence functions declared with bounds=, evaluated unfitted: legs M and R in one TLC run (the model's
    # invariant and the Emit invariant of the same module), then the mutated constructor
    mr = ctx.model_check("ParamRoutingBounds", "MC_ParamRoutingBounds.cfg", must_cover=("Declare", "Eval", "Fit"),
                         workers=2)
    bcases = [json.loads(parse_tuple_fields(raw)[1]) for raw in sorted(set(mr.tuples("BEH")))]
    ctx.model_check("ParamRoutingBounds", "MC_ParamRoutingBounds_mut.cfg",
                    expect_violation="BoundsDoNotInfluenceEvaluation", workers=2)
    cases, recs, failing = judge(ctx, vc, cases, variants=ctx.pick((0, -1, -2), (0, -1, -2, 1, 2, 3)), hists=hists,
                                 dcases=dcases, bcases=bcases)
    ctx.notes["bounded_unfitted_dependence_cases"] = len(bcases)
    ctx.notes["narrow_dtype_given_cases"] = len(dcases)
    ctx.notes["chained_function_histories"] = len(hists)
    good = next((r for r in recs if r["id"] not in failing and r["shape"] == "vv" and r["chain"] == "chain2"), None)
    if good is not None:
        hr = condhist_record(vc, 1, dict(depth=2, steps=["E1", "S2", "E1"]), 1)
        br = condbounds_record(vc, 1, dict(fam="LogNormal", bkind="inside", chain="chained", shape="vv", method="cdf"))
        selftest(ctx, good, hr if hr["exc"] == "" and hr["tplrel"] == 0 else None,
                 br if br["exc"] == "" and br["tplrel"] == 0 and br["parrel"] == 0 else None)
    elif not ctx.violations:
        raise Machinery("no accepted record to run the self-test on")
    else:
        ctx.notes["selftest"] = "skipped: no accepted chained vector record (violations are reported)"
    k = next(i for i, c in enumerate(cases) if c["chain"] == "chain2" and c["shape"] == "vv")
    ctx.sample({"case": cases[k], "record": recs[k]})
    ctx.sample({"case": cases[len(cases) // 2], "record": recs[len(cases) // 2]})
    ctx.exhaustive = True
    ctx.notes["cond_executions"] = len(cases)
    ctx.notes["max_tplrel_e15"] = max(r["tplrel"] for r in recs)
    ctx.notes["max_vecrel_e15"] = max(r["vecrel"] for r in recs)


def replay(ctx, case):
    vc = import_virocon()
    c = case["case"]
    if c.get("kind") == "conddtype":
        r = conddtype_record(vc, 1, c["case"], ctx.seed)
        failing = ctx.validate("Trace_C08", "Trace_C08.cfg", [r])
        ctx.case(dtype_key(c["case"]))
        for clause in failing.get(1, []):
            ctx.violation(clause, dtype_key(c["case"]), f"exc={r['exc']!r} tplrel={r['tplrel']}", replay=c)
        return
    if c.get("kind") == "condbounds":
        r = condbounds_record(vc, 1, c["case"], ctx.seed)
        failing = ctx.validate("Trace_C08", "Trace_C08.cfg", [r])
        ctx.case(bounds_key(c["case"]))
        for clause in failing.get(1, []):
            ctx.violation(clause, bounds_key(c["case"]), f"exc={r['exc']!r} tplrel={r['tplrel']} parrel={r['parrel']}",
                          replay=c)
        return
    if c.get("kind") == "condhist":
        r = condhist_record(vc, 1, c["case"], c["index"])
        failing = ctx.validate("Trace_C08", "Trace_C08.cfg", [r])
        ctx.case(hist_key(c["case"], c["index"]))
        for clause in failing.get(1, []):
            ctx.violation(clause, hist_key(c["case"], c["index"]), f"tplrel={r['tplrel']} badstep={r['badstep']}",
                          replay=c)
        return
    judge(ctx, vc, [c], summary=False, variants=(c.get("variant", 0),))
