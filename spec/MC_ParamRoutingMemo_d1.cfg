SPECIFICATION Spec
CONSTANTS Depth = 1  MaxLen = 4  Memo = FALSE
CHECK_DEADLOCK FALSE
INVARIANT CondEqualsTemplateAlongHistory
