----------------------------- MODULE Trace_C09 -----------------------------
(* Trace validation for C09 (GlobalHierarchicalModel.fit).                              *)
(*  kind "dim":   one fitted conditional dimension of one model fit.  The conditioning   *)
(*     column is on the lattice of SlicingOps (cdata, units; slicer fields as in C10).   *)
(*     Observed through recording wrappers (no repo change): the masks and references    *)
(*     returned by the slicer for this dimension (kept intervals), whether the data of   *)
(*     every interval handed to the per-interval fit are exactly data[mask, dim]         *)
(*     (datamasked), whether each per-interval estimate is bitwise the stand-alone fit   *)
(*     of a copy of the template to exactly those observations (standalone), the (x, y)  *)
(*     handed to every dependence function (depx in quarter units, depyok), and - from   *)
(*     a second fit of a fresh model to the row-permuted data - the original row ids of  *)
(*     every interval (permmembers) and the deviation of estimates / dependence          *)
(*     parameters (units 1e-9 relative).  Independent references computed by the driver  *)
(*     in double precision: mledev[t] - deviation of the (mu, sigma) estimate of interval *)
(*     t of a normal / log-normal dimension fitted by MLE from the closed-form maximum-   *)
(*     likelihood estimate (mean and root mean square deviation of the (log) values) of   *)
(*     the float64 copy of exactly the rows of the interval, whatever the type of the     *)
(*     data matrix; wdepdev[p] - deviation of the fitted parameters of the p-th linear-   *)
(*     in-parameters dependence function from the closed-form minimiser of                *)
(*     sum(w_i (f(x_i) - y_i)^2) over the (interval reference value, estimate) pairs,     *)
(*     w = weights(x, y) of the function (1 without weights), with or without bounds.     *)
(*  kind "model": the sequence of (method, weights) with which Distribution.fit was      *)
(*     called during one model fit, against the fit descriptions.                        *)
EXTENDS SlicingOps, Json, IOUtils, TLC

TraceLog == ndJsonDeserialize(IOEnv.TRACE_FILE)
VARIABLE l

N(r) == Len(r.cdata)
K(r) == Len(r.masks)

(* ideal 1-based index of a kept interval, from its reported lower boundary (quarter units) *)
KIdx(r, t) == IF r.upw = 0 THEN t ELSE ((r.loq[t] - 4 * r.lo) \div (4 * r.upw)) + 1

IdealK(r) == CASE r.kind2 = "width" -> WidthCount(r.lo, r.hi, r.upw)
               [] r.kind2 = "number" -> r.n
               [] r.kind2 = "points" -> Len(ChunkBounds(N(r), r.n, r.lastfull))
Acc(r, j) == CASE r.kind2 = "width" -> Acceptable(r.cdata[j], r.lo, r.upw, r.ropen, r.exact, IdealK(r) + 1)
               [] r.kind2 = "number" -> NumAcceptable(r.cdata[j], r.lo, r.hi, r.upw, r.n, r.incmax, r.exact)
Cov(r, j) == CASE r.kind2 = "width" -> Covered(r.cdata[j], r.lo, r.hi, r.ropen)
               [] r.kind2 = "number" -> NumCovered(r.cdata[j], r.lo, r.hi, r.incmax)

(* equal-width slicers: interval t holds exactly the rows whose conditioning value falls in it *)
OwnDataEqualWidth(r) ==
    /\ \A t \in 1..K(r) : \A j \in Ones(r.masks[t]) : KIdx(r, t) \in Acc(r, j)
    /\ \A j \in 1..N(r) :
         Cov(r, j) /\ (\E t \in 1..K(r) : Acc(r, j) = {KIdx(r, t)}) =>
            \E t \in 1..K(r) : r.masks[t][j] = 1
    /\ \A j \in 1..N(r) : Cardinality({t \in 1..K(r) : r.masks[t][j] = 1}) <= 1
(* every interval with at least minpts own rows is kept, no other *)
KeptExactlyEqualWidth(r) ==
    (* own(k): rows inside the covered range that can only belong to k; maybe(k): all rows that may belong *)
    (* to k - including rows beyond the upper limit of a value_range that still fall into the extent of   *)
    (* the last interval (an implementation may or may not take those)                                    *)
    LET own(k) == Cardinality({j \in 1..N(r) : Cov(r, j) /\ Acc(r, j) = {k}})
        maybe(k) == Cardinality({j \in 1..N(r) : k \in Acc(r, j)})
        kept == {KIdx(r, t) : t \in 1..K(r)}
    IN /\ \A k \in 1..(IdealK(r) + 1) : own(k) >= r.minpts /\ own(k) = maybe(k) => k \in kept
       /\ \A k \in kept : maybe(k) >= r.minpts
(* points slicer: the values at the masked rows are the chunk of the sorted column; the kept    *)
(* chunks are those with at least minpts rows                                                    *)
OwnDataPoints(r) ==
    LET cb == ChunkBounds(N(r), r.n, r.lastfull)
        s == SortedVals(r.cdata, AllOnes(N(r)))
        keep == {c \in 1..Len(cb) : cb[c][2] - cb[c][1] + 1 >= r.minpts}
        ks == SelectIdx([c \in 1..Len(cb) |-> c], keep, 1)
    IN /\ Len(ks) = K(r)
       /\ \A t \in 1..Min2(K(r), Len(ks)) :
            SortedVals(r.cdata, r.masks[t]) = SubSeqS(s, cb[ks[t]][1], cb[ks[t]][2])
       /\ \A j \in 1..N(r) : Cardinality({t \in 1..K(r) : r.masks[t][j] = 1}) <= 1

RefExpected(r, t) ==
    IF r.refkind = "median" THEN MedianQ(r.cdata, r.masks[t])
    ELSE RefQ(r.refkind, KIdx(r, t), r.lo, r.upw)

(* tolerances, units of 1e-9 relative:                                                         *)
(*   least squares / moment estimators are order independent up to summation round-off (1e-9); *)
(*   Nelder-Mead MLE (xtol = ftol = 1e-4) reacts to summation order at its own tolerance, the   *)
(*   dependence functions are then fitted to estimates that differ by that much.               *)
EstTol(r) == IF r.method = "mle" THEN 2000000 ELSE 1000        \* 2e-3 resp. 1e-6
DepTol(r) == IF r.method = "mle" THEN 50000000 ELSE 100000     \* 5e-2 resp. 1e-4
(*   closed-form estimators evaluated in double precision (mean / rms of <= 20000 (log) values: *)
(*   round-off < 1e-10 including the cancellation in sigma) are compared at the 1e-6 of the      *)
(*   other closed-form estimators; evaluation in a narrower type errs by 5e-4 (half precision).  *)
ClosedFormTol == 1000                                          \* 1e-6
(*   dependence parameters against the closed-form weighted least-squares solution for the SAME  *)
(*   pairs: only the optimiser's termination error remains (curve_fit ftol = xtol = 1e-8 on a    *)
(*   linear problem, observed below 1e-6); 1e-4 as for the least-squares class of DepTol.        *)
LinDepTol == 100000                                            \* 1e-4

DimClauses(r) ==
  IF r.exc # "" THEN << <<"UnexpectedException", FALSE>> >>
  ELSE <<
    <<"MaskShape", \A t \in 1..K(r) : Len(r.masks[t]) = N(r)>>,
    <<"IntervalOwnData", (\A t \in 1..K(r) : Len(r.masks[t]) = N(r)) =>
                           IF r.kind2 = "points" THEN OwnDataPoints(r) ELSE OwnDataEqualWidth(r)>>,
    <<"KeptExactly", (\A t \in 1..K(r) : Len(r.masks[t]) = N(r)) =>
                           (r.kind2 = "points" \/ KeptExactlyEqualWidth(r))>>,
    <<"BoundariesContainMembers", r.boundscontain>>,      \* exact float comparison with the documented open / closed ends
    <<"BoundariesDisjoint", r.boundsdisjoint>>,
    <<"FitDataAreMaskedRows", \A t \in 1..Len(r.datamasked) : r.datamasked[t]>>,
    <<"IntervalCountConsistent", Len(r.datamasked) = K(r) /\ Len(r.standalone) = K(r) /\ Len(r.refq) = K(r)>>,
    <<"EstimateIsStandAloneFit", \A t \in 1..Len(r.standalone) : r.standalone[t]>>,
    (* the stand-alone fit by maximum likelihood of a family with a closed-form MLE is that closed form *)
    (* of the observations of the interval (as numbers: the storage type of the matrix does not matter) *)
    <<"EstimateIsClosedFormMLE", \A t \in 1..Len(r.mledev) : r.mledev[t] <= ClosedFormTol>>,
    <<"ReferenceRule", r.onlat /\ \A t \in 1..Min2(K(r), Len(r.refq)) : r.refq[t] = RefExpected(r, t)>>,
    <<"DepFitInputsX", \A p \in 1..Len(r.depx) : r.depx[p] = r.refq>>,
    <<"DepFitInputsY", \A p \in 1..Len(r.depyok) : r.depyok[p]>>,
    <<"EveryDependenceFunctionFitted", Len(r.depx) = r.ndep>>,
    (* fitted TO the pairs: a linear-in-parameters function ends at the (weighted) least-squares solution *)
    <<"DependenceIsWeightedLeastSquares", \A p \in 1..Len(r.wdepdev) : r.wdepdev[p] <= LinDepTol>>,
    <<"PermutationSameIntervals", r.permmembers = r.members>>,
    <<"PermutationSameEstimates", r.permestdev <= EstTol(r)>>,
    <<"PermutationSameDependence", r.permdepdev <= DepTol(r)>>,
    <<"RefitSameIntervals", r.refitmembers = r.members>>,
    (* re-fit of an already fitted model: the per-interval fits start from copies of the untouched *)
    (* template, so they are bitwise those of the first fit; the dependence functions start from   *)
    (* their previously fitted parameters and may end in another local optimum - not judged        *)
    (* (refitdepdev is recorded for information only).                                             *)
    <<"RefitSameEstimates", r.refitestdev = 0>>,
    (* ... and its dependence functions are fitted to the pairs of THIS fit: their squared error on the    *)
    (* (reference, estimate) pairs is not worse than that of a fresh model's (0.1 % + 2e-6 of sum y^2),     *)
    (* in particular not the error of a function fitted against a conditioner's previous parameters         *)
    <<"RefitDependenceFitsPairs", r.refitestdev = 0 =>
         \A k \in 1..Len(r.freshobj) : r.refitobj[k] <= r.freshobj[k] + 2000 + (r.freshobj[k] \div 1000)>>
  >>

(* expected call sequence of Distribution.fit: per dimension its own (method, weights), once for *)
(* an unconditional dimension, once per kept interval for a conditional one                       *)
RECURSIVE Rep(_, _)
Rep(x, k) == IF k = 0 THEN <<>> ELSE <<x>> \o Rep(x, k - 1)
RECURSIVE ExpectedCalls(_, _)
ExpectedCalls(r, i) ==
    IF i > Len(r.fitdesc) THEN <<>>
    ELSE LET d == r.fitdesc[i]
             eff == IF d.method = "none" THEN [method |-> "mle", weights |-> "none"] ELSE d
         IN Rep(eff, r.ncalls[i]) \o ExpectedCalls(r, i + 1)
ModelClauses(r) ==
  IF r.exc # "" THEN << <<"UnexpectedException", FALSE>> >>
  ELSE << <<"OptionsPerDim", r.calls = ExpectedCalls(r, 1)>> >>

Verdict(r) == Failing(IF r.kind = "dim" THEN DimClauses(r) ELSE ModelClauses(r))

Init == l = 1
Next == /\ l <= Len(TraceLog)
        /\ LET r == TraceLog[l] v == Verdict(r) IN
             IF v = <<>> THEN TRUE ELSE PrintT(<<"VERDICT", r.id, v>>)
        /\ l' = l + 1
Spec == Init /\ [][Next]_l
Consumed == l = Len(TraceLog) + 1 => PrintT(<<"CONSUMED", l - 1>>)
=============================================================================
