SPECIFICATION Spec
CONSTANTS MaxLen = 4  WithFit = TRUE  Frozen = TRUE
CHECK_DEADLOCK FALSE
INVARIANT EvalReadsCurrentAttributes
