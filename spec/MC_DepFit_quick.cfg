SPECIFICATION Spec
CONSTANTS MaxRound = 2  NoRefit = FALSE  EmitBeh = FALSE
CHECK_DEADLOCK FALSE
INVARIANT FittedAfterConditioners
INVARIANT IndependentFitImmediately
