"""Top-level session life cycle (spec/Virocon.tla; DESIGN 9.5) - called from the C19 driver.

M: TLC checks Virocon.tla exhaustively for short sessions (the refinement mapping: every result reflects exactly
   the mutators of its basis; contours are snapshots; the operator form ViroconOps agrees with the state machine)
   and the four named deviations violate the invariant named with each.
R: `tlc -simulate` generates sessions of 12 operations over the whole public API (construct, fit / direct
   parameter writes, evaluations, the six contour classes, design conditions / save / plot, TransformedModel
   wrapper with its Monte-Carlo sample cache); each is executed on the real objects in a FRESH process
   (harness/virocon_worker.py) and, for every observable step, the same operation is computed in ANOTHER fresh
   process on a fresh model to which only the mutators of the step's basis were applied.
V: Trace_Virocon.tla judges bit-identity of the two (digests), snapshot stability and that only mutators change
   parameters.
"""
import json
import os
import subprocess
from concurrent.futures import ThreadPoolExecutor

from .common import Machinery, REPO

DESCS = ["dnvgl", "omae", "windmeier", "omae_vhs"]
PY = "/venv/bin/python"
HERE = os.path.dirname(os.path.dirname(os.path.abspath(__file__)))


def _worker(task):
    env = dict(os.environ, VIROCON_REPO=str(REPO), PYTHONPATH=f"{REPO}:{HERE}", VIROCON_VERIF="1", MPLBACKEND="Agg",
               OMP_NUM_THREADS="1", OPENBLAS_NUM_THREADS="1")
    p = subprocess.run([PY, "-W", "ignore", "-m", "harness.virocon_worker"], input=json.dumps(task), capture_output=True,
                       text=True, env=env, cwd=HERE, timeout=1800)
    if p.returncode != 0:
        raise Machinery(f"virocon_worker failed ({task['mode']} {task['desc']}): {p.stderr[-800:]}")
    return json.loads(p.stdout)


def wants(ops):
    ck = {o["arg"]: o["kind"] for o in ops if o["op"] == "contour"}
    return [dict(i=i, basis=o["basis"], ckind=ck.get(o["arg"])) for i, o in enumerate(ops) if o["basis"] >= 0]


def run_one(args):
    desc, ops, workdir = args
    ses = _worker(dict(mode="session", desc=desc, ops=ops, workdir=workdir))
    can = _worker(dict(mode="canon", desc=desc, ops=ops, want=wants(ops), workdir=workdir))
    return ses, can


def make_record(rid, ops, ses, can):
    ids = {}

    def num(d):
        if d is None:
            return 0
        return ids.setdefault(d, len(ids) + 1)
    return dict(id=rid, ops=ops, obs=[num(s["obs"]) for s in ses],
                canon=[num(can.get(str(i))) for i in range(len(ops))],
                snap=[[num(x) for x in s["snap"]] for s in ses], pfp=[num(s["pfp"]) for s in ses])


def key_of(desc, ops):
    return desc + ":" + ",".join((o["kind"] or o["op"]) + (str(o["arg"]) if o["op"] == "post" else "") for o in ops)


def pattern_score(ops):
    """number of (observable, later same observable) pairs with a mutator in between - the shape of history on which a
    memo, a cache or a shared object shows"""
    score = 0
    for i, a in enumerate(ops):
        if a["basis"] < 0:
            continue
        seen_mut, only_writes = False, True
        for b in ops[i + 1:]:
            if b["op"] == "mut":
                seen_mut = True
                only_writes = only_writes and not b["kind"].startswith("fit")
            elif seen_mut and (b["op"], b["kind"]) == (a["op"], a["kind"]) and b["op"] != "post":
                # direct writes bypass every invalidation that fit() performs: weigh them higher
                score += (3 if b["op"] in ("tm", "contour") else 1) * (2 if only_writes else 1)
    return score


def select_sessions(all_sessions, n):
    plain = all_sessions[: n // 4]
    rest = sorted(range(n // 4, len(all_sessions)), key=lambda k: (-pattern_score(all_sessions[k]), k))
    # at most two sessions per (set of repeated observables) so that the selection stays varied
    out, seen = list(plain), {}
    for k in rest:
        ops = all_sessions[k]
        sig = tuple(sorted({o["kind"] for o in ops if o["op"] in ("tm", "contour")}))
        if seen.get(sig, 0) >= 2:
            continue
        seen[sig] = seen.get(sig, 0) + 1
        out.append(ops)
        if len(out) >= n:
            break
    return out[:n]


def run_ext(ctx):
    ctx.model_check("Virocon", ctx.pick("MC_Virocon_quick.cfg", "MC_Virocon_thorough.cfg"),
                    must_cover=("New", "Mutate", "Eval", "Contour", "Post", "Wrap", "TmEval"), timeout=3000)
    for dev, inv in (("LazyContour", "PostOnSnapshot"), ("EvalMutates", "EvalInvisible"), ("StaleCache", "ResultCurrent"),
                     ("WrapCopies", "ResultCurrent")):
        ctx.model_check("Virocon", f"MC_Virocon_mut_{dev}.cfg", expect_violation=inv)
    nses = ctx.pick(24, 240)
    # TLC simulates many more sessions than are replayed; the replayed ones are those richest in the pattern that
    # exposes hidden state (the same observable before and after a mutator, wrapper reads on both sides of a mutator)
    # plus a seeded quarter taken as they come
    gen = ctx.generate("Virocon", "Gen_Virocon.cfg", simulate=f"num={nses * 40}", depth=14, seed=ctx.seed + 7, workers=1,
                       timeout=1200)
    sessions = select_sessions([g["hist"] for g in gen], nses)
    workdir = str(ctx.work / "virocon")
    os.makedirs(workdir, exist_ok=True)
    tasks = [(DESCS[(k + ctx.seed) % len(DESCS)], ops, workdir) for k, ops in enumerate(sessions)]
    with ThreadPoolExecutor(max_workers=min(14, os.cpu_count() or 4)) as ex:
        results = list(ex.map(run_one, tasks))
    recs = [make_record(k + 1, ops, ses, can) for k, ((desc, ops, _), (ses, can)) in enumerate(zip(tasks, results))]
    failing = ctx.validate("Trace_Virocon", "Trace_Virocon.cfg", recs)
    nobs = 0
    for (desc, ops, _), r in zip(tasks, recs):
        key = key_of(desc, ops)
        ctx.case("Virocon " + key, nontrivial=any(o["op"] == "mut" for o in ops))
        nobs += sum(1 for o in ops if o["basis"] >= 0)
        for clause in failing.get(r["id"], []):
            bad = [(i, ops[i]["op"], ops[i]["kind"], ops[i]["basis"]) for i in range(len(ops))
                   if ops[i]["basis"] >= 0 and r["obs"][i] != r["canon"][i]]
            ctx.violation(clause, "Virocon " + key, f"steps whose result differs from the canonical one: {bad[:6]}",
                          replay=dict(virocon=dict(desc=desc, ops=ops)))
    ctx.notes.update(virocon_sessions=len(recs), virocon_observables_compared=nobs)
    # binding self-test: a corrupted digest, a moved snapshot and a wrong basis must each be rejected
    import copy
    base = next(r for r in recs if any(len(s) for s in r["snap"][:-1]) and any(o["basis"] >= 0 for o in r["ops"]))
    b1 = copy.deepcopy(base)
    i = next(i for i, o in enumerate(b1["ops"]) if o["basis"] >= 0)
    b1["canon"][i] = 10 ** 6
    b2 = copy.deepcopy(base)
    j = next(i for i in range(len(b2["snap"]) - 1) if b2["snap"][i])
    b2["snap"][j + 1][0] = 10 ** 6
    b3 = copy.deepcopy(base)
    b3["ops"][i]["basis"] += 1
    b1["id"], b2["id"], b3["id"] = 1, 2, 3
    f = ctx.validate("Trace_Virocon", "Trace_Virocon.cfg", [b1, b2, b3])
    if "Virocon.ResultIsFunctionOfBasis" not in f.get(1, []) or "Virocon.SnapshotStable" not in f.get(2, []) \
            or "Virocon.SessionOfSpec" not in f.get(3, []):
        raise Machinery(f"Virocon self-test: corrupted sessions were not rejected: {f}")


def replay_ext(ctx, case):
    c = case["virocon"]
    workdir = str(ctx.work / "virocon")
    os.makedirs(workdir, exist_ok=True)
    ses, can = run_one((c["desc"], c["ops"], workdir))
    r = make_record(1, c["ops"], ses, can)
    failing = ctx.validate("Trace_Virocon", "Trace_Virocon.cfg", [r])
    key = "Virocon " + key_of(c["desc"], c["ops"])
    ctx.case(key)
    for clause in failing.get(1, []):
        ctx.violation(clause, key, "replayed session", replay=case)
