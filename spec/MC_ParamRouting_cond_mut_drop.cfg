SPECIFICATION Spec
CONSTANTS Scen = "cond"  NGiven = 2  MutKind = "drop"  MutFam = "Normal"  MutName = "sigma"
CHECK_DEADLOCK FALSE
INVARIANT CondEqualsTemplateAtValues
INVARIANT VectorisedEqualsPointwise
INVARIANT ChainedSameGiven
INVARIANT FixedSameForAllGiven
