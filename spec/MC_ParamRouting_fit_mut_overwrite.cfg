SPECIFICATION Spec
CONSTANTS Scen = "fit"  NGiven = 2  MutKind = "overwrite"  MutFam = "Weibull"  MutName = "gamma"
CHECK_DEADLOCK FALSE
PROPERTY FixedStable
