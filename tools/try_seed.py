#!/usr/bin/env python3
"""Confirm a seeded change and run the checks against it.

usage: tools/try_seed.py <dir with patch.diff, demo.py[, meta.json]> [--checks C05,C08] [--tier quick] [--notests]

1. scratch worktree of /repo HEAD under /var/tmp (removed afterwards)
2. demo.py must exit 0 on the clean worktree and non-zero with the patch
3. the repository's test suite (guard off) must still pass with the patch (baseline: 90 pass, test_v_hs_hd_contour fails)
4. every named check (default: the property in meta.json) is run with VIROCON_REPO=<patched worktree>;
   exit code 1 + VIOLATION line = caught.
Prints one JSON summary line (also usable for seeded/<id>/meta.json).
"""
import argparse
import json
import os
import re
import shutil
import subprocess
import sys
import tempfile
import time

PY = "/venv/bin/python"


def sh(cmd, cwd=None, env=None, timeout=3600):
    p = subprocess.run(cmd, cwd=cwd, env=env, stdout=subprocess.PIPE, stderr=subprocess.STDOUT, text=True, timeout=timeout)
    return p.returncode, p.stdout


def main():
    ap = argparse.ArgumentParser()
    ap.add_argument("dir")
    ap.add_argument("--checks", default=None)
    ap.add_argument("--tier", default="quick")
    ap.add_argument("--notests", action="store_true")
    ap.add_argument("--seed", default="0")
    a = ap.parse_args()
    d = os.path.abspath(a.dir)
    meta = json.load(open(os.path.join(d, "meta.json"))) if os.path.exists(os.path.join(d, "meta.json")) else {}
    checks = (a.checks.split(",") if a.checks else [meta.get("property", "")])
    wt = tempfile.mkdtemp(prefix="verif-seed-", dir="/var/tmp")
    os.rmdir(wt)
    out = dict(dir=d, property=meta.get("property"), checks={})
    try:
        rc, o = sh(["git", "-C", "/repo", "worktree", "add", "-q", "--detach", wt, "HEAD"])
        if rc:
            raise SystemExit("worktree add failed: " + o)
        env = dict(os.environ, PYTHONPATH=wt)
        env.pop("VIROCON_VERIF", None)
        rc0, o0 = sh([PY, "-W", "ignore", os.path.join(d, "demo.py")], cwd="/tmp", env=env, timeout=1800)
        out["demo_clean_rc"] = rc0
        rc, o = sh(["git", "-C", wt, "apply", os.path.join(d, "patch.diff")])
        if rc:
            out["apply_failed"] = o[-400:]
            print(json.dumps(out))
            return 2
        rc1, o1 = sh([PY, "-W", "ignore", os.path.join(d, "demo.py")], cwd="/tmp", env=env, timeout=1800)
        out["demo_patched_rc"] = rc1
        out["demo_ok"] = (rc0 == 0 and rc1 != 0)
        if not a.notests:
            t0 = time.time()
            rc, o = sh([PY, "-m", "pytest", "-q", "-p", "no:cacheprovider", "-n", "8", "--timeout=900",
                        "--continue-on-collection-errors"], cwd=wt, env=env, timeout=3600)
            m = re.search(r"(\d+) failed", o)
            p = re.search(r"(\d+) passed", o)
            failed = re.findall(r"^FAILED (\S+)", o, re.M)
            out["tests"] = dict(passed=int(p.group(1)) if p else 0, failed=failed, wall_s=round(time.time() - t0))
            out["tests_ok"] = bool(p and int(p.group(1)) >= 90 and set(failed) <= {"tests/test_workflows.py::test_v_hs_hd_contour"})
        for c in checks:
            if not c:
                continue
            scratch = wt + "-verif"
            env2 = dict(os.environ, VIROCON_REPO=wt, VERIF_SEED=a.seed, VERIF_WORK_DIR=scratch + "/work",
                        VERIF_EVIDENCE_DIR=scratch + "/evidence")
            t0 = time.time()
            rc, o = sh(["./check", c, "--tier", a.tier], cwd="/verif", env=env2, timeout=7200)
            clauses = sorted(set(re.findall(r"clause=(\S+)", o)))
            out["checks"][c] = dict(rc=rc, caught=(rc == 1 and "VIOLATION" in o), clauses=clauses[:12],
                                    wall_s=round(time.time() - t0), tail=o[-300:] if rc not in (0, 1) else "")
    finally:
        sh(["git", "-C", "/repo", "worktree", "remove", "--force", wt])
        shutil.rmtree(wt, ignore_errors=True)
        shutil.rmtree(wt + "-verif", ignore_errors=True)
    print(json.dumps(out))
    return 0


if __name__ == "__main__":
    sys.exit(main())
