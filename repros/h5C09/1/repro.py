"""Joint fit of a narrow-typed data matrix (uint8 / int8 / float16): the per-interval
log-normal estimates are computed in HALF precision and differ from the (closed-form,
double precision) MLE of exactly the interval's observations by ~5e-4 relative,
while the same values stored as int32 / float64 agree to ~1e-15."""
import sys
import numpy as np
from virocon import (GlobalHierarchicalModel, WeibullDistribution, LogNormalDistribution,
                     DependenceFunction, WidthOfIntervalSlicer)

def lin(x, a=1.0, b=1.0):
    return a + b * x

def model():
    return GlobalHierarchicalModel([
        {"distribution": WeibullDistribution(), "intervals": WidthOfIntervalSlicer(5, min_n_points=30)},
        {"distribution": LogNormalDistribution(), "conditional_on": 0,
         "parameters": {"mu": DependenceFunction(lin), "sigma": DependenceFunction(lin)}},
    ])

rng = np.random.default_rng(0)
n = 3000
hs = np.clip(np.ceil(rng.weibull(1.5, n) * 20), 1, 100)                      # e.g. Hs in dm
tz = np.clip(np.ceil(np.exp(rng.normal(3 + 0.03 * np.sqrt(hs), 0.2))), 1, 250)  # e.g. Tz in 0.1 s
values = np.column_stack([hs, tz])          # integers 1..250: exact in every dtype below

worst = {}
for dt in (np.float64, np.int32, np.uint8, np.float16):
    data = values.astype(dt)
    assert np.array_equal(data.astype(float), values)   # same observations
    m = model()
    m.fit(data)
    cd = m.distributions[1]
    # independent oracle: slice by the reported boundaries, closed-form MLE in double
    w = 0.0
    for (lo, hi), est in zip(cd.conditioning_interval_boundaries, cd.parameters_per_interval):
        sel = (values[:, 0] >= lo) & (values[:, 0] < hi)
        logs = np.log(values[sel, 1])
        mu, sigma = logs.mean(), np.sqrt(np.mean((logs - logs.mean()) ** 2))
        w = max(w, abs(est["mu"] - mu) / mu, abs(est["sigma"] - sigma) / sigma)
    worst[dt.__name__] = w
    print(f"{dt.__name__:8s} worst relative deviation of per-interval (mu, sigma) from the exact MLE: {w:.2e}")

bad = [k for k, v in worst.items() if v > 1e-6]
if bad:
    print("VIOLATION: per-interval estimates are not the fit of the interval's observations for", bad)
    sys.exit(1)
print("ok")
