------------------------------- MODULE HDCOps -------------------------------
(* Highest-density contour (virocon/contours.py: HighestDensityContour) - operators.   *)
(*                                                                                      *)
(* A grid of shape <<n1,..,nd>> has cells 1..N numbered in C (row-major) order, i.e.    *)
(* cell number = 1 + numpy.ravel_multi_index.  A region / mask is a function            *)
(* [1..N -> {0,1}] (a sequence) or the set of its cells.                                *)
(*                                                                                      *)
(* Layers:                                                                              *)
(*   1. grid geometry, the 3^n-1 neighbourhood, boundary by definition, erosion as the  *)
(*      code performs it (intersection of shifted copies, outside = 0), components by   *)
(*      flood fill;                                                                     *)
(*   2. selection of the highest-density region on small integer arrays (sort order,    *)
(*      prefix sums, largest prefix with cum <= L) - used by HDC.tla;                   *)
(*   3. two-limb naturals (base 10^9, value = hi * 10^9 + lo) so that probabilities at  *)
(*      scale 10^18 can be summed and compared by TLC (32 bit integers) - used by       *)
(*      Trace_C02.                                                                      *)
EXTENDS Integers, Sequences, FiniteSets, TLC, SequencesExt, Fix

----------------------------------------------------------------------------
(* 1. grid geometry                                                          *)

RECURSIVE ProdFrom(_, _)
ProdFrom(shape, d) == IF d > Len(shape) THEN 1 ELSE shape[d] * ProdFrom(shape, d + 1)
NCells(shape) == ProdFrom(shape, 1)
Strides(shape) == [d \in 1..Len(shape) |-> ProdFrom(shape, d + 1)]
Coord(c, shape, st, d) == ((c - 1) \div st[d]) % shape[d]            \* 0-based index on axis d

(* all 3^n - 1 neighbour directions; the 2n axis directions (a deviation, see HDC.tla)  *)
Offsets(n) == {o \in [1..n -> {-1, 0, 1}] : \E d \in 1..n : o[d] # 0}
CrossOffsets(n) == {o \in Offsets(n) : Cardinality({d \in 1..n : o[d] # 0}) = 1}

(* the neighbour of cell c in direction o; 0 when that neighbour is outside the grid    *)
Nbr(c, shape, st, o) ==
    IF \A d \in 1..Len(shape) :
         LET x == Coord(c, shape, st, d) + o[d] IN 0 <= x /\ x < shape[d]
    THEN c + SumSeq([d \in 1..Len(shape) |-> o[d] * st[d]])
    ELSE 0

Cells(mask) == {c \in 1..Len(mask) : mask[c] = 1}
MaskOf(S, n) == SubSeq([c \in 1..n |-> IF c \in S THEN 1 ELSE 0], 1, n)

(* Boundary BY DEFINITION (property C15): region cells with at least one of their       *)
(* neighbours (directions offs) outside the region or outside the grid.                 *)
BoundaryDef(mask, shape, offs) ==
    LET st == Strides(shape) IN
    {c \in 1..Len(mask) : mask[c] = 1 /\
        \E o \in offs : LET d == Nbr(c, shape, st, o) IN d = 0 \/ mask[d] = 0}

(* Erosion AS THE CODE DOES IT: scipy.ndimage.binary_erosion(HDR, structure) with       *)
(* border_value 0 = intersection over the structure's offsets (centre included) of the  *)
(* region shifted by that offset, cells shifted in from outside the grid being 0.       *)
Shifted(mask, shape, st, o) ==
    {c \in 1..Len(mask) : LET d == Nbr(c, shape, st, o) IN d # 0 /\ mask[d] = 1}
Eroded(mask, shape, offs) ==
    LET st == Strides(shape)
        RECURSIVE Meet(_, _)
        Meet(S, rest) == IF rest = {} THEN S
                         ELSE LET o == CHOOSE x \in rest : TRUE
                              IN Meet(S \cap Shifted(mask, shape, st, o), rest \ {o})
    IN Meet(Cells(mask), offs)
(* HDC = HDR - erosion(HDR) (arithmetic on 0/1 arrays in the code) *)
BoundaryByErosion(mask, shape, offs) == Cells(mask) \ Eroded(mask, shape, offs)

(* connected components of a cell set S (neighbour directions offs) by flood fill       *)
RECURSIVE Fill(_, _, _, _, _, _)
Fill(front, seen, S, shape, st, offs) ==
    LET nxt == {d \in UNION {{Nbr(c, shape, st, o) : o \in offs} : c \in front} :
                    d # 0 /\ d \in S /\ d \notin seen}
    IN IF nxt = {} THEN seen ELSE Fill(nxt, seen \cup nxt, S, shape, st, offs)
ComponentOf(c, S, shape, offs) == Fill({c}, {c}, S, shape, Strides(shape), offs)

(* components as a sequence in the order of their smallest cell (raster order = the     *)
(* label order of scipy.ndimage.label)                                                  *)
LeastOf(S) == CHOOSE x \in S : \A y \in S : x <= y
RECURSIVE ComponentsSeq(_, _, _)
ComponentsSeq(S, shape, offs) ==
    IF S = {} THEN <<>>
    ELSE LET K == ComponentOf(LeastOf(S), S, shape, offs)
         IN <<K>> \o ComponentsSeq(S \ K, shape, offs)
Components(S, shape, offs) == Range(ComponentsSeq(S, shape, offs))

(* ---- the same notions, arranged for large grids (Trace_C15) -------------------------- *)
(* A cell that is not on the border of the grid has all its neighbours inside the grid   *)
(* at cell number c + sum o[d] * stride[d]; a region cell on the border of the grid      *)
(* always has a neighbour outside the grid.  HDC.tla checks BoundaryFast = BoundaryDef   *)
(* and ComponentsFast = Components on every small mask (invariant FastIsDef).            *)
LinOffs(shape, offs) == LET st == Strides(shape) IN
    {SumSeq([d \in 1..Len(shape) |-> o[d] * st[d]]) : o \in offs}
OnBorder(c, shape, st) ==
    \E d \in 1..Len(shape) : LET x == Coord(c, shape, st, d) IN x = 0 \/ x = shape[d] - 1
BoundaryFast(mask, shape, offs) ==
    LET st == Strides(shape) lin == LinOffs(shape, offs) IN
    {c \in 1..Len(mask) : mask[c] = 1 /\
        (OnBorder(c, shape, st) \/ \E k \in lin : mask[c + k] = 0)}
(* ol = {<<o, linear offset of o>>}; lin = the linear offsets *)
OffLin(shape, offs) == LET st == Strides(shape) IN
    {<<o, SumSeq([d \in 1..Len(shape) |-> o[d] * st[d]])>> : o \in offs}
NbrsFast(c, shape, st, ol, lin) ==
    IF OnBorder(c, shape, st)
    THEN LET xs == [d \in 1..Len(shape) |-> Coord(c, shape, st, d)]
         IN {c + p[2] : p \in {q \in ol : \A d \in 1..Len(shape) :
                                   LET x == xs[d] + q[1][d] IN 0 <= x /\ x < shape[d]}}
    ELSE {c + k : k \in lin}
(* Breadth-first layers: in an undirected graph the neighbours of layer k lie in layers     *)
(* k-1, k, k+1, so a new cell only has to be tested against the current and the previous  *)
(* layer (no growing "seen" set: linear cost on grids with 10^5 cells).  The set to fill   *)
(* is given as a 0/1 mask minus the cells in excl.                                         *)
RECURSIVE FillLayers(_, _, _, _, _, _, _, _, _)
FillLayers(front, prev, layers, mask, excl, shape, st, ol, lin) ==
    LET nxt == {d \in UNION {NbrsFast(c, shape, st, ol, lin) : c \in front} :
                   mask[d] = 1 /\ d \notin front /\ d \notin prev /\ d \notin excl}
    IN IF nxt = {} THEN UNION {layers[i] : i \in 1..Len(layers)} \cup front
       ELSE FillLayers(nxt, front, Append(layers, front), mask, excl, shape, st, ol, lin)
ComponentOfMask(c, mask, excl, shape, offs) ==
    FillLayers({c}, {}, <<>>, mask, excl, shape, Strides(shape), OffLin(shape, offs), LinOffs(shape, offs))
ComponentOfFast(c, S, shape, offs) == ComponentOfMask(c, MaskOf(S, NCells(shape)), {}, shape, offs)
(* All components of the cells of a mask, for grids with 10^5 cells: the grid is padded    *)
(* with one layer of empty cells, so that every region cell is an inner cell of the padded *)
(* grid and its neighbours are simply q + k for the linear offsets k (no border tests, no  *)
(* wrap-around: a step off the original grid lands on an empty padding cell).              *)
PadShape(shape) == [d \in 1..Len(shape) |-> shape[d] + 2]
PadMask(mask, shape) ==
    LET ps == PadShape(shape) pst == Strides(ps) st == Strides(shape) n == Len(shape) IN
    (* SubSeq turns the function expression into an explicit tuple: TLC would otherwise      *)
    (* re-evaluate the body at every application pm[q]                                      *)
    SubSeq([q \in 1..NCells(ps) |->
              LET xs == [d \in 1..n |-> Coord(q, ps, pst, d)] IN
              IF \A d \in 1..n : 1 <= xs[d] /\ xs[d] <= shape[d]
              THEN mask[1 + SumSeq([d \in 1..n |-> (xs[d] - 1) * st[d]])] ELSE 0],
           1, NCells(ps))
Unpad(q, shape) ==
    LET ps == PadShape(shape) pst == Strides(ps) st == Strides(shape) IN
    1 + SumSeq([d \in 1..Len(shape) |-> (Coord(q, ps, pst, d) - 1) * st[d]])
RECURSIVE FillPadded(_, _, _, _, _, _)
FillPadded(front, prev, layers, pm, excl, lin) ==
    LET nxt == {d \in {c + k : c \in front, k \in lin} :
                   pm[d] = 1 /\ d \notin front /\ d \notin prev /\ d \notin excl}
    IN IF nxt = {} THEN UNION {layers[i] : i \in 1..Len(layers)} \cup front
       ELSE FillPadded(nxt, front, Append(layers, front), pm, excl, lin)
RECURSIVE ComponentsPadded(_, _, _)
ComponentsPadded(pm, excl, lin) ==
    LET rest == {q \in 1..Len(pm) : pm[q] = 1 /\ q \notin excl}
    IN IF rest = {} THEN {}
       ELSE LET K == FillPadded({LeastOf(rest)}, {}, <<>>, pm, excl, lin)
            IN {K} \cup ComponentsPadded(pm, excl \cup K, lin)
ComponentsOfMask(mask, shape, offs) ==
    LET comps == ComponentsPadded(PadMask(mask, shape), {}, LinOffs(PadShape(shape), offs))
    IN {{Unpad(q, shape) : q \in K} : K \in comps}
ComponentsFast(S, shape, offs) == ComponentsOfMask(MaskOf(S, NCells(shape)), shape, offs)

(* two cells / two sets touch (some cell of A is a neighbour of some cell of B) *)
Touch(A, B, shape, offs) ==
    LET st == Strides(shape) IN \E a \in A : \E o \in offs : Nbr(a, shape, st, o) \in B

----------------------------------------------------------------------------
(* 2. selection on small integer arrays (P : sequence of naturals, limit L)   *)

(* numpy: argsort(kind="mergesort")[::-1] = descending values, equal values in          *)
(* DESCENDING index order.  The comparator is a strict total order, so the sorted       *)
(* sequence is unique.                                                                  *)
Before(P, a, b) == P[a] > P[b] \/ (P[a] = P[b] /\ a > b)
DescOrder(P) == SortSeq([i \in 1..Len(P) |-> i], LAMBDA a, b : Before(P, a, b))
RECURSIVE PrefixSums(_, _, _)
PrefixSums(P, ord, k) ==            \* <<cum_1, .., cum_k>>
    IF k = 0 THEN <<>>
    ELSE LET prev == PrefixSums(P, ord, k - 1)
         IN Append(prev, (IF k = 1 THEN 0 ELSE prev[k - 1]) + P[ord[k]])
SumOver(P, S) == SumSeq([c \in 1..Len(P) |-> IF c \in S THEN P[c] ELSE 0])
MaxOver(P, S) == SetMax({P[c] : c \in S})
MinOver(P, S) == SetMin({P[c] : c \in S})

----------------------------------------------------------------------------
(* 3. two-limb naturals: <<hi, lo>>, value hi * 10^9 + lo, 0 <= lo < 10^9,    *)
(*    0 <= hi < 2^31 - 1 (values below 2.1 * 10^18)                           *)

B9 == 1000000000
L2(h, l) == <<h, l>>
L2Zero == <<0, 0>>
L2Ok(a) == a[1] >= 0 /\ a[2] >= 0 /\ a[2] < B9
L2Add(a, b) == LET l == a[2] + b[2]                      \* < 2 * 10^9 < 2^31
               IN IF l >= B9 THEN <<a[1] + b[1] + 1, l - B9>> ELSE <<a[1] + b[1], l>>
(* saturating addition for sums of cell probabilities: a von Mises axis that spans several *)
(* periods makes the cells sum to more than 2.147 (cdf(x + 2 pi) = cdf(x) + 1), which two *)
(* limbs cannot hold.  Sums are only ever compared with values <= 1 + slack, so a sum     *)
(* that reached 2 * 10^18 may stay there.                                                *)
L2Cap == 2000000000
L2AddSat(a, b) == IF a[1] >= L2Cap - b[1] - 1 THEN <<L2Cap, 0>> ELSE L2Add(a, b)
L2Small(k) == <<k \div B9, k % B9>>                     \* a TLC integer k >= 0
L2Lt(a, b) == a[1] < b[1] \/ (a[1] = b[1] /\ a[2] < b[2])
L2Le(a, b) == a[1] < b[1] \/ (a[1] = b[1] /\ a[2] <= b[2])
L2Max(a, b) == IF L2Le(a, b) THEN b ELSE a
L2Min(a, b) == IF L2Le(a, b) THEN a ELSE b
(* a - b for a >= b *)
L2Sub(a, b) == IF a[2] >= b[2] THEN <<a[1] - b[1], a[2] - b[2]>>
               ELSE <<a[1] - b[1] - 1, a[2] + B9 - b[2]>>
L2AbsDiff(a, b) == IF L2Le(a, b) THEN L2Sub(b, a) ELSE L2Sub(a, b)
(* 10^18 - a  (a <= 10^18) *)
L2One == <<B9, 0>>
(* floor(a / 10^9) and floor(a / 10^12) as two-limb values *)
L2Div9(a) == <<0, a[1]>>
L2Div12(a) == <<0, a[1] \div 1000>>

(* sums / extrema of the two-limb array (hs, ls) over the cells selected by keep(c);     *)
(* FoldLeftDomain is evaluated iteratively by TLC (Java override), one pass each.        *)
L2SumWhere(hs, ls, keep(_)) ==
    FoldLeftDomain(LAMBDA acc, c : IF keep(c) THEN L2AddSat(acc, <<hs[c], ls[c]>>) ELSE acc,
                   L2Zero, hs)
(* maximum; <<-1, 0>> when no cell is selected *)
L2MaxWhere(hs, ls, keep(_)) ==
    FoldLeftDomain(LAMBDA acc, c : IF keep(c) THEN L2Max(acc, <<hs[c], ls[c]>>) ELSE acc,
                   <<-1, 0>>, hs)
(* minimum; <<2^31-1, 0>> when no cell is selected *)
L2Top == <<2147483647, 0>>
L2MinWhere(hs, ls, keep(_)) ==
    FoldLeftDomain(LAMBDA acc, c : IF keep(c) THEN L2Min(acc, <<hs[c], ls[c]>>) ELSE acc,
                   L2Top, hs)
CountWhere(s, keep(_)) ==
    FoldLeftDomain(LAMBDA acc, c : IF keep(c) THEN acc + 1 ELSE acc, 0, s)
AllWhere(s, ok(_)) ==
    FoldLeftDomain(LAMBDA acc, c : acc /\ ok(c), TRUE, s)

=============================================================================
