SPECIFICATION Spec
CONSTANTS Depth = 2  MaxLen = 4  Memo = FALSE
CHECK_DEADLOCK FALSE
INVARIANT CondEqualsTemplateAlongHistory
