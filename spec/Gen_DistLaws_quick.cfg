SPECIFICATION Spec
CONSTANT Tier = "quick"
CHECK_DEADLOCK FALSE
INVARIANT Emit
