"""C05 - cdf / icdf / pdf follow the documented formula and each other; an explicit parameter
gives exactly the result of an instance constructed with it.

M: TLC explores spec/ParamRouting.tla (scenario "override": NewDist -> CallExplicit for every
   family x override subset x method x argument kind x pass kind) and spec/DistLaws.tla (the law
   operators on every small exact discrete distribution), each with a mutation config.
R: TLC emits the override product and the parameter classes as JSON cases; every one is executed
   on the real classes (pairwise distinct numbers for the tokens; mpmath references for tables).
V: spec/Trace_C05.tla judges every record clause by clause and asserts coverage of the products.
"""
from __future__ import annotations

import math
import multiprocessing as mpc
import os
import warnings

import numpy as np

from .common import Q, Qc, Machinery, import_virocon
from . import distfam as D

LEVEL = "model_checking"
BIG = 2_000_000_000
EPS = 2.0 ** -53
PTOL = 1e-12   # = IcdfPTolE15 of spec/DistLawsOps.tla

# ---------------------------------------------------------------------------------------
# routing half


def _case_setup(case):
    fam, E = case["fam"], list(case["E"])
    S = D.STORED[fam]
    X = D.explicit_values(fam)
    Ed = {n: X[n] for n in E}
    resolved = {n: Ed.get(n, S[n]) for n in D.NAMES[fam]}
    return fam, S, Ed, resolved


def _eval_pair(a, b, case, Ed, seed):
    """(outcome, result) of  a.method(x, E)  and of  b.method(x)"""
    fam, method, kind, pas = case["fam"], case["method"], case["argkind"], case["pass"]
    out = []
    for obj, ov in ((a, Ed), (b, {})):
        try:
            r = D.call(obj, fam, method, D.arg_of(method, kind), ov, pas,
                       random_state=D.random_state_of(kind, 1234 + seed))
            out.append(("ok", r))
        except Exception as e:  # noqa
            out.append((type(e).__name__, None))
    return out


def _same_pair(p, q):
    return all(x[0] == y[0] and (x[1] is None or D.compare(x[1], y[1])[0]) for x, y in zip(p, q))


def override_history(vc, cases, isolated, seed):
    """History leg: ALL instances of all cases are constructed first; then every case is
    evaluated twice, at different positions of two seeded shuffles of the case list.  Returns
    per case whether both evaluations equal the isolated one (instance constructed right
    before its call) bit for bit, and the two positions."""
    n = len(cases)
    objs = []
    with warnings.catch_warnings():
        warnings.simplefilter("ignore")
        for c in cases:
            fam, S, Ed, resolved = _case_setup(c)
            objs.append((D.build(vc, fam, S), D.build(vc, fam, resolved), Ed))
        rng = np.random.default_rng(9000 + seed)
        same = [True] * n
        pos = [[0, 0] for _ in range(n)]
        for k in (0, 1):
            order = rng.permutation(n)
            for where, i in enumerate(order):
                a, b, Ed = objs[i]
                got = _eval_pair(a, b, cases[i], Ed, seed)
                same[i] = same[i] and _same_pair(got, isolated[i])
                pos[i][k] = int(where)
    return same, pos


def override_record(vc, rid, case, seed=0, raw=None):
    fam, E, method = case["fam"], list(case["E"]), case["method"]
    kind, pas = case["argkind"], case["pass"]
    S = D.STORED[fam]
    X = D.explicit_values(fam)
    Ed = {n: X[n] for n in E}
    resolved = {n: Ed.get(n, S[n]) for n in D.NAMES[fam]}
    rec = dict(id=rid, kind="override", fam=fam, E=E, method=method, argkind=kind, **{"pass": pas},
               outcome="ok", outcomeinst="ok", same=False, shapeok=False, relq=BIG, effective=False,
               hsame=True, hpos=[0, 0])
    arg = D.arg_of(method, kind)
    with warnings.catch_warnings():
        warnings.simplefilter("ignore")
        a = D.build(vc, fam, S)
        b = D.build(vc, fam, resolved)
        ra = rb = None
        try:
            ra = D.call(a, fam, method, arg, Ed, pas, random_state=D.random_state_of(kind, 1234 + seed))
        except Exception as e:  # noqa
            rec["outcome"] = type(e).__name__
        try:
            rb = D.call(b, fam, method, arg, {}, pas, random_state=D.random_state_of(kind, 1234 + seed))
        except Exception as e:  # noqa
            rec["outcomeinst"] = type(e).__name__
        if raw is not None:
            raw.append([(rec["outcome"], ra), (rec["outcomeinst"], rb)])
        if ra is not None and rb is not None:
            same, shapeok, rel = D.compare(ra, rb)
            rec.update(same=bool(same), shapeok=bool(shapeok), relq=Qc(rel, 1e15, 0, BIG))
            try:
                r0 = D.call(D.build(vc, fam, S), fam, method, arg, {}, pas,
                            random_state=D.random_state_of(kind, 1234 + seed))
                rec["effective"] = bool(E) and not D.compare(ra, r0)[0]
            except Exception:  # noqa
                pass
    return rec


def int_value(fam, n, vk, length):
    """integer-typed value (>= 2) of one parameter: 2 / 3 alternating with the position of the name"""
    v = 2 + D.NAMES[fam].index(n) % 2
    if vk == "pyint":
        return v
    if vk == "int64":
        return np.int64(v)
    if vk == "int32":
        return np.int32(v)
    return np.array([v + (i % 2) for i in range(length)], dtype=np.int64)     # one value per point


def int_override_record(vc, rid, case, seed=0):
    """Fam(S).method(x, **E_int)  vs  Fam(Resolve(S, E_int)).method(x)  with integer-typed values"""
    fam, E, method, vk, pas = case["fam"], list(case["E"]), case["method"], case["special"], case["pass"]
    arg = D.arg_of(method, "ndarray")
    length = 1 if method == "draw_sample" else len(arg)
    S = D.STORED[fam]
    Ed = {n: int_value(fam, n, vk, max(length, 4)) for n in E}
    resolved = {n: Ed.get(n, S[n]) for n in D.NAMES[fam]}
    rec = dict(id=rid, kind="intoverride", fam=fam, E=E, method=method, valkind=vk, **{"pass": pas},
               outcome="ok", outcomeinst="ok", same=False, shapeok=False, relq=BIG, effective=True,
               hsame=True, hpos=[0, 0])
    with warnings.catch_warnings(), np.errstate(all="ignore"):
        warnings.simplefilter("ignore")
        ra = rb = None
        try:
            ra = D.call(D.build(vc, fam, S), fam, method, arg, Ed, pas, random_state=1234 + seed)
        except Exception as e:  # noqa
            rec["outcome"] = type(e).__name__
        try:
            rb = D.call(D.build(vc, fam, resolved), fam, method, arg, {}, pas, random_state=1234 + seed)
        except Exception as e:  # noqa
            rec["outcomeinst"] = type(e).__name__
        if ra is not None and rb is not None:
            same, shapeok, rel = D.compare(ra, rb)
            rec.update(same=bool(same), shapeok=bool(shapeok), relq=Qc(rel, 1e15, 0, BIG))
    return rec


def int_override_key(c):
    return (f"{c['fam']} {c['method']} override={'+'.join(c['E'])} int={c['special']} pass={c['pass']}")


HIST_X = np.array([0.9, 1.6, 2.3, 3.1])
HIST_P = np.array([0.05, 0.3, 0.62, 0.97])


def hist_expected(vc, fams):
    """isolated results: Fam(Resolve(S, {n})).method(x), computed before any history runs"""
    exp = {}
    for fam in fams:
        X = D.explicit_values(fam)
        for n in D.NAMES[fam]:
            ref = D.build(vc, fam, dict(D.STORED[fam], **{n: X[n]}))
            for m in ("cdf", "pdf", "icdf"):
                exp[(fam, n, m)] = getattr(ref, m)(HIST_P if m == "icdf" else HIST_X)
    return exp


def hist_record(vc, rid, ops, exp):
    """replay one TLC history  new(f) / eval(i, n)  on the real classes"""
    rec = dict(id=rid, kind="hist", ops=[[str(v) if not isinstance(v, list) else v for v in o] for o in ops],
               ok=True, nev=0, exc="", bad="")
    insts = []
    with warnings.catch_warnings():
        warnings.simplefilter("ignore")
        for op in ops:
            if op[0] == "new":
                insts.append((op[1], D.build(vc, op[1], D.STORED[op[1]])))
                continue
            fam, obj = insts[int(op[1]) - 1]
            n = op[2]
            for m in ("cdf", "pdf", "icdf"):
                rec["nev"] += 1
                try:
                    got = getattr(obj, m)(HIST_P if m == "icdf" else HIST_X, **{n: D.explicit_values(fam)[n]})
                    good = D.compare(got, exp[(fam, n, m)])[0]
                except Exception as e:  # noqa
                    good = False
                    rec["exc"] = rec["exc"] or f"{type(e).__name__}: {e}"[:120]
                if not good:
                    rec["ok"] = False
                    rec["bad"] = rec["bad"] or f"{fam}#{op[1]}.{m}({n}=...)"
    return rec


def attr_data(fam, n, seed):
    """own-family sample for the fit step of an attribute history (numpy / scipy directly)"""
    from .c11 import own_data
    return own_data(fam, n, np.random.default_rng([seed, 31, sum(map(ord, fam))]))


def attrhist_record(vc, rid, case, seed=0):
    """One history of ParamRoutingAttr on one real object: E = evaluate pdf / cdf / icdf / seeded
    draw_sample WITHOUT explicit parameters, A<k> = assign the attribute of the k-th parameter
    directly, F = fit.  After every E the results must be, bit for bit, those of a fresh instance
    constructed with the CURRENT parameter values."""
    fam, steps = case["fam"], list(case["steps"])
    names = D.NAMES[fam]
    rec = dict(id=rid, kind="attrhist", fam=fam, steps=steps, ok=True, nev=0, exc="", bad="")
    cur = dict(D.STORED[fam])
    with warnings.catch_warnings(), np.errstate(all="ignore"):
        warnings.simplefilter("ignore")
        try:
            obj = D.build(vc, fam, cur)
            nass = 0
            for si, st in enumerate(steps):
                if st == "F":
                    obj.fit(attr_data(fam, 200, seed + si))
                    cur = {n: v for n, v in obj.parameters.items()}
                    continue
                if st != "E":
                    nass += 1
                    n = names[int(st[1]) - 1]
                    v = float(f"{float(cur[n]) * (1.07 + 0.05 * nass):.9g}")
                    setattr(obj, n, v)
                    cur[n] = v
                    continue
                fresh = D.build(vc, fam, cur)
                if dict(obj.parameters) != dict(fresh.parameters) and not rec["bad"]:
                    rec["ok"] = False
                    rec["bad"] = f"step {si + 1}: parameters {dict(obj.parameters)} != {cur}"
                for m in ("cdf", "pdf", "icdf", "draw_sample"):
                    rec["nev"] += 1
                    arg = 4 if m == "draw_sample" else (HIST_P if m == "icdf" else HIST_X)
                    kw = dict(random_state=77 + seed) if m == "draw_sample" else {}
                    if not D.compare(getattr(obj, m)(arg, **kw), getattr(fresh, m)(arg, **kw))[0]:
                        rec["ok"] = False
                        rec["bad"] = rec["bad"] or f"step {si + 1}: {m} differs from {fam}({cur})"
        except Exception as e:  # noqa
            rec["exc"] = f"{type(e).__name__}: {e}"[:160]
    return rec


def attrhist_key(c):
    return f"attribute history {c['fam']} " + "-".join(
        st if st in "EF" else f"{D.NAMES[c['fam']][int(st[1]) - 1]}=" for st in c["steps"])


VM_PROBES = [(1.0, 4.0), (1.0, 0.5), (7.0, -2.0), (0.5, -4.5)]      # (kappa, mu): mu inside and outside [-pi, pi]


def vmprobe_record(vc, rid, kappa, mu):
    """von Mises outside its support [mu - pi, mu + pi] and at p = 0 / 1 (C05: cdf from 0 to 1, pdf zero
    outside the support, x incl. negative and zero values, icdf at the ends)"""
    d = vc.VonMisesDistribution(kappa=kappa, mu=mu)
    lo, hi = mu - math.pi, mu + math.pi
    left = np.array([lo - 3.0, lo - 0.5, lo - 1e-3] + ([0.0] if 0.0 < lo else []) + ([-1.0] if -1.0 < lo else []))
    right = np.array([hi + 1e-3, hi + 0.5, hi + 3.0, mu + 6.0] + ([0.0] if 0.0 > hi else []))
    with warnings.catch_warnings(), np.errstate(all="ignore"):
        warnings.simplefilter("ignore")
        Fl, Fr = np.asarray(d.cdf(left)), np.asarray(d.cdf(right))
        fl, fr = np.asarray(d.pdf(left)), np.asarray(d.pdf(right))
        g0, g1 = float(d.icdf(0.0)), float(d.icdf(1.0))
    return dict(id=rid, kind="vmprobe", kappa=repr(kappa), mu=repr(mu),
                cdfok=bool(np.all(Fl == 0) and np.all(Fr == 1)), pdfzero=bool(np.all(fl == 0) and np.all(fr == 0)),
                icdfends=bool(abs(g0 - lo) <= 1e-12 * (1 + abs(lo)) and abs(g1 - hi) <= 1e-12 * (1 + abs(hi))),
                seen=f"cdf left {Fl.min():.4g}..{Fl.max():.4g} right {Fr.min():.4g}..{Fr.max():.4g} "
                     f"pdf outside up to {max(fl.max(), fr.max()):.4g} icdf(0)={g0} icdf(1)={g1}")


def vmprobe_key(kappa, mu):
    return f"VonMises outside-support probe kappa={kappa:g} mu={mu:g}"


def hist_key(ops):
    return "history " + " ".join(f"new({o[1]})" if o[0] == "new" else f"eval(#{o[1]},{o[2]})" for o in ops)


def override_key(c):
    return f"{c['fam']} {c['method']} override={'+'.join(c['E']) or '-'} arg={c['argkind']} pass={c['pass']}"


# ---------------------------------------------------------------------------------------
# formula half

P_GRID = [0.0, 1e-16, 1e-12, 1e-9, 1e-6, 1e-3, 0.01, 0.1, 0.25, 0.5, 0.75, 0.9, 0.99, 0.999,
          1 - 1e-6, 1 - 1e-9, 1 - 1e-12, 1.0]
NEAR_EDGE = [1e-9, 1e-7, 1e-5, 1e-3]     # x = boundary + t * inter-quartile range
Q_PLACES = [1e-12, 1e-9, 1e-6, 1e-3, 0.01, 0.05, 0.25, 0.5, 0.75, 0.95, 0.99, 0.999, 1 - 1e-6, 1 - 1e-9,
            1 - 1e-12]


def underflow_par(fam, code):
    """parameter vector of an underflow class (spec/DistLawsOps.tla UnderflowCases)"""
    k = code - 1
    if fam == "ExpWeibull":
        return dict(alpha=[1.0, 1000.0][k // 8], beta=[100.0, 500.0][k % 2], delta=[0.3, 0.01, 0.002, 0.001][(k // 2) % 4])
    return dict(m=[0.05, 0.002][k % 2], c=[100.0, 500.0][(k // 2) % 2], lambda_=[1.0, 0.001][k // 4])


def overflow_par(fam, code):
    """parameter vector of an overflow class (spec/DistLawsOps.tla OverflowCases)"""
    return {"Weibull": [dict(alpha=1.0, beta=100.0, gamma=0.0), dict(alpha=2.0, beta=300.0, gamma=0.5),
                        dict(alpha=1.0, beta=1000.0, gamma=0.0), dict(alpha=10.0, beta=60.0, gamma=0.0)],
            "ExpWeibull": [dict(alpha=1.0, beta=100.0, delta=2.0), dict(alpha=1000.0, beta=1000.0, delta=0.5)],
            "GenGamma": [dict(m=2.0, c=50.0, lambda_=1.0), dict(m=0.5, c=1000.0, lambda_=0.001)],
            "ScipyGamma": [dict(a=100.0, loc=0.0, scale=1.0), dict(a=1000.0, loc=0.5, scale=2.0)]}[fam][code - 1]


def power_term(fam, par):
    """(e, loc, scale): the documented density carries ((x - loc) / scale)^e; None for the other families"""
    if fam == "Weibull":
        return par["beta"] - 1.0, par["gamma"], par["alpha"]
    if fam == "ExpWeibull":
        return par["beta"] - 1.0, 0.0, par["alpha"]
    if fam == "GenGamma":
        return par["c"] * par["m"] - 1.0, 0.0, 1.0 / par["lambda_"]
    if fam == "ScipyGamma":
        return par["a"] - 1.0, par["loc"], par["scale"]
    return None


def power_overflows(fam, par, x):
    """does the power term of the documented density exceed the double range at x (decided in log space)"""
    pt = power_term(fam, par)
    if pt is None or not pt[0] > 0 or not x > pt[1]:
        return False
    return pt[0] * math.log10((x - pt[1]) / pt[2]) > 308.26


def upper_tail_probes(fam, par):
    """abscissae far in the upper tail (spec/DistLawsOps.tla OverflowCases): x = loc + scale * t with
    t = 1.5 T, 10 T, 1e6 T, T^2, T = 10^(308 / e), where the power term t^e overflows; and for every
    unbounded support 1e3 / 1e6 times beyond the 1 - 1e-12 quantile"""
    from . import reference as R

    out = []
    pt = power_term(fam, par)
    if pt is not None and pt[0] > 0:
        e, loc, scale = pt
        lt = 308.0 / e                   # log10 T
        for la in (lt + math.log10(1.5), lt + 1.0, lt + 6.0, 2.0 * lt):
            if la < 150.0:
                out.append(loc + scale * 10.0 ** la)
    lo, hi = R.support(fam, par)
    if hi == R.INF:
        base = float(lo) if lo != -R.INF else R.approx_quantile(fam, par, 0.5)
        far = R.approx_quantile(fam, par, 1 - 1e-12) - base
        out += [base + 1e3 * far, base + 1e6 * far]
    return [x for x in out if math.isfinite(x) and abs(x) < 1e200]


UNDERFLOW_X = [0.01, 0.02, 0.05, 0.1, 0.2, 0.3, 0.5, 0.7, 0.8, 0.9, 0.95, 0.99, 1.0]     # x / scale


def make_grid(fam, par, npts, extra=()):
    from . import reference as R

    lo, hi = R.support(fam, par)
    q = lambda p: R.approx_quantile(fam, par, p)
    s = q(0.75) - q(0.25)
    if not (s > 0 and math.isfinite(s)):
        raise Machinery(f"degenerate scale for {fam} {par}")
    pts = {q(p) for p in Q_PLACES}
    a, b = q(0.001), q(0.999)
    nfill = max(4, npts - len(pts) - 8)
    pts |= {float(v) for v in np.linspace(a, b, nfill)}
    pts |= {0.0, -1.0 * s, -0.37 * s}
    pts |= {float(v) for v in extra}
    lo_f = None if lo == -R.INF else float(lo)
    hi_f = None if hi == R.INF else float(hi)
    if fam == "VonMises":
        # the documented formula is stated on one period; the table stays inside it
        eps = 1e-9
        pts = {x for x in pts if lo_f + eps <= x <= hi_f - eps} | {lo_f + eps, hi_f - eps}
        pts |= {lo_f + t * s for t in NEAR_EDGE}
    else:
        if lo_f is not None:
            pts |= {lo_f - 3 * s, lo_f - 1e-3 * s, lo_f + 1e-6 * s}
            pts |= {lo_f + t * s for t in NEAR_EDGE}
            if R.M(lo_f) == lo:
                pts.add(lo_f)
        if hi_f is not None:
            pts |= {hi_f + 3 * s, hi_f + 1e-3 * s, hi_f - 1e-6 * s}
            if R.M(hi_f) == hi:
                pts.add(hi_f)
    # a double within a few ulp of a boundary that is not itself a double (loc + scale, mu +- pi)
    # cannot be classified as inside / outside by any double-precision evaluation: not tabulated
    def ambiguous(x):
        for e, ef in ((lo, lo_f), (hi, hi_f)):
            if ef is None or R.M(x) == e:
                continue
            span = max(abs(x), abs(ef), abs(lo_f or 0.0), abs(hi_f or 0.0))
            if abs(R.M(x) - e) <= 16 * EPS * span:
                return True
        return False

    xs = sorted(x for x in pts if math.isfinite(x) and not ambiguous(x))
    return xs, s, lo, hi


def _scalar_ok(v):
    return np.ndim(v) == 0


def edge_variants_same(vc, fam, par, x, fv):
    """pdf at a boundary point with the parameters passed explicitly - scalars by keyword and positionally,
    length-2 arrays with x as list - gives the value of the instance, bit for bit"""
    other = D.build(vc, fam, D.STORED[fam])
    try:
        a = other.pdf(x, **par)
        b = other.pdf(x, *[par[n] for n in D.NAMES[fam]])
        c = other.pdf([x, x], **{n: np.array([v, v]) for n, v in par.items()})
    except Exception:  # noqa
        return False
    return bool(D.compare(a, fv)[0] and D.compare(b, fv)[0] and D.compare(c, [fv, fv])[0])


def ref_cdf(fam, par, x):
    """documented cdf (harness/reference.py); mpmath's incomplete gamma function does not terminate for an
    argument like 1e1600, so the two gamma-type families are cut off far in the upper tail: for
    y >= max(1e4, 100 a) the complement Q(a, y) <= y^(a-1) e^(-y) / Gamma(a) * y / (y - a + 1) < 1e-3000
    (a <= 1000), i.e. the documented value is 1 to the 30 digits carried"""
    from . import reference as R

    if fam in ("GenGamma", "ScipyGamma"):
        a = par["m"] if fam == "GenGamma" else par["a"]
        lo, _ = R.support(fam, par)
        if R.M(x) > lo:
            y = (R.M(par["lambda_"]) * R.M(x)) ** R.M(par["c"]) if fam == "GenGamma" else (R.M(x) - lo) / R.M(par["scale"])
            if a <= 1000 and y >= max(1e4, 100 * a):
                return R.M(1)
    return R.cdf(fam, par, x)


def laws_record(vc, rid, case):
    """tabulate one real distribution object and attach the documented reference values"""
    from . import reference as R

    fam, cl, par = case["fam"], list(case["cl"]), case["par"]
    rec = dict(id=rid, kind="laws", fam=fam, cl=cl, ext=list(case.get("ext", [0, 0])), rep=case["rep"], exc="")
    with warnings.catch_warnings(), np.errstate(all="ignore"):
        warnings.simplefilter("ignore")
        xs, s, lo, hi = make_grid(fam, par, case["npts"], list(case.get("xextra", ())) + upper_tail_probes(fam, par))
        rec["novf"] = sum(1 for x in xs if power_overflows(fam, par, x))
        xa = np.array(xs, dtype=float)
        try:
            dist = D.build(vc, fam, par)
            F = np.asarray(dist.cdf(xa), dtype=float)
            f = np.asarray(dist.pdf(xa), dtype=float)
            pa = np.array(P_GRID)
            G = np.asarray(dist.icdf(pa), dtype=float)
            FG = np.asarray(dist.cdf(G[1:-1]), dtype=float)
            GF = np.asarray(dist.icdf(F), dtype=float)
        except Exception as e:  # noqa
            rec["exc"] = f"{type(e).__name__}: {e}"[:200]
            return rec
        n = len(xs)
        side, Ffin, Fq, Frq, Fexact = [], [], [], [], []
        lo_f = -np.inf if lo == -R.INF else float(lo)
        hi_f = np.inf if hi == R.INF else float(hi)
        fsgn, fcls, frel, fabs_ = [], [], [], []
        rtxin, rtx, rtxtail = [], [], []
        Fref = []
        edge = []

        def dist_of(v):
            """distance from the nearest finite support boundary (scale of the table if there is none)"""
            cand = [abs(v - e) for e in (lo_f, hi_f) if math.isfinite(e)]
            return max(min(cand), 1e-300) if cand else max(abs(v), s)

        for i, x in enumerate(xs):
            X = R.M(x)
            sd = -1 if X < lo else (1 if X > hi else 0)
            side.append(sd)
            fr = ref_cdf(fam, par, x)
            Fref.append(float(fr))
            fin = bool(np.isfinite(F[i]))
            Ffin.append(fin)
            Fq.append(Qc(F[i], 1e9, -BIG, BIG) if fin else 0)
            if fin and sd == 0 and abs(R.M(float(F[i])) - fr) > 2e-9:
                # conditioning: the documented cdf over the x-interval a double resolves (steep cdf at a
                # singular boundary, e.g. beta(b = 0.1) at loc + scale); the nearest value of that range counts
                spn = max(abs(x), abs(lo_f) if math.isfinite(lo_f) else 0.0, abs(hi_f) if math.isfinite(hi_f) else 0.0)
                a_, b_ = R.cdf(fam, par, x - 8 * EPS * spn), R.cdf(fam, par, x + 8 * EPS * spn)
                fr = min(max(R.M(float(F[i])), a_), b_)
            Frq.append(Q(fr, 1e9))
            Fexact.append(bool(F[i] == (0.0 if sd < 0 else 1.0)) if sd != 0 else True)
            pr = R.pdf(fam, par, x)
            fv = f[i]
            fsgn.append(0 if fv == 0 else (1 if fv > 0 else -1))
            span = max(abs(x), abs(lo_f) if math.isfinite(lo_f) else 0.0, abs(hi_f) if math.isfinite(hi_f) else 0.0)
            dx = 8 * EPS * span          # a few ulp of x / loc / loc+scale: what a double can resolve
            on_edge = (X == lo or X == hi)
            if on_edge:
                # boundary point of the support: the value of the documented formula there (its limit from
                # inside: finite, 0 or +inf) - judged by the clause PdfAtSupportBoundary, with the parameters
                # stored in the instance and passed explicitly (scalars / arrays, keyword / positional)
                fcls.append(0); frel.append(0); fabs_.append(0)
                def _edge_good(prv):
                    if prv == R.INF:
                        return bool(fv == np.inf)
                    if prv == 0:
                        return bool(fv == 0)
                    return bool(np.isfinite(fv) and abs(R.M(float(fv)) - prv) <= R.M("1e-8") * prv)

                good = _edge_good(pr)
                if not good and x == 0:
                    # knife edge: the exponent of x (beta*delta - 1, c*m - 1) is 0 in double arithmetic but
                    # +-1e-17 for the doubles taken as exact numbers (100 * 0.01): the value for exponent 0 counts
                    alt = R.pdf_at_zero_knife_edge(fam, par)
                    good = alt is not None and _edge_good(alt)
                edge.append(dict(x=repr(x), want=("inf" if pr == R.INF else repr(float(pr))), got=repr(float(fv)),
                                 ok=good, same=edge_variants_same(vc, fam, par, x, fv)))
            elif np.isnan(fv):
                fcls.append(2); frel.append(BIG); fabs_.append(BIG)
            elif pr == R.INF:
                fcls.append(1 if fv == np.inf else 2); frel.append(0); fabs_.append(0)
            elif not np.isfinite(fv):
                fcls.append(2); frel.append(BIG); fabs_.append(BIG)
            else:
                fcls.append(0)
                d = abs(R.M(float(fv)) - pr)
                if pr > 0 and d / pr > 1e-8 and d * s > 1e-9 and sd == 0 and not on_edge:
                    # conditioning: the documented value over the x-interval a double resolves
                    band = [R.pdf(fam, par, x - dx), pr, R.pdf(fam, par, x + dx)]
                    band += [R.pdf(fam, par, e) for e in (lo, hi) if X - dx <= e <= X + dx]
                    if any(b == R.INF for b in band):
                        d = R.M(0)
                    else:
                        fvm = R.M(float(fv))
                        d = max(R.M(0), min(band) - fvm, fvm - max(band))
                frel.append(Qc(d / pr, 1e12, 0, BIG) if pr > 0 else (0 if d == 0 else BIG))
                fabs_.append(Qc(d * s, 1e12, 0, BIG))
            inb = fin and 1e-30 <= F[i] <= 1 - 1e-9 and sd == 0 and not on_edge and 0 < pr < R.INF
            rtxin.append(bool(inb))
            rtxtail.append(bool(inb and not (1e-6 <= F[i] <= 1 - 1e-6)))
            if inb:
                allow = 8 * EPS * float(F[i]) / float(pr) + dx
                rtx.append(Qc(max(0.0, abs(GF[i] - x) - allow) / dist_of(x), 1e12, 0, BIG))
            else:
                rtx.append(0)
        # icdf against the documented cdf: F_ref(G - d) <= p <= F_ref(G + d), d = 1e-8 relative
        gok, pin, rtp, ptail = [], [], [], []
        for j, p in enumerate(P_GRID[1:-1]):
            g = G[1 + j]
            tail = not (1e-6 <= p <= 1 - 1e-6)
            ptail.append(tail)
            P = R.M(p)
            if not np.isfinite(g):
                gok.append(False)
                span = 0.0
            else:
                span = max(abs(g), abs(lo_f) if math.isfinite(lo_f) else 0.0,
                           abs(hi_f) if math.isfinite(hi_f) else 0.0)
                d = 1e-8 * dist_of(g) + 8 * EPS * span
                ptol = 16 * EPS * P if tail else R.M(PTOL)
                gok.append(bool(R.cdf(fam, par, g - d) - ptol <= P <= R.cdf(fam, par, g + d) + ptol))
            pin.append(True)
            err = abs(FG[j] - p)
            if np.isfinite(g):
                # representation error of the intermediate double G(p): the documented cdf varies by this
                # much over G -+ 8 ulp (exact form of "pdf x 8 ulp", also at a singular boundary)
                vary = float(R.cdf(fam, par, g + 8 * EPS * span) - R.cdf(fam, par, g - 8 * EPS * span))
                err = max(0.0, err - vary - (16 if tail else 4) * EPS * p)    # tails: IcdfPUlps of p
            rtp.append(Qc(err / min(p, 1 - p), 1e12, 0, BIG))
        if fam == "VonMises":
            gend = "na"
        else:
            e0 = (G[0] == (-np.inf if lo == -R.INF else float(lo)))
            e1 = (G[-1] == (np.inf if hi == R.INF else float(hi)))
            if hi != R.INF and R.M(float(hi)) != hi:   # loc + scale not exactly representable
                e1 = abs(G[-1] - float(hi)) <= 4e-16 * max(abs(float(hi)), abs(par.get("loc", 0.0)))
            gend = "ok" if (e0 and e1) else f"bad G(0)={G[0]!r} G(1)={G[-1]!r}"
        # derivative triples
        dlo, dmid, dhi, dsl = [], [], [], []
        cand = [i for i in range(n) if side[i] == 0 and 0.01 <= Fref[i] <= 0.99]
        step = max(1, len(cand) // 40)
        for i in cand[::step]:
            x = xs[i]
            h = 1e-3 * min(s, x - lo_f, hi_f - x)
            if not (h > 0) or float(R.pdf(fam, par, x)) * s > 1000.0:
                continue
            tri = np.array([x - h, x, x + h])
            ff = np.asarray(dist.pdf(tri), dtype=float)
            cc = np.asarray(dist.cdf(tri), dtype=float)
            sl = (cc[2] - cc[0]) / (tri[2] - tri[0])
            vals = [ff[0] * s, ff[1] * s, ff[2] * s, sl * s]
            if not all(np.isfinite(v) and abs(v) < 2000 for v in vals):
                vals = [0.0, 0.0, 0.0, 2000.0]   # judged as a failure of the clause
            dlo.append(Q(vals[0], 1e6)); dmid.append(Q(vals[1], 1e6)); dhi.append(Q(vals[2], 1e6))
            dsl.append(Q(vals[3], 1e6))
        # array_like kinds: ndarray (above) / list / python scalars
        kexc, kshape, krel = "", True, 0.0
        for meth, arr, base in (("cdf", xa, F), ("pdf", xa, f), ("icdf", pa, G)):
            fn = getattr(dist, meth)
            try:
                rl = fn([float(v) for v in arr])
            except Exception as e:  # noqa
                kexc = kexc or f"{type(e).__name__}:{meth}:list"
                rl = None
            if rl is not None:
                _, shp, rel = D.compare(rl, base)
                kshape = kshape and shp and isinstance(rl, np.ndarray)
                krel = max(krel, rel if shp else 0.0)
            try:
                rs = [fn(float(v)) for v in arr]
            except Exception as e:  # noqa
                kexc = kexc or f"{type(e).__name__}:{meth}:scalar"
                rs = None
            if rs is not None:
                kshape = kshape and all(_scalar_ok(v) for v in rs)
                _, shp, rel = D.compare([float(v) for v in rs], base)
                krel = max(krel, rel if shp else 0.0)
        momrel = 0
        if fam == "NormFit":
            momrel = Qc(normfit_moment_error(dist, par), 1e12, 0, BIG)
        rec.update(par={k: repr(v) for k, v in par.items()}, npts=n, side=side, Ffin=Ffin, Fq=Fq, Frq=Frq, Fexact=Fexact,
                   edgeok=all(e["ok"] for e in edge), edgesame=all(e["same"] for e in edge), nedge=len(edge), edge=edge,
                   fsgn=fsgn, fcls=fcls, frel=frel, fabs=fabs_, rtxin=rtxin, rtx=rtx, rtxtail=rtxtail,
                   gok=gok, pin=pin, ptail=ptail, rtp=rtp, gend=gend, gtolE12=10000, gptolE15=1000, gpulps=16,
                   dlo=dlo, dmid=dmid, dhi=dhi, dslope=dsl,
                   kexc=kexc, kshape=bool(kshape), krel=Qc(krel, 1e15, 0, BIG), momrel=momrel)
    return rec


def normfit_moment_error(dist, par):
    """mean / std of the measured pdf by quadrature (the pdf is the real object's).  Integration
    variable t = (ln x - mu) / sigma over [-12, 12] (mu, sigma of the documented formula only place
    the window); central moments in expm1 form, so that a ratio sigma_norm / mu_norm of 1e-9 is
    resolved."""
    from scipy.integrate import quad
    from . import reference as R

    mn, sn = par["mu_norm"], par["sigma_norm"]
    mu, sg = (float(v) for v in R.normfit_mu_sigma(R.M(mn), R.M(sn)))
    c = math.log(mn)

    def g(t, k):
        u = mu + sg * t
        x = math.exp(u)
        return float(dist.pdf(x)) * x * sg * math.expm1(u - c) ** k

    lims = dict(limit=400, epsabs=0, epsrel=1e-11, points=[-6, -3, -1, 0, 1, 3, 6])
    m0 = quad(g, -12, 12, args=(0,), **lims)[0]
    m1 = quad(lambda t: g(t, 1), -12, 12, **dict(lims, epsabs=1e-14 * max(sn / mn, 1e-30)))[0]   # (E X - mn) / mn
    m2 = quad(g, -12, 12, args=(2,), **lims)[0]                              # E (X - mn)^2 / mn^2
    var = m2 - m1 * m1
    if not (var > 0):
        return float("inf")
    return max(abs(m0 - 1.0), abs(m1), abs(math.sqrt(var) * mn - sn) / sn)


def laws_key(c):
    ext = c.get("ext", [0, 0])
    return (f"{c['fam']} class={''.join(map(str, c['cl']))} "
            + (f"ext=slot{ext[0]}.level{ext[1]} " if ext[0] else "") + f"rep={c['rep']} "
            + " ".join(f"{k}={v:.6g}" for k, v in c["par"].items()))


_VC = None


def _laws_worker(args):
    global _VC
    if _VC is None:
        _VC = import_virocon()
    rid, case = args
    return laws_record(_VC, rid, case)


def laws_records(ctx, vc, cases, base):
    jobs = [(base + i + 1, c) for i, c in enumerate(cases)]
    if len(jobs) < 8:
        return [laws_record(vc, rid, c) for rid, c in jobs]
    nproc = min(ctx.pick(6, 12), os.cpu_count() or 2)
    with mpc.get_context("fork").Pool(nproc) as pool:
        return pool.map(_laws_worker, jobs, chunksize=2)


def law_cases(ctx, classes):
    reps = ctx.pick(1, 6)
    npts = ctx.pick(48, 160)
    rng = np.random.default_rng(ctx.seed + 505)
    out = []
    for c in classes:
        ext = list(c.get("ext", [0, 0]))
        if ext[0] == 8:  # overflow class: a fixed parameter vector with a large shape; the probes are added to every table
            out.append(dict(fam=c["fam"], cl=list(c["cl"]), ext=ext, rep=0, npts=npts, par=overflow_par(c["fam"], ext[1])))
            continue
        if ext[0] == 9:  # underflow class: a fixed parameter vector, grid reaching into the underflow region
            par = underflow_par(c["fam"], ext[1])
            scale = par["alpha"] if c["fam"] == "ExpWeibull" else 1.0 / par["lambda_"]
            out.append(dict(fam=c["fam"], cl=list(c["cl"]), ext=ext, rep=0, npts=npts, par=par,
                            xextra=[scale * v for v in UNDERFLOW_X]))
            continue
        if ext[0]:      # extreme level of one slot: one canonical table
            out.append(dict(fam=c["fam"], cl=list(c["cl"]), ext=ext, rep=0, npts=npts,
                            par=D.concretise(c["fam"], c["cl"], 0, rng, ext)))
            continue
        for rep in range(reps):
            # rep 0 is canonical only for seed 0, so that other seeds explore other numbers
            r = rep if ctx.seed == 0 else rep + 1
            out.append(dict(fam=c["fam"], cl=list(c["cl"]), rep=r, npts=npts,
                            par=D.concretise(c["fam"], c["cl"], r, rng)))
    # fixed probes of the large-kappa region of the von Mises distribution (class kappa > 1)
    out.append(dict(fam="VonMises", cl=[2, 0], rep=60, npts=npts, par=dict(kappa=60.0, mu=0.0)))
    out.append(dict(fam="VonMises", cl=[2, 1], rep=200, npts=npts, par=dict(kappa=200.0, mu=1.1)))
    # fixed probes of the boundary value: product of the shapes exactly 1 with factors different from 1
    out.append(dict(fam="ExpWeibull", cl=[0, 2, 2], rep=901, npts=npts, par=dict(alpha=1700.0, beta=0.5, delta=2.0)))
    out.append(dict(fam="ExpWeibull", cl=[2, 1, 0], rep=902, npts=npts, par=dict(alpha=1.7, beta=2.0, delta=0.5)))
    out.append(dict(fam="GenGamma", cl=[0, 2, 2], rep=901, npts=npts, par=dict(m=2.0, c=0.5, lambda_=0.0005)))
    out.append(dict(fam="GenGamma", cl=[2, 1, 0], rep=902, npts=npts, par=dict(m=0.5, c=2.0, lambda_=0.6)))
    return out


# ---------------------------------------------------------------------------------------


def judge(ctx, vc, ocases, lcases, summary=True, hists=(), icases=(), ahists=()):
    raw = []
    recs = [override_record(vc, i + 1, c, ctx.seed, raw) for i, c in enumerate(ocases)]
    if ocases:
        hs, hp = override_history(vc, ocases, raw, ctx.seed)
        for r, a, b in zip(recs, hs, hp):
            r.update(hsame=bool(a), hpos=b)
    del raw
    lrecs = laws_records(ctx, vc, lcases, len(recs))
    hrecs = []
    if hists:
        exp = hist_expected(vc, sorted({o[1] for h in hists for o in h if o[0] == "new"}))
        hrecs = [hist_record(vc, len(recs) + len(lrecs) + i + 1, h, exp) for i, h in enumerate(hists)]
    irecs = [int_override_record(vc, len(recs) + len(lrecs) + len(hrecs) + i + 1, c, ctx.seed)
             for i, c in enumerate(icases)]
    arecs = [attrhist_record(vc, len(recs) + len(lrecs) + len(hrecs) + len(irecs) + i + 1, c, ctx.seed)
             for i, c in enumerate(ahists)]
    vrecs = []
    if summary:
        vrecs = [vmprobe_record(vc, len(recs) + len(lrecs) + len(hrecs) + len(irecs) + len(arecs) + i + 1, k_, m_)
                 for i, (k_, m_) in enumerate(VM_PROBES)]
    allrecs = recs + lrecs + hrecs + irecs + arecs + vrecs
    if summary:
        allrecs.append(dict(id=len(allrecs) + 1, kind="summary", tier=ctx.tier, nhist=len(hists), attrfit=not ctx.quick))
    failing = ctx.validate("Trace_C05", "Trace_C05.cfg", allrecs, xss="256m")
    for c, r in zip(ocases, recs):
        ctx.case("override " + override_key(c), nontrivial=bool(r["effective"]) or r["outcome"] != "ok")
        for clause in failing.get(r["id"], []):
            ctx.violation(clause, override_key(c),
                          f"outcome={r['outcome']} instance={r['outcomeinst']} same={r['same']} "
                          f"shapeok={r['shapeok']} rel={r['relq']}e-15 hsame={r['hsame']} at {r['hpos']}",
                          replay=dict(kind="override", case=c, history=(clause == "CaseOrderIndependent")))
    for c, r in zip(icases, irecs):
        ctx.case("intoverride " + int_override_key(c))
        for clause in failing.get(r["id"], []):
            ctx.violation(clause, int_override_key(c),
                          f"outcome={r['outcome']} instance={r['outcomeinst']} same={r['same']} "
                          f"shapeok={r['shapeok']} rel={r['relq']}e-15", replay=dict(kind="intoverride", case=c))
    for (k_, m_), r in zip(VM_PROBES, vrecs):
        ctx.case(vmprobe_key(k_, m_))
        for clause in failing.get(r["id"], []):
            ctx.violation(clause, vmprobe_key(k_, m_), r["seen"], replay=dict(kind="vmprobe", case=[k_, m_]))
    for c, r in zip(ahists, arecs):
        ctx.case(attrhist_key(c), nontrivial=any(st not in ("E",) for st in c["steps"]))
        for clause in failing.get(r["id"], []):
            ctx.violation(clause, attrhist_key(c), f"{r['bad']} exc={r['exc']!r}", replay=dict(kind="attrhist", case=c))
    for h, r in zip(hists, hrecs):
        ctx.case(hist_key(h), nontrivial=len({o[1] for o in h if o[0] == "new"}) > 1)
        for clause in failing.get(r["id"], []):
            ctx.violation(clause, hist_key(h), f"first deviation {r['bad']} exc={r['exc']!r}",
                          replay=dict(kind="hist", case=h))
    for c, r in zip(lcases, lrecs):
        ctx.case("laws " + laws_key(c), nontrivial=r["exc"] == "" and len(r.get("dslope", [])) > 0)
        for clause in failing.get(r["id"], []):
            if clause == "UpperTailProbed":
                raise Machinery(f"overflow class {laws_key(c)}: only {r.get('novf')} grid points in the overflow region")
            ctx.violation(clause, laws_key(c), laws_detail(r, clause), replay=dict(kind="laws", case=c))
    if summary:
        for clause in failing.get(allrecs[-1]["id"], []):
            raise Machinery(f"coverage clause {clause} rejected: the executed cases are not the enumerated product")
    ctx.log(f"{len(recs)} override executions (each 3x: isolated + 2 history positions), {len(hrecs)} "
            f"construct/evaluate histories, {len(lrecs)} tables judged, "
            f"{sum(1 for r in allrecs if r['id'] in failing)} rejected")
    return recs, lrecs, failing


def laws_detail(r, clause):
    if r["exc"]:
        return r["exc"]
    if clause == "PdfAtSupportBoundary":
        return "pdf at the support boundary: " + str([e for e in r["edge"] if not (e["ok"] and e["same"])][:2])
    if clause == "ArrayLikeKindsAgree":
        return f"kexc={r['kexc']} kshape={r['kshape']} krel={r['krel']}e-15"
    if clause == "CdfMatchesDocumentedFormula":
        return f"max |F-Fref| = {max(abs(a - b) for a, b in zip(r['Fq'], r['Frq']))}e-9"
    if clause == "FiniteValues":
        bad = [i for i, (a, c) in enumerate(zip(r["Ffin"], r["fcls"])) if not a or c == 2]
        return f"cdf not finite / pdf nan or wrongly infinite at grid points {bad[:6]} of {r['npts']} (par={r.get('par')})"
    if clause == "PdfMatchesDocumentedFormula":
        bad = [(a, b) for a, b, c in zip(r["frel"], r["fabs"], r["fcls"]) if c == 0 and a > 10000 and b > 1000]
        return f"(rel,abs)e-12 worst {max(bad) if bad else None}"
    if clause in ("RoundTripX", "RoundTripXFarTail"):
        t = clause.endswith("Tail")
        return f"max G(F(x))-x relative to the distance from the boundary: {max([v for v, k, i in zip(r['rtx'], r['rtxtail'], r['rtxin']) if i and k == t] or [0])}e-12"
    if clause in ("RoundTripP", "RoundTripPFarTail"):
        t = clause.endswith("Tail")
        return "F(G(p))-p relative to min(p,1-p), e-12: " + str(
            {P_GRID[1 + j]: v for j, v in enumerate(r["rtp"]) if v > 100000 and r["ptail"][j] == t})
    if clause in ("IcdfMatchesDocumentedFormula", "IcdfFarTailMatchesDocumentedFormula"):
        t = "FarTail" in clause
        bad = [P_GRID[1 + j] for j, ok in enumerate(r["gok"]) if not ok and r["ptail"][j] == t]
        return f"icdf off the documented quantile at p={bad} gend={r['gend']}"
    if clause == "PdfIsDerivative":
        return f"triples(lo,mid,hi,slope)e-6 first {list(zip(r['dlo'], r['dmid'], r['dhi'], r['dslope']))[:3]}"
    if clause == "NormFitMoments":
        return f"momrel={r['momrel']}e-12"
    return f"par={r.get('par')}"


def selftest(ctx, orec, lrec):
    """every clause can fail: corrupted copies of one accepted record of each kind"""
    import copy

    muts = []

    def mut(rec, clause, **chg):
        r = copy.deepcopy(rec)
        r.update(chg)
        r["id"] = 900000 + len(muts)
        muts.append((r, clause))

    mut(orec, "OverrideEqualsInstance", same=False)
    mut(orec, "CaseOrderIndependent", hsame=False)
    mut(orec, "OutcomeAsSpecified", outcome="TypeError")
    F = list(lrec["Fq"])
    mid = len(F) // 2
    F2 = list(F); F2[mid] = F2[mid - 1] - 5
    mut(lrec, "Monotone", Fq=F2)
    F3 = list(F); F3[mid] = F3[mid] + 40
    mut(lrec, "CdfMatchesDocumentedFormula", Fq=F3)
    F4 = list(F); F4[-1] = 10 ** 9 - 50
    mut(lrec, "ReachesEnds", Fq=F4)
    sg = list(lrec["fsgn"]); sg[mid] = -1
    mut(lrec, "PdfNonNeg", fsgn=sg)
    if any(s != 0 for s in lrec["side"]):
        k = [i for i, s in enumerate(lrec["side"]) if s != 0][0]
        sg2 = list(lrec["fsgn"]); sg2[k] = 1
        mut(lrec, "PdfZeroOutsideSupport", fsgn=sg2)
        fe = list(lrec["Fexact"]); fe[k] = False
        mut(lrec, "Range01", Fexact=fe)
    fr = list(lrec["frel"]); fa = list(lrec["fabs"])
    k0 = [i for i, c in enumerate(lrec["fcls"]) if c == 0][0]
    fr[k0] = 20000; fa[k0] = 5000
    mut(lrec, "PdfMatchesDocumentedFormula", frel=fr, fabs=fa)
    gk = list(lrec["gok"]); gk[7] = False
    mut(lrec, "IcdfMatchesDocumentedFormula", gok=gk)
    gk = list(lrec["gok"]); gk[0] = False
    mut(lrec, "IcdfFarTailMatchesDocumentedFormula", gok=gk)
    if any(a and not b for a, b in zip(lrec["rtxin"], lrec["rtxtail"])):
        k = [a and not b for a, b in zip(lrec["rtxin"], lrec["rtxtail"])].index(True)
        rx = list(lrec["rtx"]); rx[k] = 200000
        mut(lrec, "RoundTripX", rtx=rx)
    rp = list(lrec["rtp"]); rp[7] = 200000
    mut(lrec, "RoundTripP", rtp=rp)
    rp = list(lrec["rtp"]); rp[1] = 200000
    mut(lrec, "RoundTripPFarTail", rtp=rp)
    if any(lrec["rtxtail"]):
        k = lrec["rtxtail"].index(True)
        rx = list(lrec["rtx"]); rx[k] = 200000
        mut(lrec, "RoundTripXFarTail", rtx=rx)
    if lrec["dslope"]:
        ds = list(lrec["dslope"]); ds[0] = int(ds[0] * 1.01) + 10
        mut(lrec, "PdfIsDerivative", dslope=ds)
    mut(lrec, "ArrayLikeKindsAgree", krel=500)
    mut(lrec, "PdfAtSupportBoundary", edgeok=False)
    fc = list(lrec["fcls"]); fc[k0] = 2
    mut(lrec, "FiniteValues", fcls=fc)
    failing = ctx.validate("Trace_C05", "Trace_C05.cfg", [m for m, _ in muts])
    ctx.traces -= len(muts) - len(failing)
    for m, clause in muts:
        if clause not in failing.get(m["id"], []):
            raise Machinery(f"self-test: corrupted record was not rejected by clause {clause} "
                            f"(got {failing.get(m['id'])})")
    ctx.notes["selftest_corrupted_records_rejected"] = len(muts)


def run(ctx):
    vc = import_virocon()
    D.check_distinct()
    from . import reference as R

    # the Fourier form of the von Mises cdf is the integral of the documented pdf
    chk = abs(R.cdf("VonMises", D.STORED["VonMises"], 1.0)
              - R.vonmises_cdf_by_quadrature(D.STORED["VonMises"], 1.0))
    if chk > 1e-20:
        raise Machinery(f"reference self-check failed: von Mises series vs quadrature differ by {chk}")

    ctx.rule = ("routing: TLC enumerates every (family, override subset E of the names, method in pdf/cdf/icdf/"
                "draw_sample, argument kind scalar/list/ndarray, pass kind keyword/positional); each is executed as "
                "Fam(S).method(x, E) vs Fam(Resolve).method(x) with pairwise distinct numbers; non-trivial = the "
                "override changes the result (E non-empty) or the specified outcome is an exception; the same for integer-typed "
                "explicit values (python int, numpy int64/int32, integer array; every single name and all names); history leg: all 3264 "
                "instances are constructed first, then every case is evaluated twice at different positions of two "
                "seeded shuffles and must equal its isolated evaluation bit for bit; plus every TLC-generated "
                "construct/evaluate history of up to 3 ScipyDistribution instances (4 operations), and every history of <= 4 "
                "steps of one object of every family with parameter attributes assigned directly between keyword-less "
                "evaluations (thorough: also fits). formula: TLC "
                "enumerates parameter classes (shape <1/=1/>1, scale 1e-3/1/1e3, location 0/+/-) per family "
                "(quick: orthogonal array, canonical numbers; thorough: all classes x 6 concretisations, 5 of them seeded random); each is tabulated on a grid over the "
                "support, its boundary (down to boundary + 1e-9 inter-quartile ranges), zero and negative x, probabilities "
                "from 1e-16 to 1 - 1e-12; plus TLC-enumerated extreme levels of one slot (shape 0.1 / 0.3 / 0.5 / 25, "
                "scale 1e-8 / 1e8), the underflow classes and the overflow classes (shape 60 .. 1000); every table of a family "
                "whose density carries a power t^e of t = (x - loc) / scale is also probed at t = 1.5 T .. T^2, T = 10^(308 / e), "
                "where the power exceeds the double range, every unbounded support 1e3 / 1e6 times beyond its 1 - 1e-12 "
                "quantile; non-trivial = table has derivative triples; distinct = "
                "distinct (family, class, parameter vector)")
    ctx.trusted = ["TLC 1.8 evaluating spec/ParamRoutingOps.tla, spec/DistLawsOps.tla clause operators",
                   "mpmath 1.3 (30 digits) closed forms of the documented formulas in harness/reference.py "
                   "(von Mises cdf as Fourier series of the documented pdf, cross-checked by quadrature)",
                   "scipy.special inverse functions only to PLACE grid points",
                   "harness/c05.py fixed-point projection (probabilities 1e-9, relative errors 1e-12)"]
    ctx.assumptions = ["von Mises: the law tables are restricted to one period [mu-pi, mu+pi] (the documented circular density "
                       "states no behaviour outside it; scipy continues the cdf periodically beyond [0, 1]: convention); four "
                       "fixed probes judge icdf(0) = mu - pi and icdf(1) = mu + pi (IcdfEndpoints, D99)",
                       "generalised gamma: (lambda x)^c as in Ochi (1992) is taken as the documented formula "
                       "(the docstring prints lambda x^c)",
                       "pdf derivative clause only at grid points with 0.01 <= F <= 0.99 and pdf*IQR <= 1000",
                       "draw_sample cases compare draws under the same seed (int seed / numpy Generator)"]
    # M
    ctx.model_check("ParamRouting", "MC_ParamRouting_override.cfg", must_cover=("NewDist", "CallExplicit"))
    ctx.model_check("ParamRouting", "MC_ParamRouting_override_mut.cfg", expect_violation="OverrideEqualsInstance")
    ctx.model_check("ParamRouting", "MC_ParamRouting_override_mut_int.cfg", expect_violation="OverrideEqualsInstance")
    ctx.model_check("ParamRouting", "MC_ParamRouting_override_mut_both.cfg",
                    expect_violation="OverrideOutcomeAsSpecified")
    ctx.model_check("ParamRoutingHist", ctx.pick("MC_ParamRoutingHist_quick.cfg", "MC_ParamRoutingHist_thorough.cfg"),
                    must_cover=("New", "EvalKw", "Fit"))
    ctx.model_check("ParamRoutingHist", "MC_ParamRoutingHist_mut_index.cfg",
                    expect_violation="InstancesShareNoState")
    ctx.model_check("ParamRoutingAttr", f"MC_ParamRoutingAttr_{ctx.tier}.cfg", must_cover=("Step",))
    ctx.model_check("ParamRoutingAttr", "MC_ParamRoutingAttr_mut.cfg", expect_violation="EvalReadsCurrentAttributes")
    ctx.model_check("DistLaws", ctx.pick("MC_DistLaws_quick.cfg", "MC_DistLaws_thorough.cfg"),
                    must_cover=("Tabulate", "Invert"))
    ctx.model_check("DistLaws", "MC_DistLaws_mut_cdf.cfg", expect_violation="MonotoneInv")
    ctx.model_check("DistLaws", "MC_DistLaws_mut_pdf.cfg", expect_violation="DerivativeExact")
    # R
    gen_o = ctx.generate("ParamRouting", "Gen_ParamRouting_override.cfg")
    ocases = [c for c in gen_o if c["special"] == "regular"]
    icases = [c for c in gen_o if c["special"] != "regular"]
    classes = ctx.generate("DistLawsGen", f"Gen_DistLaws_{ctx.tier}.cfg")
    lcases = law_cases(ctx, classes)
    hists = ctx.generate("ParamRoutingHist", "Gen_ParamRoutingHist.cfg")
    ahists = ctx.generate("ParamRoutingAttr", f"Gen_ParamRoutingAttr_{ctx.tier}.cfg")
    # V
    recs, lrecs, failing = judge(ctx, vc, ocases, lcases, hists=hists, icases=icases, ahists=ahists)
    ctx.notes["integer_override_cases"] = len(icases)
    ctx.notes["attribute_assignment_histories"] = len(ahists)
    ctx.notes["construct_evaluate_histories"] = len(hists)
    ok_o = next((r for r in recs if r["outcome"] == "ok" and r["same"] and r["id"] not in failing), None)
    good = [r for r in lrecs if r["id"] not in failing and r["dslope"] and any(r["rtxin"])]
    ok_l = next((r for r in good if any(s != 0 for s in r["side"])), None)
    if ok_o is not None and ok_l is not None:
        selftest(ctx, ok_o, ok_l)
    elif not ctx.violations:
        raise Machinery("no accepted record to run the self-test on")
    else:
        ctx.notes["selftest"] = "skipped: no accepted record of each kind (violations are reported)"
    ctx.sample({"case": ocases[len(ocases) // 3], "record": recs[len(ocases) // 3]})
    sl = lrecs[len(lrecs) // 2]
    ctx.sample({"case": lcases[len(lrecs) // 2],
                "record": {k: (v[:8] if isinstance(v, list) else v) for k, v in sl.items()}})
    ctx.exhaustive = False          # the routing product is complete, the formula half samples parameter classes
    ctx.notes["routing_product_exhaustive"] = True
    ctx.notes["override_cases"] = len(ocases)
    ctx.notes["law_tables"] = len(lcases)
    ctx.notes["law_grid_points"] = int(sum(r.get("npts", 0) for r in lrecs))
    ctx.notes["level_note"] = ("routing half: exhaustive (model_checking); formula half: exploration of "
                               "TLC-enumerated parameter classes, tables judged by TLC")


def replay(ctx, case):
    vc = import_virocon()
    c = case["case"]
    if c["kind"] == "override" and c.get("history"):
        # an order dependence needs the other instances: re-run the whole override leg
        judge(ctx, vc, [x for x in ctx.generate("ParamRouting", "Gen_ParamRouting_override.cfg")
                        if x["special"] == "regular"], [], summary=False)
    elif c["kind"] == "override":
        judge(ctx, vc, [c["case"]], [], summary=False)
    elif c["kind"] == "intoverride":
        judge(ctx, vc, [], [], summary=False, icases=[c["case"]])
    elif c["kind"] == "hist":
        judge(ctx, vc, [], [], summary=False, hists=[c["case"]])
    elif c["kind"] == "vmprobe":
        r = vmprobe_record(vc, 1, *c["case"])
        for clause in ctx.validate("Trace_C05", "Trace_C05.cfg", [r]).get(1, []):
            ctx.violation(clause, vmprobe_key(*c["case"]), r["seen"], replay=c)
    elif c["kind"] == "attrhist":
        judge(ctx, vc, [], [], summary=False, ahists=[c["case"]])
    else:
        judge(ctx, vc, [], [c["case"]], summary=False)
