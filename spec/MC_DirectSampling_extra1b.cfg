SPECIFICATION Spec
CONSTANTS Steps = {1,2,3,4,5,6,8,9,10,12,15,18,20,24,30,36,40,45,60}  Extras = {1}  CloseIdx = 0  Shift = 0
CHECK_DEADLOCK FALSE
INVARIANT FullCircleOnce
