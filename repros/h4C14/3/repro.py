"""C14: bounded (unconstrained) fit of the predefined shape a + b / (1 + c * x) with the
predefined bounds [(0, None), (0, None), (None, None)] ends at a pole of the shape
(1 + c * x_1 = 0 at the first support point) for data of magnitude 100 .. 1000; the
result is not a local optimum and far worse than a constant."""
import sys
import numpy as np
from virocon import DependenceFunction


def asymdecrease3(x, a, b, c):  # as in virocon.predefined.get_OMAE2020_Hs_Tz
    return a + b / (1 + c * x)


x = np.array([0.55143341, 1.07506997, 1.97943096, 2.16057808, 2.94837023,
              3.42149463, 3.56564094, 6.21952321, 6.42394862, 6.94394156,
              7.26773212, 10.01873601, 10.74795847, 11.37079187, 11.38881188,
              11.41746559, 12.82145447, 13.50719995, 14.64482094, 14.81132631])
y1 = np.array([1.22816207489, 1.2202639067, 1.10954893408, 1.14860680603,
               1.02577155725, 1.01503371738, 1.06235378795, 1.09066140667,
               1.00898642768, 1.04257121636, 1.00534952197, 1.12886925658,
               1.05366419793, 1.02504207297, 1.0293728285, 1.118522374,
               0.99254896431, 1.02104183007, 0.918980424, 0.99726772269])
bounds = [(0, None), (0, None), (None, None)]  # the predefined bounds

failed = False
for scale in (1.0, 100.0, 1000.0):
    y = scale * y1
    dep = DependenceFunction(asymdecrease3, bounds=bounds)
    dep.fit(x, y)  # no error
    p = np.array(list(dep.parameters.values()), dtype=float)

    def sse(q):
        return float(np.sum((asymdecrease3(x, *q) - y) ** 2))

    err = sse(p)
    q = p * np.array([1.01, 1.0, 1.0])  # a raised by 1 %: admissible (a >= 0)
    err_q = sse(q)
    # admissible reference: the scaled optimum of the scale-1 problem
    ref = np.array([0.99862347 * scale, 0.44072316 * scale, 1.4112609])
    print(f"scale {scale:g}: p = {p}, squared residual {err:.6g}; "
          f"a + 1 %: {err_q:.6g}; constant mean(y): {np.sum((y - y.mean())**2):.6g}; "
          f"reference {sse(ref):.6g}; min|1 + c x_i| = {np.min(np.abs(1 + p[2] * x)):.3g}")
    if err_q < err * (1 - 1e-4) and err > 10 * sse(ref):
        print("   VIOLATION: nearby admissible perturbation lowers the residual; "
              f"result is {err / sse(ref):.0f} times worse than an admissible reference")
        failed = True
sys.exit(1 if failed else 0)
