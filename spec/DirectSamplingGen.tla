-------------------------- MODULE DirectSamplingGen --------------------------
(* Leg R of C03: configuration cases for the driver.  TLC enumerates deg_step (all    *)
(* admissible divisors of 360), the sample class, the alpha class and the types of the *)
(* arguments / the container of the sample; the driver supplies the seeded data for    *)
(* the class and runs the real DirectSamplingContour.                                  *)
EXTENDS Integers, TLC, Json
CONSTANTS Steps
SampleClasses == {"model", "model_default_n", "stub_default_n", "gauss", "ties", "heavy", "ring",
                  "int64", "int32", "float32",          \* supplied sample that is not float64
                  "pareto02", "t025", "outlier"}        \* very heavy tails / one point at 1e15..1e17
AlphaClasses == {"tiny", "small", "mid", "large"}
(* The TYPE of the arguments is an input class as well (a NumPy scalar is not a Python     *)
(* scalar: 1 - np.float32(alpha) and 100 / np.float32(alpha) are single-precision           *)
(* operations), and so is the container of a supplied sample.                               *)
AlphaTypes == {"float", "float64", "float32"}        \* Python float, np.float64, np.float32
StepTypes == {"int", "float", "float32"}             \* Python int, Python float, np.float32
Containers == {"ndarray", "dataframe", "list"}       \* ndarray, pandas DataFrame, list of rows
Plain == [atype |-> "float", stype |-> "int", cont |-> "ndarray"]
(* base cases: every deg_step x sample class x alpha class with plain Python arguments       *)
Base == {[deg_step |-> s, cls |-> c, alpha |-> a, atype |-> Plain.atype, stype |-> Plain.stype, cont |-> Plain.cont] :
            s \in Steps, c \in SampleClasses, a \in AlphaClasses}
(* typed cases: every combination of argument types and containers that is not plain, for    *)
(* supplied samples of four classes and (no sample supplied: no container) for the two       *)
(* default-n classes.  deg_step = 0: the driver rotates through Steps.                       *)
TypedSupplied == {"model", "gauss", "ties", "heavy"}
TypedDefault == {"model_default_n", "stub_default_n"}
Typed == {t \in [deg_step : {0}, cls : TypedSupplied \cup TypedDefault, alpha : AlphaClasses,
                  atype : AlphaTypes, stype : StepTypes, cont : Containers] :
            /\ [atype |-> t.atype, stype |-> t.stype, cont |-> t.cont] # Plain
            /\ (t.cls \in TypedDefault => t.cont = "ndarray")}
VARIABLE g
Init == g \in Base \cup Typed
Next == UNCHANGED g
Spec == Init /\ [][Next]_g
Emit == PrintT(<<"BEH", ToJson(g)>>)
=============================================================================
