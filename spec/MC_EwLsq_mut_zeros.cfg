SPECIFICATION Spec
CONSTANTS MaxLen = 2  MaxV = 3  Wts = {1, 2}  CoSort = TRUE  ZerosFirst = TRUE  PosRule = "mid"  TieByWeight = TRUE  SharedPos = FALSE  StaleDelta = FALSE  StalePositions = FALSE  HistLen = 1
CHECK_DEADLOCK FALSE
INVARIANT PositionsAfterRanking
