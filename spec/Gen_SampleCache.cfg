SPECIFICATION Spec
CONSTANTS MaxOps = 4  Policy = "tagged"  EmitBeh = TRUE
CHECK_DEADLOCK FALSE
INVARIANT Emit
