SPECIFICATION Spec
CONSTANTS K = 5  W = 4  Perturb = 0
CHECK_DEADLOCK FALSE
INVARIANT MonotoneInv
INVARIANT Range01Inv
INVARIANT PdfNonNegInv
INVARIANT PdfZeroOutsideInv
INVARIANT DerivativeExact
INVARIANT DerivativeBetween
INVARIANT RoundTripPInv
INVARIANT RoundTripXInv
