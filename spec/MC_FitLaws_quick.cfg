SPECIFICATION Spec
CONSTANTS NSet = {100, 500, 5000}  CSet = {2, 5}  Kinds = {"default", "user", "far"}  Reps = {1}  SharedKw = FALSE  KFixAll = TRUE  Dev = "none"
CHECK_DEADLOCK FALSE
INVARIANT NoLikelihoodLoss
INVARIANT AtLeastGenerating
INVARIANT Admissible
INVARIANT ScaleEquivariant
INVARIANT HistoryIndependent
