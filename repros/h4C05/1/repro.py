"""VonMisesDistribution: cdf leaves [0, 1], pdf is not zero outside the support
[mu - pi, mu + pi], and icdf(0) / icdf(1) are infinite although the support is bounded,
so icdf(cdf(x)) != x at the boundary of the support."""
import sys
import numpy as np
from scipy.special import i0
from virocon.distributions import VonMisesDistribution

kappa, mu = 1.0, 4.0  # a mean direction of 229 degrees on [0, 2 pi); f_mu / mu outside
# [-pi, pi] is supported (see fix 50c69ff)
d = VonMisesDistribution(kappa=kappa, mu=mu)
lo, hi = mu - np.pi, mu + np.pi  # support of the distribution: one full circle around mu

bad = []

# (a) inside the support everything is fine (sanity check of the oracle)
x_in = np.linspace(lo, hi, 101)
c_in = d.cdf(x_in)
assert np.all(np.diff(c_in) >= 0) and abs(c_in[0]) < 1e-15 and abs(c_in[-1] - 1) < 1e-15
f_ref = np.exp(kappa * np.cos(x_in - mu)) / (2 * np.pi * i0(kappa))
assert np.allclose(d.pdf(x_in), f_ref, rtol=1e-13)

# (b) zero and negative x (explicitly in the quantifier) lie below the support:
#     a cdf has to be 0 there and the pdf 0.
for x in [0.0, -1.0, 0.5, [-3, 0]]:
    c = np.asarray(d.cdf(x), dtype=float)
    f = np.asarray(d.pdf(x), dtype=float)
    print(f"x={x}: cdf={c}, pdf={f}   (expected cdf=0, pdf=0: x < mu - pi = {lo:.4f})")
    if np.any(c < 0) or np.any(c > 1):
        bad.append(f"cdf({x}) = {c} is outside [0, 1]")
    if np.any(f != 0):
        bad.append(f"pdf({x}) = {f} is not zero outside the support")
# above the support
c = d.cdf(10.0)
print(f"x=10: cdf={c}   (expected 1: x > mu + pi = {hi:.4f})")
if c > 1:
    bad.append(f"cdf(10) = {c} > 1")

# (c) boundary of the support: cdf is exactly 0 / 1 there, but icdf maps 0 / 1 to -inf / +inf
c_lo, c_hi = d.cdf(lo), d.cdf(hi)
q0, q1 = d.icdf(c_lo), d.icdf(c_hi)
print(f"cdf(mu - pi) = {c_lo!r}, icdf of that = {q0}   (expected {lo})")
print(f"cdf(mu + pi) = {c_hi!r}, icdf of that = {q1}   (expected {hi})")
print("icdf(1e-300) =", d.icdf(1e-300), " icdf(0) =", d.icdf(0.0),
      " icdf(1 - 1e-16) =", d.icdf(1 - 1e-16), " icdf(1) =", d.icdf(1.0))
if c_lo == 0 and not np.isclose(q0, lo):
    bad.append(f"icdf(cdf(mu - pi)) = {q0} instead of {lo}")
if c_hi == 1 and not np.isclose(q1, hi):
    bad.append(f"icdf(cdf(mu + pi)) = {q1} instead of {hi}")
# the same with the default location
d0 = VonMisesDistribution(kappa=2.0)
if not np.isfinite(d0.icdf(0.0)) or not np.isfinite(d0.icdf(1.0)):
    bad.append(f"VonMisesDistribution(2).icdf([0, 1]) = {d0.icdf([0.0, 1.0])}, support is [-pi, pi]")

# (d) draw_sample uses a third convention: the draws are wrapped into [-pi, pi] whatever mu is,
#     so they follow neither cdf nor icdf. By cdf / icdf, P(X > pi) = 1 - cdf(pi) = 0.76 for mu = 4;
#     the probability that none of n draws exceeds pi is cdf(pi)**n.
n = 1000
sample = d.draw_sample(n, random_state=1)
p_none_above = float(d.cdf(np.pi)) ** n
print(f"draw_sample: range [{sample.min():.4f}, {sample.max():.4f}], icdf range [{lo:.4f}, {hi:.4f}]; "
      f"share of draws <= mu: {np.mean(sample <= mu):.3f} (cdf(mu) = {d.cdf(mu)}); "
      f"P[no draw > pi] = {p_none_above:.1e}")
assert p_none_above < 1e-12
if sample.max() <= np.pi:
    bad.append(f"all {n} draws lie in [-pi, pi]; cdf says P(X > pi) = {1 - d.cdf(np.pi):.3f}")

if bad:
    print("\nVIOLATIONS:")
    for b in bad:
        print(" -", b)
    sys.exit(1)
print("no violation")
