#!/usr/bin/env python3
"""tools/make_seed_round.py ROUND [CNN ...] - prepare scratch worktrees /tmp/seed<ROUND>-CNN of /repo HEAD with an
INSTRUCTIONS.txt for an independent sub-agent that gets ONLY the text of the property (nothing from /verif).
The results (out/<k>/patch.diff, demo.py, meta.json) are confirmed with `ROUND=<ROUND> tools/adopt_seed.sh CNN k`."""
import json
import os
import subprocess
import sys

rnd = sys.argv[1]
only = set(sys.argv[2:])
props = [json.loads(l) for l in open('/verif/properties.jsonl') if l.strip()]
for p in props:
    pid = p['id']
    if only and pid not in only:
        continue
    wt = f'/tmp/seed{rnd}-{pid}'
    subprocess.run(['git', '-C', '/repo', 'worktree', 'add', '-q', '--detach', wt, 'HEAD'], check=False)
    prompt = f"""You are given a git worktree of the Python library virocon (fits hierarchical joint distributions to metocean data and computes environmental contours) at {wt} (detached at the current HEAD). Run Python as /venv/bin/python with PYTHONPATH={wt} so that YOUR worktree is imported (verify: `cd /tmp && PYTHONPATH={wt} /venv/bin/python -W ignore -c "import virocon; print(virocon.__file__)"` must print a path under {wt}). Work ONLY inside {wt}. Do not read, list or touch /verif, /repo or any other directory (other than scratch files of your own under /tmp/seed{rnd}-{pid}-scratch and the Python environment).

A semantic property of the library that users rely on:

TITLE: {p['title']}
STATEMENT: {p['statement']}
QUANTIFIED OVER: {p['quantifier']['text']}

Your task: produce TWO independent, realistic changes to the library source under {wt}/virocon (not to tests, datasets or docs) - the kind of change a maintainer could make by mistake in a refactoring, optimisation, clean-up or well-meant bug fix - that each BREAK this property, while the package still imports and the existing test suite still passes exactly as before (`cd {wt} && /venv/bin/python -m pytest -q -p no:cacheprovider -n 4 --timeout=900` ; note that tests/test_workflows.py::test_v_hs_hd_contour already fails at baseline, everything else passes; run at least the test files that touch the code you change, and the full suite once per change - it takes 1-3 minutes).

The changes must be SUBTLE: each must need something specific to manifest and must be invisible in ordinary use. Pick two DIFFERENT kinds from this list: (a) a boundary or special value inside the stated domain (zero, negative, ties, a value exactly on an edge or within a few ulps of it, the extreme ends of the stated ranges, an unusual but admissible parameter region); (b) hidden state: something cached, memoised, shared between instances/classes/calls or left over from an earlier call, so that a SEQUENCE of legitimate operations (construct, evaluate, fit, re-fit, evaluate again; two objects used alternately; the wrapped/inner object modified directly) gives a wrong result while each operation alone on a fresh object is right; (c) a legitimate but rarely used option or argument combination (optional argument supplied vs omitted, non-default flag, keyword vs positional, array instead of keyword, higher dimension than the tests use, a parameter at another position); (d) loss of numerical precision or a tolerance introduced in an extreme but in-scope region; (e) two cooperating edits at different sites that each look correct alone; (f) the TYPE or container of an input (integer / float32 arrays, Python lists or tuples, pandas objects, 0-d or 1-element arrays, pathlib paths) or the ORDER of inputs (row order, declaration order, keyword order, order of calls); (g) an error path: an ill-formed input that used to be rejected is now computed, is rejected later than where it is supplied, or a valid input is newly rejected. Avoid changes whose effect is large for typical inputs. Look at the git log of the worktree first: many defects of exactly these kinds were repaired recently ("fix:" commits) - do not simply revert one of those commits; find something new.

For each change k in {{1, 2}} deliver in {wt}/out/<k>/ :
  patch.diff  - `git diff` of the library change only (must apply with `git apply` to a clean checkout of this HEAD),
  demo.py     - a small self-contained program that exits with a non-zero status (failed assert is fine) WITH the change applied and exits 0 WITHOUT it, when run as `cd /tmp && PYTHONPATH=<checkout> /venv/bin/python -W ignore demo.py`; it must not depend on the current directory or on files outside the checkout,
  meta.json   - {{"property": "{pid}", "summary": "...", "kind": "a|b|c|d|e|f|g", "needs_to_manifest": "...", "files_changed": [...], "tests_run": "...", "verified_fails_with_change": true, "verified_passes_without_change": true}}.
Verify both directions yourself before reporting. IMPORTANT: do NOT use `git stash` (the stash is shared with sibling worktrees of other people and entries get crossed). To test without your change use `git diff > /tmp/seed{rnd}-{pid}-scratch/mine.diff; git apply -R ...; ...; git apply ...`, or a second copy of the checkout made with `cp -r` into /tmp/seed{rnd}-{pid}-scratch. At the end restore the worktree (`git checkout -- .`) so that only the untracked out/ directory (and INSTRUCTIONS.txt) remains, and delete /tmp/seed{rnd}-{pid}-scratch. Final answer: a short summary of the two changes and what each needs in order to manifest."""
    open(f'{wt}/INSTRUCTIONS.txt', 'w').write(prompt)
    os.makedirs(f'/tmp/seed{rnd}-{pid}-scratch', exist_ok=True)
    print(wt)
