------------------------------ MODULE AndOrOps ------------------------------
(* Operators for the AND / OR exceedance contour search (virocon.contours.AndContour,   *)
(* OrContour).  Exceedance is an integer count out of n sample points - the points that  *)
(* STRICTLY exceed the searched point (x_i > vx and / or y_i > vy; an observation equal to *)
(* a coordinate of the point does not exceed it); alpha = a/b and                          *)
(* allowed_error = en/ed are rationals, so the tolerance test is exact integer           *)
(* arithmetic:  |count/n - a/b| / (a/b) <= en/ed   <=>   |count*b - a*n| * ed <= en*a*n. *)
EXTENDS Integers, Sequences, FiniteSets, Fix

Excess(count, n, a, b) == Abs(count * b - a * n)
Budget(n, a, en, ed) == (en * a * n) \div ed          \* floor: exact for integer left sides
Rem(n, a, en, ed) == (en * a * n) % ed

StrictlyWithin(count, n, a, b, en, ed) ==
    Excess(count, n, a, b) < Budget(n, a, en, ed)
    \/ (Excess(count, n, a, b) = Budget(n, a, en, ed) /\ Rem(n, a, en, ed) # 0)
OnBoundary(count, n, a, b, en, ed) ==
    Excess(count, n, a, b) = Budget(n, a, en, ed) /\ Rem(n, a, en, ed) = 0
InTol(count, n, a, b, en, ed) ==
    StrictlyWithin(count, n, a, b, en, ed) \/ OnBoundary(count, n, a, b, en, ed)

Above(count, n, a, b) == count * b > a * n            \* current_pe > alpha

(* closing sequences, points are <<x, y>> pairs (any integer scale) *)
AndClosure(pts) == Len(pts) >= 1 /\ pts[Len(pts)] = <<0, 0>>
OrClosure(pts) ==
    /\ Len(pts) >= 4
    /\ LET m == Len(pts) IN
         /\ pts[m - 2] = <<0, pts[m - 3][2]>>
         /\ pts[m - 1] = <<0, 0>>
         /\ pts[m] = <<pts[1][1], 0>>
=============================================================================
