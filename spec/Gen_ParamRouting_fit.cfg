SPECIFICATION Spec
CONSTANTS Scen = "fit"  NGiven = 2  MutKind = "none"  MutFam = "none"  MutName = "none"
CHECK_DEADLOCK FALSE
INVARIANT Emit
