------------------------------ MODULE PurityOps ------------------------------
(* Ownership / mutation rules for C19 (shared by the state machine Purity.tla and the    *)
(* trace specification Trace_C19.tla).                                                   *)
(*                                                                                      *)
(* Every mutable object reachable from a model has a ROLE:                               *)
(*   "template"  the distribution object handed in as template of a conditional          *)
(*               dimension (ConditionalDistribution.distribution)                        *)
(*   "fitted"    everything fitting may write: unconditional distributions,              *)
(*               ConditionalDistribution state, dependence functions, per-interval copies *)
(*   "config"    interval slicers, the model's own lists - never written                 *)
(*   "input"     arrays owned by the caller (data, samples, evaluation points)           *)
(* An operation is "new" (a predefined getter + model construction), "fit" or an          *)
(* evaluation (anything else).                                                           *)
EXTENDS Naturals, Sequences, FiniteSets

IsEval(op) == op \notin {"new", "fit"}

(* roles that an operation on model m may change among the objects reachable from m *)
MayChange(op, role) == op = "fit" /\ role = "fitted"
=============================================================================
