SPECIFICATION Spec
CONSTANTS Decimals = 6  NoClose = FALSE  AlwaysTxt = TRUE
CHECK_DEADLOCK FALSE
INVARIANT PathRule
