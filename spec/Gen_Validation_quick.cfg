SPECIFICATION Spec
CONSTANTS BaseSet = {1,2,3,4,5,6,7,8,9}  PairBaseSet = {1,3,5}  HierarchyCheck = TRUE  Shortcut = "none"
CHECK_DEADLOCK FALSE
INVARIANT Emit
