----------------------------- MODULE Trace_C02 -----------------------------
(* Trace validation for C02.  One record = one real HighestDensityContour:               *)
(*   shape     grid shape (cells per axis), cells numbered 1..N in C order               *)
(*   aq        alpha * 10^18 (alpha is a decimal literal, so this is an integer), 2 limbs *)
(*   limq      the limit the code passed to cumsum_biggest_until (float 1 - alpha), 2 limbs *)
(*   Ph, Pl    the array of cell probabilities the code selected from (captured at the   *)
(*             call of cumsum_biggest_until), exact float value * 10^18 rounded, 2 limbs  *)
(*   Fh, Fl    the reference cell probabilities prod_i (F_i(x_i + d_i/2) - F_i(x_i - d_i/2)) *)
(*             computed by the harness with explicit loops from the model's distributions *)
(*   R         the 0/1 mask returned by cumsum_biggest_until (all 1 is not recorded for   *)
(*             warned contours: the call raised, R = <<>>)                                *)
(*   lastq     the "last summed" value returned with the mask, 2 limbs                    *)
(*   fmq       contour.fm * prod(deltas) (exact rational arithmetic, rounded), 2 limbs    *)
(*   fr        per cell the rank of f[c] among the distinct densities (0 = smallest)          *)
(*   cmp       per cell sign(f - fm) with f = contour.cell_averaged_joint_pdf(centres)       *)
(*   gridok    cell_center_coordinates are min + k * delta (float64, from the reported limits   *)
(*             and cell sizes) within 10^-12 relative + 10^-9 delta, and end at max; the         *)
(*             reference Fh, Fl is computed on that declared grid                                *)
(*   warned    the constructor emitted the RuntimeWarning "could not be reached"          *)
(*                                                                                      *)
(* Tolerances (units of 10^-18):                                                         *)
(*   Slack = 200 * N for Content / Tight / WarnIff: the code decides on a float cumsum   *)
(*     of up to N terms (sequential additions, error <= N * 2^-53 * sum <= 111 * N units) *)
(*     compared with the float 1 - alpha (error 111 units), and each recorded term is     *)
(*     rounded by at most 1/2 unit; 200 * N covers the three.                             *)
(*   Order clauses (Densest, Threshold): none - the projection is monotone.              *)
(*   FmIsDensity / Sandwich: fm = last / d1 / .. / dn, then * prod(d) exactly: relative  *)
(*     error <= n * 2^-53 < 10^-12; tolerance 2 units + value / 10^12.                    *)
(*   CellProbIsCdfDifference: the code evaluates F at x -+ 0.5 * (x[1] - x[0]) and the    *)
(*     reference at x -+ d/2: arguments that differ by about one ulp of x.  For F near 1  *)
(*     each value carries the rounding 2^-53 and, for scipy's von Mises cdf (series /     *)
(*     normal approximation), an implementation jitter that was measured at 2.2 * 10^-15  *)
(*     for a one-ulp change of the argument (first setting of this tolerance, 2 * 10^-15, *)
(*     rejected a correct tail cell of probability 1.9 * 10^-8 by 0.2 * 10^-15 - the      *)
(*     clause was over-strict, not the code wrong); the legitimate change pdf * ulp(x) is *)
(*     relative 10^-13 of the cell.  A factor is a difference of two such values, the     *)
(*     other factors are <= 1 (a few units for von Mises axes spanning several periods):  *)
(*     absolute tolerance 50 000 units (5 * 10^-14) + Pref / 10^9.  A wrong cell width, a *)
(*     transposed axis or a shifted grid changes cells by factors, not by 10^-9.          *)
EXTENDS HDCOps, Json, IOUtils

TraceLog == ndJsonDeserialize(IOEnv.TRACE_FILE)
VARIABLE l

NC(r) == NCells(r.shape)
ShapeOk(r) ==
    /\ Len(r.Ph) = NC(r) /\ Len(r.Pl) = NC(r) /\ Len(r.Fh) = NC(r) /\ Len(r.Fl) = NC(r)
    /\ (r.warned \/ Len(r.R) = NC(r) \/ Len(r.R) = 0)

Lq(r) == L2Sub(L2One, r.aq)                        \* 1 - alpha
Slack(r) == L2Small(200 * NC(r))
Pc(r, c) == <<r.Ph[c], r.Pl[c]>>
Fc(r, c) == <<r.Fh[c], r.Fl[c]>>

Judge(r) ==
  LET n      == NC(r)
      lim    == Lq(r)
      slack  == Slack(r)
      tot    == L2SumWhere(r.Ph, r.Pl, LAMBDA c : TRUE)
      cdfok  == AllWhere(r.Ph, LAMBDA c :
                   L2Le(L2AbsDiff(Pc(r, c), Fc(r, c)), L2Add(<<0, 50000>>, L2Div9(Fc(r, c)))))
      limok  == L2Le(L2AbsDiff(r.limq, lim), <<0, 250>>)
      (* warned <=> Total < L, either verdict accepted inside the slack band *)
      warnok == /\ (r.warned => L2Lt(tot, L2Add(lim, slack)))
                /\ (~r.warned => L2Le(lim, L2AddSat(tot, slack)))
      (* the same statements on the documented cell probabilities themselves (the reference   *)
      (* CDF differences Fh, Fl).  Slack: the float cumsum (200 N units) + the tolerance of     *)
      (* CellProbIsCdfDifference summed over the grid (50 000 N units + total / 10^9)           *)
      (* <= (N div 10 000 + 2) * 10^-9.  A cell width or grid spacing that is off by 10^-6      *)
      (* relative moves the content by 10^-6 - at alpha = 10^-6 that is the whole margin.       *)
      slackF == <<(n \div 10000) + 2, 0>>
      totF   == L2SumWhere(r.Fh, r.Fl, LAMBDA c : TRUE)
      warnF  == /\ (r.warned => L2Lt(totF, L2Add(lim, slackF)))
                /\ (~r.warned => L2Le(lim, L2AddSat(totF, slackF)))
  IN IF r.warned \/ Len(r.R) = 0
     (* no mask was returned by the selection: it signalled "limit not reachable".  Then the  *)
     (* user must have been warned (and the total must indeed be below 1 - alpha).            *)
     THEN << <<"WarnIff", warnok>>, <<"WarnIffOfCdfDifferences", warnF>>, <<"WarnedWhenNoRegion", r.warned>>,
             <<"LimitIsOneMinusAlpha", limok>>, <<"CellProbIsCdfDifference", cdfok>> >>
     ELSE
       LET sumR   == L2SumWhere(r.Ph, r.Pl, LAMBDA c : r.R[c] = 1)
           nIn    == CountWhere(r.R, LAMBDA c : r.R[c] = 1)
           maxOut == L2MaxWhere(r.Ph, r.Pl, LAMBDA c : r.R[c] = 0)
           minIn  == L2MinWhere(r.Ph, r.Pl, LAMBDA c : r.R[c] = 1)
           ftol   == <<0, 2 + (r.fmq[1] \div 1000)>>
       IN <<
         <<"RegionNonEmpty", nIn > 0>>,
         <<"Content", L2Le(sumR, L2Add(lim, slack))>>,
         <<"Tight", nIn < n => L2Lt(lim, L2Add(L2AddSat(sumR, maxOut), slack))>>,
         <<"Densest", (nIn < n /\ nIn > 0) => L2Le(maxOut, minIn)>>,
         <<"Threshold", nIn > 0 => r.lastq = minIn>>,
         <<"FmIsDensity", nIn > 0 => L2Le(L2AbsDiff(r.fmq, minIn), ftol)>>,
         (* EXACT: cmp[c] = sign(f[c] - fm) for f = contour.cell_averaged_joint_pdf(centres), a *)
         (* float order comparison.  fm is the density of an enclosed cell, no enclosed cell is *)
         (* less dense, every denser cell is enclosed - so that f >= fm reproduces the region   *)
         (* (up to cells tied exactly with fm, which may lie on either side).                   *)
         (* no excluded cell is strictly denser than an enclosed one, judged on the DENSITIES:   *)
         (* fr[c] = rank of f[c] among the distinct values of f = cell_averaged_joint_pdf(..)   *)
         (* (an exact order embedding).  The probabilities f * d1 * .. * dn of densities a few  *)
         (* ulps apart can coincide, so the order of P does not decide this.                    *)
         <<"DensityOrder",
             /\ Len(r.fr) = n
             /\ (nIn > 0 /\ nIn < n) =>
                  FoldLeftDomain(LAMBDA acc, c : IF r.R[c] = 0 /\ r.fr[c] > acc THEN r.fr[c] ELSE acc, -1, r.fr)
                  <= FoldLeftDomain(LAMBDA acc, c : IF r.R[c] = 1 /\ r.fr[c] < acc THEN r.fr[c] ELSE acc,
                                    2147483647, r.fr)>>,
         <<"FmIsLeastEnclosedDensity",
             /\ Len(r.cmp) = n
             /\ AllWhere(r.R, LAMBDA c : /\ (r.cmp[c] > 0 => r.R[c] = 1)
                                         /\ (r.R[c] = 1 => r.cmp[c] >= 0))
             /\ CountWhere(r.R, LAMBDA c : r.R[c] = 1 /\ r.cmp[c] = 0) >= 1>>,
         (* the enclosed region is "the cells whose density is at least fm" *)
         <<"Sandwich", AllWhere(r.R, LAMBDA c :
               /\ (L2Lt(L2Add(r.fmq, ftol), Pc(r, c)) => r.R[c] = 1)
               /\ (r.R[c] = 1 => L2Le(r.fmq, L2Add(Pc(r, c), ftol))))>>,
         <<"WarnIff", warnok>>,
         <<"WarnIffOfCdfDifferences", warnF>>,
         <<"ContentOfCdfDifferences",
             L2Le(L2SumWhere(r.Fh, r.Fl, LAMBDA c : r.R[c] = 1), L2Add(lim, slackF))>>,
         <<"TightOfCdfDifferences",
             nIn < n => L2Lt(lim, L2Add(L2AddSat(L2SumWhere(r.Fh, r.Fl, LAMBDA c : r.R[c] = 1),
                                                  L2MaxWhere(r.Fh, r.Fl, LAMBDA c : r.R[c] = 0)), slackF))>>,
         <<"LimitIsOneMinusAlpha", limok>>,
         <<"CellProbIsCdfDifference", cdfok>>
       >>

(* kind = "sel": a direct call of the staticmethod cumsum_biggest_until on an array of    *)
(* dyadic floats P/16 with limit L/16 (all sums exact), the domain of MC_HDC_sel_*.cfg     *)
(* enumerated by TLC (HDCGen!SpecSel).  P, L, last are the integers (x16); R the returned  *)
(* mask, warned = a RuntimeWarning was emitted, empty = IndexError was raised.  The        *)
(* K = 2 * key * 16 when the call passed key (cells ordered by key, P only accumulated).   *)
(* clauses are the invariants of HDC.tla on exact integers, plus conformance with the      *)
(* Sort / Accumulate / Select steps of the state machine.                                  *)
JudgeSel(r) ==
  LET n    == Len(r.P)
      all  == 1..n
      ord  == DescOrder(r.K)          \* K = the key (= P when the call had no key)
      cum  == PrefixSums(r.P, ord, n)
      K    == {k \in all : cum[k] <= r.L}
      Rset == Cells(r.R)
      out  == all \ Rset
  IN IF K = {} \/ r.empty
     THEN << <<"EmptyAsModelled", r.empty <=> K = {}>> >>      \* IndexError: behaviour, nothing claimed
     ELSE <<
       <<"ArrayShape", Len(r.R) = n /\ r.lastexact>>,
       <<"Content", SumOver(r.P, Rset) <= r.L>>,
       <<"Tight", out # {} => r.L - SumOver(r.P, Rset) < MaxOver(r.P, out)>>,
       <<"Densest", \A a \in Rset : \A b \in out : r.P[a] >= r.P[b]>>,
       <<"DensityOrder", \A a \in Rset : \A b \in out : r.K[a] >= r.K[b]>>,
       <<"Threshold", Rset # {} /\ r.last = MinOver(r.P, Rset)>>,
       <<"Sandwich", /\ {c \in all : r.P[c] > r.last} \subseteq Rset
                     /\ Rset \subseteq {c \in all : r.P[c] >= r.last}>>,
       <<"WarnIff", r.warned <=> cum[n] < r.L>>,
       <<"SelectionAsModelled", Rset = {ord[k] : k \in K} /\ r.last = r.P[ord[SetMax(K)]]>>
     >>

(* freshsame: for a contour computed on a model object with a history (an earlier contour,  *)
(* then an in-place change of the model) - cell probabilities, region, fm, warning and      *)
(* coordinates are bitwise those of a freshly constructed model with the current            *)
(* parameters (TRUE for contours without history).  HDCCache.tla: UsesCurrentModel.         *)
Clauses(r) ==
  IF r.exc # "" THEN << <<"UnexpectedException", FALSE>> >>
  ELSE IF r.kind = "sel" THEN JudgeSel(r)
  ELSE IF ~r.freshsame /\ ~ShapeOk(r) THEN << <<"EqualsFreshModel", FALSE>> >>
  ELSE IF ~ShapeOk(r) THEN << <<"ArrayShape", FALSE>> >>
  ELSE IF r.calls # 1 THEN << <<"OneSelection", FALSE>> >>
  ELSE Judge(r) \o << <<"EqualsFreshModel", r.freshsame>>, <<"GridIsDeclared", r.gridok>> >>

Verdict(r) == Failing(Clauses(r))

Init == l = 1
Next == /\ l <= Len(TraceLog)
        /\ LET r == TraceLog[l] v == Verdict(r) IN
             IF v = <<>> THEN TRUE ELSE PrintT(<<"VERDICT", r.id, v>>)
        /\ l' = l + 1
Spec == Init /\ [][Next]_l
Consumed == l = Len(TraceLog) + 1 => PrintT(<<"CONSUMED", l - 1>>)
=============================================================================
