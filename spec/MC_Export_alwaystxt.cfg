SPECIFICATION Spec
CONSTANTS Decimals = 6  NoClose = FALSE  AlwaysTxt = TRUE  RawHeader = FALSE
CHECK_DEADLOCK FALSE
INVARIANT PathRule
