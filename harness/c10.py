"""C10 - interval slicing partitions the data.

M: TLC explores the slicing state machine (spec/Slicing.tla) for all small vectors.
V: the same lattice domain is enumerated here, executed on the real slicers, projected
   to lattice integers and judged clause by clause by TLC (spec/Trace_C10.tla).
"""
import itertools
import warnings
from decimal import Decimal
from fractions import Fraction

import numpy as np

from .common import Machinery, import_virocon

LEVEL = "model_checking"

UNITS = ["1", "0.5", "0.1", "0.3", "0.7"]  # float widths / lattice units as decimal literals
DYADIC = {"1", "0.5", "0.25", "2"}


def dec_float(k, unit, div=1):
    """the float a user would write for k*unit/div (decimal literal, then parsed)"""
    return float(Decimal(k) * Decimal(unit) / Decimal(div))


def proj_q(x, unitf):
    """value -> quarter lattice units; returns (int, onlattice)"""
    if x != x:
        return -1, True
    v = 4.0 * x / unitf
    if v in (float("inf"), float("-inf")):      # an overflowed boundary: off the lattice, clamped
        return (2**30 if v > 0 else -(2**30)), False
    r = round(v)
    return int(r), abs(v - r) <= 1e-6 * max(1.0, abs(v))


def masks_of(slices):
    return [[int(b) for b in np.asarray(m).astype(int).tolist()] for m in slices]


def _bounds_bits(data, slices, bounds, eps, ends="closed"):
    """exact float comparisons (eps = 0): 'reported boundaries contain their interval's members'
    with the documented open / closed ends, 'do not overlap' as hi_i <= lo_(i+1).
    ends: 'ropen' [lo, hi), 'lopen' (lo, hi], 'closed' [lo, hi]; the last interval of an
    include_max slicer is closed (ends = 'ropen+last')."""
    contain = True
    nb = len(bounds)
    for t, (m, (lo, hi)) in enumerate(zip(slices, bounds)):
        mem = data[np.asarray(m, dtype=bool)]
        if not mem.size:
            continue
        if ends == "ropen" or (ends == "ropen+last" and t < nb - 1):
            ok = np.all(mem >= lo) and np.all(mem < hi)
        elif ends == "lopen":
            ok = np.all(mem > lo) and np.all(mem <= hi)
        else:
            ok = np.all(mem >= lo) and np.all(mem <= hi)
        contain = contain and bool(ok)
    disjoint = all(bounds[i][1] <= bounds[i + 1][0] for i in range(len(bounds) - 1))
    return contain, disjoint


def make_record(vc, rid, case):
    """Run one case on the real code and project it.  case is a plain dict (replayable)."""
    kind = case["kind"]
    ks = case["data"]
    unit = case["unit"]
    rec = dict(id=rid, kind=kind, exc="", ropen=True, incmax=True, n=1, lastfull=True,
               exact=False, upw=2, lo=0, hi=0, refkind="center")
    refopt = case["ref"]
    ref = np.median if refopt == "median" else refopt
    rec["refkind"] = refopt
    minpts, minint = case["minpts"], case["minint"]
    if kind == "width":
        w = float(Decimal(unit))
        unitf = w / 2.0
        vr = case["vrange"]  # None or (lo_k or None, hi_k or None) in lattice units
        woff = case.get("offset", 0) if (vr is not None and None not in vr) else 0   # float lattice shifted by woff units
        data = np.array([dec_float(k + woff, unit, 2) for k in ks])
        vrf = None if vr is None else tuple(None if a is None else dec_float(a + woff, unit, 2) for a in vr)
        shift = 4 * woff
        wpass = w
        if case.get("vrtype") and vrf is not None:
            # limits handed over as narrow numpy scalars (value_range=(0, data.max()) of narrow-typed data, D92)
            vrf = tuple(None if a is None else np.dtype(case["vrtype"]).type(a) for a in vrf)
        if case.get("wtype"):
            wpass = np.dtype(case["wtype"]).type(w)
        rec.update(ropen=case["ropen"], upw=2, exact=unit in DYADIC,
                   lo=(vr[0] if vr and vr[0] is not None else 0),
                   hi=(vr[1] if vr and vr[1] is not None else max(ks)), data=list(ks))
        mk = lambda **kw: vc.WidthOfIntervalSlicer(wpass, reference=ref, right_open=case["ropen"],
                                                   value_range=vrf, **kw)
        eps = 1e-9 * w
    elif kind == "number":
        n = case["n"]
        unitf = float(Decimal(unit)) / n
        off = case.get("offset", 0)
        data = np.array([dec_float(k + off, unit) for k in ks])
        vr = case["vrange"]
        vrf = None if vr is None else tuple(dec_float(a + off, unit) for a in vr)
        lo_k, hi_k = (min(ks), max(ks)) if vr is None else vr
        rec.update(incmax=case["incmax"], n=n, upw=hi_k - lo_k, lo=n * lo_k, hi=n * hi_k,
                   exact=(unit in DYADIC and n in (1, 2, 4)), data=[n * k for k in ks])
        mk = lambda **kw: vc.NumberOfIntervalsSlicer(n, reference=ref, include_max=case["incmax"],
                                                     value_range=vrf, **kw)
        eps = 1e-9 * max(float(Decimal(unit)), 1e-12)
        # the lattice is shifted by `off` units: shift projections back
        shift = off * n * 4
    else:
        n = case["n"]
        unitf = float(Decimal(unit))
        data = np.array([dec_float(k, unit) for k in ks])
        rec.update(n=n, lastfull=case["lastfull"], data=list(ks), refkind="median")
        mk = lambda **kw: vc.PointsPerIntervalSlicer(n, last_full=case["lastfull"], **kw)
        eps = 1e-9 * unitf
    shift = shift if kind in ("number", "width") else 0
    if case.get("dtype"):
        # integer-valued data handed over in a (narrow) integer type
        if not np.array_equal(data, np.round(data)):
            raise Machinery("dtype case with non-integer data")
        data = data.astype(case["dtype"])
    data0 = data.copy()
    if case.get("reuse"):
        # history: ONE slicer object first slices another vector (different range), then this one
        mk0 = mk
        cache = {}

        def mk(**kw):   # noqa: F811
            key = tuple(sorted(kw.items()))
            if key not in cache:
                obj = mk0(**kw)
                decoy = np.concatenate([data * 0.5 + 3.0 * unitf, data[:1] + 40.0 * unitf]) if kind != "points" else np.concatenate([data, data + unitf])
                try:
                    with warnings.catch_warnings():
                        warnings.simplefilter("ignore")
                        obj.slice_(decoy)
                except Exception:  # noqa
                    pass
                cache[key] = obj
            return cache[key]
    with warnings.catch_warnings():
        warnings.simplefilter("ignore")
        try:
            sl, refs, bnds = mk(min_n_points=0, min_n_intervals=0).slice_(data)
        except Exception as e:  # noqa
            rec.update(exc=type(e).__name__, raw=[], refsq=[], loq=[], hiq=[], onlat=True, refedge=True,
                       contain=True, disjoint=True, minpts=minpts, minint=minint, kept=[],
                       keptrefs=[], raised=False)
            return rec
        onlat = True
        refsq, loq, hiq = [], [], []
        for r_, (blo, bhi) in zip(refs, bnds):
            for val, dst in ((r_, refsq), (blo, loq), (bhi, hiq)):
                q, ok = proj_q(float(val), unitf)
                onlat = onlat and ok
                dst.append(q - shift if q != -1 or val == val else -1)
        ends = {"width": ("ropen" if rec["ropen"] else "lopen"),
                "number": ("ropen+last" if rec["incmax"] else "ropen"), "points": "closed"}[kind]
        contain, disjoint = _bounds_bits(np.asarray(data, dtype=float), sl, bnds, eps, ends)
        # 'left' / 'right' references are (bitwise) the reported edges of their interval
        refedge = True
        if rec["refkind"] in ("left", "right") and kind in ("width", "number"):
            j = 0 if rec["refkind"] == "left" else 1
            refedge = all(float(r_) == float(b_[j]) for r_, b_ in zip(refs, bnds))
        rec.update(raw=masks_of(sl), refsq=refsq, loq=loq, hiq=hiq, onlat=bool(onlat),
                   contain=bool(contain), disjoint=bool(disjoint), refedge=bool(refedge))
        # configured call
        eff_minpts, eff_minint = minpts, minint
        if kind == "points" and n < minpts:
            eff_minpts = n
        if kind == "number" and n < minint:
            eff_minint = n
        rec.update(minpts=eff_minpts, minint=eff_minint)
        try:
            sl2, refs2, _ = mk(min_n_points=minpts, min_n_intervals=minint).slice_(data)
            keptrefs = []
            for r_ in refs2:
                q, ok = proj_q(float(r_), unitf)
                keptrefs.append(q - shift)
            rec.update(kept=masks_of(sl2), keptrefs=keptrefs, raised=False)
        except RuntimeError:
            rec.update(kept=[], keptrefs=[], raised=True)
        except Exception as e:  # noqa
            # PointsPerIntervalSlicer indexes interval_slices[0] before the check in slice_
            if kind == "points" and isinstance(e, IndexError):
                rec.update(kept=[], keptrefs=[], raised=True, exc="")
            else:
                rec.update(kept=[], keptrefs=[], raised=False, exc=type(e).__name__)
    if not np.array_equal(data, data0):
        rec["exc"] = "InputMutated"
    return rec


def cases(ctx):
    """The enumerated domain."""
    if ctx.quick:
        maxlen, maxv = 3, 5
        extra_len4 = 60
    else:
        maxlen, maxv = 4, 6
        extra_len4 = 0
    vecs = []
    for L in range(1, maxlen + 1):
        vecs.extend(itertools.product(range(maxv + 1), repeat=L))
    rng = np.random.default_rng(ctx.seed)
    if extra_len4:
        for _ in range(extra_len4):
            vecs.append(tuple(int(x) for x in rng.integers(0, maxv + 1, size=4)))
    if not ctx.quick:  # all vectors of length 5 over a 4-point lattice
        vecs.extend(itertools.product(range(4), repeat=5))
    refs = ["center", "left", "right", "median"]
    mm = [(1, 1), (2, 1), (2, 3), (1, 3), (3, 2)]
    ci = ctx.seed
    for v in vecs:
        # width slicer: data in half-width units
        for unit in UNITS:
            for ropen in (True, False):
                # (maxv + 3, None): a lower range limit at least one width above every observation - no interval
                # is generated at all (D34: that raised IndexError instead of the RuntimeError for too few intervals)
                for vr in (None, (1, None), (0, 4), (0, 2)) + (((maxv + 3, None),) if ropen else ()):
                    ci += 1
                    # offset -hi with the range (0, hi): the float range is (-hi*w/2, 0): an upper limit of exactly 0
                    yield dict(kind="width", data=list(v), unit=unit, ropen=ropen, vrange=vr,
                               offset=(-vr[1] if (vr and vr[1] and (vr[1] == 2 or ci % 2)) else 0),
                               reuse=(ci % 3 == 0), ref=refs[ci % 4], minpts=mm[ci % 5][0], minint=mm[ci % 5][1])
        # number slicer
        for n in (1, 2, 3):
            for incmax in (True, False):
                for vr in (None, (1, 4)):
                    for unit in (UNITS if not ctx.quick else [UNITS[(ci + n) % 5], UNITS[(ci + n + 2) % 5]]):
                        ci += 1
                        yield dict(kind="number", data=list(v), unit=unit, n=n, incmax=incmax,
                                   vrange=vr, offset=[0, 1, 2, -4][ci % 4], reuse=(ci % 3 == 0), ref=refs[ci % 4],
                                   minpts=mm[ci % 5][0], minint=mm[ci % 5][1])
        # points slicer
        for n in (1, 2, 3):
            if n > len(v):
                continue
            for lastfull in (True, False):
                ci += 1
                yield dict(kind="points", data=list(v), unit=UNITS[ci % 5], n=n, lastfull=lastfull, reuse=(ci % 3 == 0),
                           ref="median", minpts=mm[ci % 5][0], minint=mm[ci % 5][1])


def edge_maximum_cases(ctx):
    """The maximum (and a few other observations) exactly on the m-th interval edge, for every m up to 60 and decimal
    widths: whether float round-off in the number of intervals loses the interval that holds the maximum depends on
    the particular multiple (0.6, 3.4, 3.9 for width 0.1; 1.2 for 0.2; ...), far beyond the exhaustive lattice."""
    halves = ["0.05", "0.1", "0.15", "0.3", "0.35", "0.7", "0.025", "0.2", "0.45"]   # width = 2 * unit
    mm = [(1, 1), (1, 2)]
    ci = ctx.seed
    for unit in halves:
        for m in range(1, ctx.pick(45, 70)):
            for extra in ((), (0,), (2 * m - 1, 2 * (m // 2))):
                for ropen in (True, False):
                    ci += 1
                    yield dict(kind="width", data=list(extra) + [2 * m], unit=unit, ropen=ropen, vrange=None, offset=0,
                               reuse=False, ref=["center", "left", "right", "median"][ci % 4],
                               minpts=mm[ci % 2][0], minint=mm[ci % 2][1])


def narrow_int_cases(ctx):
    """Integer-valued data in narrow integer types whose maximum lies near the type's limit: max + width and the mean of
    two neighbouring values must not be computed in that type (D71)."""
    rng = np.random.default_rng(ctx.seed + 171)
    refs = ["center", "left", "right", "median"]
    for t in range(ctx.pick(12, 60)):
        dtype, top = [("int8", 126), ("uint8", 252), ("int8", 127), ("uint8", 255)][t % 4]
        L = int(rng.integers(12, 50))
        ks = [int(k) for k in rng.integers(0, top + 1, size=L)]
        ks[0] = top if t % 2 == 0 else top - 1       # the maximum at (next to) the limit of the type
        yield dict(kind="width", data=ks, unit="2", ropen=bool(t % 2), vrange=None, offset=0, reuse=False, ref=refs[t % 4],
                   minpts=1, minint=1, dtype=dtype)
        lo = {"int8": 60, "uint8": 130}[dtype]
        ks2 = [int(k) for k in rng.integers(lo, top + 1, size=L)]
        yield dict(kind="points", data=ks2, unit="1", n=max(1, L // 4), lastfull=bool(t % 2), reuse=False, ref="median",
                   minpts=1, minint=1, dtype=dtype)
        ks3 = [int(k) for k in rng.integers(17000, 32768, size=L)]
        yield dict(kind="points", data=ks3, unit="1", n=max(1, L // 3), lastfull=bool(t % 2), reuse=False, ref="median",
                   minpts=1, minint=1, dtype="int16")
    # narrow FLOAT types (D84): max + width rounds back to max (float32 at 2^24, float16 at 2^11), the mean of two
    # float16 values above 32752 overflows
    for ropen in (True, False):
        for ref in refs[:3]:
            yield dict(kind="width", data=[33554000, 33554430, 33554432, 33554200], unit="1", ropen=ropen, vrange=(33554000, None),
                       offset=0, reuse=False, ref=ref, minpts=1, minint=1, dtype="float32")
            yield dict(kind="width", data=[200, 4094, 4096, 3000], unit="1", ropen=ropen, vrange=(3600, None), offset=0, reuse=False,
                       ref=ref, minpts=1, minint=1, dtype="float16")
    for lastfull in (True, False):
        yield dict(kind="points", data=[40000, 49984, 60000, 33024, 45056], unit="1", n=2, lastfull=lastfull, reuse=False,
                   ref="median", minpts=1, minint=1, dtype="float16")
    # narrow-typed LIMITS and WIDTH (D92): data_max + width must not be formed in the type of value_range / width
    for ropen in (True, False):
        for ref in refs[:3]:
            # values 10*k, width 20: uint8 limit 250 + 20 wraps to 14, int8 limit 120 + 20 to -116
            yield dict(kind="width", data=[1, 3, 5, 19, 21, 23, 20, 24, 25, 7], unit="20", ropen=ropen, vrange=(0, 25), offset=0,
                       reuse=False, ref=ref, minpts=1, minint=1, dtype="uint8", vrtype="uint8")
            yield dict(kind="width", data=[1, 3, 5, 9, 11, 12, 2, 7], unit="20", ropen=ropen, vrange=(0, 12), offset=0,
                       reuse=False, ref=ref, minpts=1, minint=1, dtype="int8", vrtype="int8")
            yield dict(kind="width", data=[1, 3, 5, 9, 11, 12, 2, 7], unit="20", ropen=ropen, vrange=(None, 12), offset=0,
                       reuse=False, ref=ref, minpts=1, minint=1, vrtype="int8")
            # values 5*k, width np.int8(10) with Python limits (0, 125): 125 + int8(10) wraps
            yield dict(kind="width", data=[1, 4, 9, 14, 20, 25, 22, 3], unit="10", ropen=ropen, vrange=(0, 25), offset=0,
                       reuse=False, ref=ref, minpts=1, minint=1, wtype="int8")
            # float16 limit 1500 with width 0.5: 1500 + 0.5 rounds back to 1500 in half precision
            yield dict(kind="width", data=[5998, 6000, 5990, 5000, 5996, 5999], unit="0.5", ropen=ropen, vrange=(5980, 6000), offset=0,
                       reuse=False, ref=ref, minpts=1, minint=1, vrtype="float16")


def random_cases(ctx):
    """Long vectors with ties / rounding / arbitrary order / value_range."""
    rng = np.random.default_rng(ctx.seed + 101)
    nvec = ctx.pick(60, 600)
    refs = ["center", "left", "right", "median"]
    for t in range(nvec):
        L = int(rng.integers(30, 400))
        style = t % 3
        if style == 0:
            ks = rng.integers(0, 40, size=L)
        elif style == 1:
            ks = np.minimum((rng.weibull(1.5, size=L) * 12).astype(int), 60)
        else:
            ks = np.sort(rng.integers(0, 25, size=L))
        ks = [int(k) for k in ks]
        unit = UNITS[t % 5]
        kmax = max(ks)
        yield dict(kind="width", data=ks, unit=unit, ropen=bool(t % 2),
                   vrange=[None, (2, None), (0, max(2, kmax - 3)), (4, kmax + 5)][t % 4],
                   ref=refs[t % 4], minpts=int(rng.integers(1, 12)), minint=int(rng.integers(1, 5)))
        n = int(rng.integers(1, 9))
        yield dict(kind="number", data=ks, unit=unit, n=n, incmax=bool((t // 2) % 2),
                   vrange=[None, (1, max(2, kmax - 2))][t % 2], offset=int(rng.integers(0, 4)),
                   ref=refs[(t + 1) % 4], minpts=int(rng.integers(1, 12)), minint=int(rng.integers(1, 5)))
        npnt = int(rng.integers(1, max(2, L // 3)))
        yield dict(kind="points", data=ks, unit=unit, n=npnt, lastfull=bool(t % 2), ref="median",
                   minpts=int(rng.integers(1, 12)), minint=int(rng.integers(1, 5)))


def case_key(c):
    return f"{c['kind']} unit={c['unit']} data={c['data']} " + " ".join(
        f"{k}={c[k]}" for k in sorted(c) if k not in ("kind", "unit", "data"))


def judge(ctx, vc, caselist, label):
    recs = []
    for i, c in enumerate(caselist):
        recs.append(make_record(vc, i + 1, c))
    failing = ctx.validate("Trace_C10", "Trace_C10.cfg", recs, chunk=40000, xss="1g")
    for i, c in enumerate(caselist):
        r = recs[i]
        nontrivial = len(set(c["data"])) > 1 or c["kind"] != "number"
        ctx.case(("c10", c["kind"], tuple(c["data"]), c["unit"], str({k: c[k] for k in c if k not in ("data",)})),
                 nontrivial)
        if r["id"] in failing:
            for clause in failing[r["id"]]:
                # key: slicer kind + options that matter + the data (the failing input itself)
                ctx.violation(clause, case_key(c), f"record={ {k: r[k] for k in ('raw','refsq','loq','hiq','kept','raised','exc') if k in r} }",
                              replay=c)
    ctx.log(f"{label}: {len(recs)} executions judged, {sum(1 for r in recs if r['id'] in failing)} rejected")
    return recs


def run(ctx):
    vc = import_virocon()
    ctx.rule = ("exhaustive: every integer vector of length<=L over a lattice 0..V (quick L=3,V=5; thorough "
                "L=4,V=6 plus L=5,V=3), mapped to floats for widths/units 1,0.5,0.1,0.3,0.7, x option "
                "combinations of the three slicers; plus seeded random long vectors with ties. distinct = "
                "distinct (slicer,options,unit,data); non-trivial = more than one distinct value or a "
                "width/points slicer")
    ctx.trusted = ["TLC 1.8 evaluating spec/SlicingOps.tla clause operators",
                   "harness/c10.py projection of floats to lattice quarter-units (checked on-lattice to 1e-6)",
                   "float comparison bits BoundsContain/BoundsDisjoint computed exactly (no tolerance) with the documented open/closed ends"]
    ctx.assumptions = ["PointsPerIntervalSlicer is only exercised with len(data) >= n_points "
                       "(fewer points raise ZeroDivisionError inside numpy.split; outside the stated domain)",
                       "a value exactly on an ideal edge may belong to either neighbour for non-dyadic float widths"]
    # M: design-level model checking
    ctx.model_check("Slicing", ctx.pick("MC_Slicing_quick.cfg", "MC_Slicing_thorough.cfg"),
                    must_cover=("Slice", "DropSmall", "CheckMin"), timeout=3000)
    ctx.model_check("Slicing", "MC_Slicing_skew.cfg", expect_violation="ExactlyOne")
    # V: exhaustive lattice domain on the real code
    cl = list(cases(ctx))
    recs = judge(ctx, vc, cl, "lattice domain")
    judge(ctx, vc, list(edge_maximum_cases(ctx)), "maximum on the m-th edge")
    judge(ctx, vc, list(narrow_int_cases(ctx)), "narrow integer types")
    ctx.sample({"case": cl[len(cl) // 2], "record": recs[len(cl) // 2]})
    rl = list(random_cases(ctx))
    recs2 = judge_offset(ctx, vc, rl, len(cl))
    ctx.exhaustive = True
    ctx.notes["lattice_cases"] = len(cl)
    ctx.notes["random_long_cases"] = len(rl)


def judge_offset(ctx, vc, caselist, base):
    # separate TLC run for the long vectors (different id space only for readability)
    recs = []
    for i, c in enumerate(caselist):
        recs.append(make_record(vc, base + i + 1, c))
    failing = ctx.validate("Trace_C10", "Trace_C10.cfg", recs, chunk=400, xss="512m")
    for i, c in enumerate(caselist):
        r = recs[i]
        ctx.case(("c10r", c["kind"], c["unit"], len(c["data"]), hash(tuple(c["data"])),
                  str({k: c[k] for k in c if k != "data"})))
        if r["id"] in failing:
            for clause in failing[r["id"]]:
                ctx.violation(clause, case_key(c), "long random vector", replay=c)
    ctx.log(f"random long vectors: {len(recs)} executions judged, "
            f"{sum(1 for r in recs if r['id'] in failing)} rejected")
    return recs


def replay(ctx, case):
    vc = import_virocon()
    c = case["case"]
    if c.get("vrange") is not None:
        c["vrange"] = tuple(c["vrange"])
    judge(ctx, vc, [c], "replay")
