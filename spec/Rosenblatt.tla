----------------------------- MODULE Rosenblatt -----------------------------
(* The hierarchical chain as a state machine (shared by C01, C06, C07).                  *)
(*                                                                                      *)
(*   mode "icdf"   IFORM/ISORM: one point, x_i = Qm_i(u_i | x_cond[i]) dimension by       *)
(*                 dimension (contours.py: coordinates[:, i] = icdf(p, given=coordinates  *)
(*                 [:, cond_idx]))                                              -- C01    *)
(*   mode "pdf"    GlobalHierarchicalModel.pdf: acc *= f_i(x_i | x_cond[i])      -- C06    *)
(*   mode "sample" draw_sample: Rows rows at once, column by column, the given of row r   *)
(*                 is the value sampled IN ROW r                                 -- C07    *)
(*                                                                                      *)
(* TLC explores every structure cond (all admissible ones; with Admissible = FALSE the   *)
(* inadmissible ones), every assignment of shape classes and every lattice point.        *)
(* Mut switches on one named deviation of the implementation:                            *)
(*   "wrongcol"  the step reads column cond[i]-1 instead of cond[i]                       *)
(*   "otherrow"  sampling reads the given from the other row                             *)
(*   "noinverse" the nquad wrapper applies arg_order instead of argsort(arg_order)        *)
(*   "constshared" a dimension whose parameters do not depend on the given (shape class 1)  *)
(*               draws ONE value and repeats it in every row (scalar parameters broadcast)  *)
(*   "replace"   no deviation, but the model may be MODIFIED between construction and       *)
(*               sampling: Replace(i, s) puts another distribution (shape class s) into     *)
(*               distributions[i]; sampling reads the state of the model at call time       *)
(*   "frozenplan" as "replace", but sampling iterates over the distribution objects that    *)
(*               were in the list at construction (variable plan), not the current ones     *)
(*   "rawnegdim" marginal_pdf / marginal_cdf put a NEGATIVE dim as passed into the argument  *)
(*               order (integral_order + [dim]) instead of the index it denotes              *)
(*   "clipgiven" sampling clips the given to the range 0..1 before it is used (the range  *)
(*               of values a fit has seen) instead of using the value in the row          *)
EXTENDS RosenblattOps, Json, TLC

CONSTANTS MaxN,        \* dimensions 2..MaxN
          K,           \* probability lattice 0..K-1
          Rows,        \* rows of a sample
          Shapes,      \* shape classes explored
          Modes,       \* subset of {"icdf", "pdf", "sample"}
          Mut,         \* "none" or one of the deviations above
          Admissible,  \* TRUE: cond[i] < i for all i; FALSE: at least one cond[i] >= i
          EmitCfg      \* TRUE: print every configuration (generator for leg R)

VARIABLES pc, mode, n, cond, sh, u, x, acc,
          plan         \* the shape classes (distribution objects) the model was constructed with
vars == <<pc, mode, n, cond, sh, u, x, acc, plan>>

Lat == 0..(K - 1)

CondSet(m) ==
    IF Admissible
    THEN {c \in [1..m -> 0..m] : c[1] = 0 /\ \A i \in 2..m : c[i] < i}
    ELSE {c \in [1..m -> 0..m] : c[1] = 0 /\ \E i \in 2..m : c[i] >= i}

RowsOf(md) == IF md = "sample" THEN Rows ELSE 1

Init ==
    /\ pc = 1 /\ acc = 1
    /\ mode \in Modes
    /\ n \in 2..MaxN
    /\ cond \in CondSet(n)
    /\ sh \in [1..n -> Shapes]
    /\ plan = sh
    /\ IF mode = "pdf"
       THEN /\ x \in [1..1 -> [1..n -> V]]                 \* the evaluation point
            /\ u = x
       ELSE /\ u \in [1..RowsOf(mode) -> [1..n -> Lat]]    \* probability levels / uniform stream
            /\ x = [r \in 1..RowsOf(mode) |-> [i \in 1..n |-> 0]]

(* the column / row the implementation reads *)
UsedCol(i) == IF Mut = "wrongcol" /\ cond[i] > 1 THEN cond[i] - 1 ELSE cond[i]
UsedRow(r) == IF Mut = "otherrow" THEN (r % Rows) + 1 ELSE r
GivenUsed(r, i) == IF cond[i] = 0 THEN 0
                   ELSE IF Mut = "clipgiven" THEN Min2(x[r][cond[i]], 1)
                   ELSE x[UsedRow(r)][UsedCol(i)]

(* the distribution object sampling uses for column i; a model is modified at most once, before
   sampling starts *)
ShUsed(i) == IF Mut = "frozenplan" THEN plan[i] ELSE sh[i]
Replace(i, s) ==
    /\ Mut \in {"replace", "frozenplan"} /\ mode = "sample" /\ pc = 1 /\ sh = plan
    /\ i <= n /\ s # sh[i]
    /\ sh' = [sh EXCEPT ![i] = s]
    /\ UNCHANGED <<pc, mode, n, cond, u, x, acc, plan>>

(* the row whose random level is used for row r of column i *)
LevelRow(r, i) == IF Mut = "constshared" /\ cond[i] # 0 /\ sh[i] = 1 THEN 1 ELSE r

IcdfStep(i) ==
    /\ mode = "icdf" /\ pc = i /\ i <= n
    /\ x' = [x EXCEPT ![1][i] = Qm(sh[i], u[1][i], GivenUsed(1, i))]
    /\ pc' = i + 1
    /\ UNCHANGED <<mode, n, cond, sh, u, acc, plan>>

SampleStep(i) ==
    /\ mode = "sample" /\ pc = i /\ i <= n
    /\ x' = [r \in 1..Rows |->
              [x[r] EXCEPT ![i] = Qm(ShUsed(i), u[LevelRow(r, i)][i], GivenUsed(r, i))]]
    /\ pc' = i + 1
    /\ UNCHANGED <<mode, n, cond, sh, u, acc, plan>>

PdfStep(i) ==
    /\ mode = "pdf" /\ pc = i /\ i <= n
    /\ acc' = acc * Dens(sh[i], x[1][i], GivenUsed(1, i))
    /\ pc' = i + 1
    /\ UNCHANGED <<mode, n, cond, sh, u, x, plan>>

Next == \/ \E i \in 1..MaxN : IcdfStep(i)
        \/ \E i \in 1..MaxN : SampleStep(i)
        \/ \E i \in 1..MaxN : PdfStep(i)
        \/ \E i \in 1..MaxN, s \in Shapes : Replace(i, s)
Spec == Init /\ [][Next]_vars

----------------------------------------------------------------------------
(* invariants: one per clause *)
Done == pc = n + 1

(* C01 / C07: mapping the result back through the model's own conditional cdfs with the  *)
(* DECLARED structure (same row) returns the levels it was built from                    *)
InverseRosenblatt ==
    Done /\ mode \in {"icdf", "sample"} =>
      \A r \in 1..RowsOf(mode) : \A i \in 1..n :
         Cm(sh[i], x[r][i], GivenOf(cond, x[r], i), Lat) = u[r][i]

(* a step only reads values that were already computed *)
ReadsOnlyComputed == \A i \in 1..n : pc = i /\ cond[i] # 0 => cond[i] < i

(* the maps are quantile functions: strictly increasing in the level for every given met *)
MapsIncreasing ==
    \A r \in 1..RowsOf(mode) : \A i \in 1..n :
       mode # "pdf" /\ pc > i => StrictlyIncreasing(sh[i], GivenOf(cond, x[r], i), Lat)

(* C06 *)
Factorises == Done /\ mode = "pdf" => acc = Joint(cond, sh, x[1])
NonNeg == mode = "pdf" => acc >= 0

(* the integral clauses do not depend on the evaluation point: evaluate them once per     *)
(* configuration, at the first state of the lattice origin                               *)
Static == mode = "pdf" /\ pc = 1 /\ \A i \in 1..n : x[1][i] = 0
Reorder(order) == IF Mut = "noinverse" THEN order ELSE ArgSort(order)      \* np.argsort(arg_order)
(* the argument order for the variable addressed as d (d in 1..n, or -1..-n counted from the end) *)
ArgOrderAs(m, d) == IF Mut = "rawnegdim" THEN Reverse(Others(m, NormDim(m, d))) \o <<d>>
                    ELSE ArgOrderMarginal(m, NormDim(m, d))

(* the reordering puts the argument that carries model variable k into slot k *)
ReorderIsInverse ==
    Static => /\ IsInverse(ArgOrderCdf(n), Reorder(ArgOrderCdf(n)))
              /\ \A d \in DimArgs(n) :
                    LET o == ArgOrderAs(n, d) r == Reorder(o) IN \A k \in 1..n : NormDim(n, o[r[k]]) = k
NormalisedToOne == Static => TotalMass(cond, sh, n) = Pow(DensSum, n)
CdfIsOrthantSum ==
    mode = "pdf" /\ pc = 1 =>
       CodeCdf(cond, sh, n, x[1], Reorder(ArgOrderCdf(n))) = OrthantSum(cond, sh, n, x[1])
MarginalIsSumOverOthers ==
    Static => \A d \in DimArgs(n) : \A v \in V :
       LET dim == NormDim(n, d) r == Reorder(ArgOrderAs(n, d)) IN
       /\ CodeMarginalPdf(cond, sh, n, dim, v, r) = MarginalPdfSum(cond, sh, n, dim, v)
       /\ CodeMarginalCdf(cond, sh, n, dim, v, r) = MarginalCdfSum(cond, sh, n, dim, v)

(* leg R: every configuration, printed once (at its first state with all levels 0) *)
Emit ==
    EmitCfg /\ pc = 1 /\ (\A r \in DOMAIN u : \A i \in 1..n : u[r][i] = 0) =>
       PrintT(<<"BEH", ToJson([n |-> n, cond |-> cond, sh |-> sh])>>)
=============================================================================
