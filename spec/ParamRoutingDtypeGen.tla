------------------------- MODULE ParamRoutingDtypeGen -------------------------
(* Leg R for the narrow-dtype conditioning values of C08: TLC enumerates                   *)
(* ParamRoutingOps!DtypeCases; harness/c08.py executes each on a real conditional           *)
(* distribution and Trace_C08 judges it (and asserts coverage of the set).                   *)
EXTENDS ParamRoutingOps, TLC, Json
VARIABLE cs
Init == cs \in DtypeCases
Next == UNCHANGED cs
Spec == Init /\ [][Next]_cs
Emit == PrintT(<<"BEH", ToJson([fam |-> cs[1], gkind |-> cs[2], fn |-> cs[3], method |-> cs[4]])>>)
=============================================================================
