------------------------------ MODULE FitLaws ------------------------------
(* C12 - the fit life cycle                                                              *)
(*     start -> fit(d) -> fit(c*d from the defaults) -> re-fit(d from the fitted values) *)
(* as a state machine over (family, regular parameter class, n, scale factor, start      *)
(* kind, replicate).  The estimator is the idealised one (it returns the maximiser, for  *)
(* own-family data in the limit the generating vector mapped by ScaleMap) with the       *)
(* likelihood replaced by the concave surrogate -sum|par_i - max_i|; the constant Dev    *)
(* switches on a named deviation of the estimator (the mutation classes the property is  *)
(* aimed at), under which the listed invariant must fail.  TLC enumerates the cases and  *)
(* emits them (leg R); the driver runs each on the real classes and Trace_C12 judges     *)
(* the measured log-likelihoods and parameters with the same operators.                  *)
EXTENDS FitLawsOps, TLC, Json

CONSTANTS NSet,      \* sample sizes
          CSet,      \* indices into ScaleFactors (filtered by the domain InRange)
          Kinds,     \* start kinds: "default", "user" (near), "far" (an order of magnitude off)
          Reps,      \* replicates (independent data draws)
          Dev,       \* "none" | "start" | "swap" | "recipinv" | "logasscale"
          SharedKw,  \* TRUE = deviation: the scipy fit keywords live in a class-level dict that
                     \*        _fit_mle mutates, so a fixed parameter of one instance constrains
                     \*        every later fit of the family in the process
          KFixAll    \* TRUE = every choice of the other instance's fixed parameter (model
                     \*        checking); FALSE = one per case, rotating (case generation)
VARIABLES pc, fam, ci, n, c, kind, rep, p0, p1, p2, p3,
          kfix,      \* history: 0 = nothing was fitted before; k = ANOTHER instance of the same
                     \*          family with parameter k fixed was fitted first (on the same data)
          leak       \* 0, or the parameter index on which the process-wide state holds a stale constraint

vars == <<pc, fam, ci, n, c, kind, rep, p0, p1, p2, p3, kfix, leak>>

Cls == Classes(fam)[ci]
Theta == Cls.theta
FamSet == {Families[i] : i \in 1..Len(Families)}

(* the maximiser for data drawn at theta and multiplied by num/den *)
Target(num, den) == ScaleMap(fam, num, den, Theta)

SwapShapes(par) ==
    LET idx == {i \in 1..Len(par) : Roles(fam)[i] = "shape"} IN
      IF Cardinality(idx) < 2 THEN par
      ELSE LET a == SetMin(idx) b == SetMax(idx) IN
             [i \in 1..Len(par) |-> IF i = a THEN par[b] ELSE IF i = b THEN par[a] ELSE par[i]]

(* the estimator: start values, data description -> returned parameters *)
Est(start, num, den) ==
    CASE Dev = "none"       -> Target(num, den)
      [] Dev = "start"      -> start
      [] Dev = "swap"       -> SwapShapes(Target(num, den))
      [] Dev = "recipinv"   -> [i \in 1..Len(Theta) |->
                                  IF Roles(fam)[i] = "recipscale" THEN (Theta[i] * num) \div den
                                  ELSE Target(num, den)[i]]
      [] Dev = "logasscale" -> [i \in 1..Len(Theta) |->
                                  IF Roles(fam)[i] = "logscale" THEN (Theta[i] * num) \div den
                                  ELSE Target(num, den)[i]]

(* parameters another instance may have fixed (ScipyGammaFloc: loc is fixed in the case itself) *)
FixIdx(f) == {i \in 1..Len(Roles(f)) : ~(f = "ScipyGammaFloc" /\ i = 2)}
FixVal(k) == UserStart(fam, Theta)[k]        \* "a given physical value", not the estimate
(* what a fit of THIS instance returns given the history *)
EstH(start, num, den) ==
    LET e == Est(start, num, den) IN IF leak = 0 THEN e ELSE [e EXCEPT ![leak] = FixVal(leak)]

(* concave surrogate of the log-likelihood with its maximum at the target *)
RECURSIVE Dist(_, _, _)
Dist(a, b, i) == IF i > Len(a) THEN 0 ELSE Abs(a[i] - b[i]) + Dist(a, b, i + 1)
LLm(par, num, den) == 0 - Dist(par, Target(num, den), 1)

Init ==
    /\ pc = "pre" /\ leak = 0
    /\ fam \in FamSet
    /\ ci \in 1..Len(Classes(fam))
    /\ n \in NSet
    /\ kind \in Kinds
    /\ rep \in Reps
    /\ IF Scalable(fam)
       THEN c \in {x \in {ScaleFactors[k] : k \in CSet} : InRange(Classes(fam)[ci].scale, x[1], x[2])}
       ELSE c = <<1, 1>>
    /\ (kind = "far" => n = 500)                   \* the far start is explored at one sample size
    /\ p0 = CASE kind = "default" -> Defaults(fam)
              [] kind = "user" -> UserStart(fam, Classes(fam)[ci].theta)
              [] kind = "far" -> FarStart(fam, Classes(fam)[ci].theta)
    /\ p1 = <<>> /\ p2 = <<>> /\ p3 = <<>>
    /\ IF KFixAll THEN kfix \in {0} \cup FixIdx(fam)
       ELSE LET S == FixIdx(fam)
                r == (ci + rep + (n \div 100)) % Cardinality(S)
            IN kfix = CHOOSE k \in S : Cardinality({j \in S : j < k}) = r

(* the history step: another instance of the family, parameter kfix fixed, is fitted first *)
FitOther ==
    /\ pc = "pre"
    /\ leak' = IF kfix # 0 /\ SharedKw THEN kfix ELSE 0
    /\ pc' = "start"
    /\ UNCHANGED <<fam, ci, n, c, kind, rep, p0, p1, p2, p3, kfix>>

FitData ==
    /\ pc = "start"
    /\ p1' = EstH(p0, 1, 1)
    /\ pc' = "fitted"
    /\ UNCHANGED <<fam, ci, n, c, kind, rep, p0, p2, p3, kfix, leak>>

FitScaled ==
    /\ pc = "fitted"
    /\ p2' = IF Scalable(fam) THEN EstH(Defaults(fam), c[1], c[2]) ELSE p1
    /\ pc' = "scaled"
    /\ UNCHANGED <<fam, ci, n, c, kind, rep, p0, p1, p3, kfix, leak>>

ReFit ==
    /\ pc = "scaled"
    /\ p3' = EstH(p1, 1, 1)
    /\ pc' = "done"
    /\ UNCHANGED <<fam, ci, n, c, kind, rep, p0, p1, p2, kfix, leak>>

Next == FitOther \/ FitData \/ FitScaled \/ ReFit
Spec == Init /\ [][Next]_vars

Fitted == pc \in {"fitted", "scaled", "done"}
Scaled == pc \in {"scaled", "done"}

NoLikelihoodLoss ==
    /\ Fitted => LLm(p1, 1, 1) >= LLm(p0, 1, 1)
    /\ Scaled /\ Scalable(fam) => LLm(p2, c[1], c[2]) >= LLm(Defaults(fam), c[1], c[2])
    /\ pc = "done" => LLm(p3, 1, 1) >= LLm(p1, 1, 1)
AtLeastGenerating ==
    /\ Fitted => LLm(p1, 1, 1) >= LLm(Theta, 1, 1)
    /\ Scaled /\ Scalable(fam) => LLm(p2, c[1], c[2]) >= LLm(Target(c[1], c[2]), c[1], c[2])
    /\ pc = "done" => LLm(p3, 1, 1) >= LLm(Theta, 1, 1)
Admissible ==
    /\ Fitted => AdmissiblePar(fam, p1)
    /\ Scaled => AdmissiblePar(fam, p2)
    /\ pc = "done" => AdmissiblePar(fam, p3)
ScaleEquivariant ==
    Scaled /\ Scalable(fam) /\ Identifiable(fam, n) => Equivariant(fam, c[1], c[2], p1, p2)

(* FitDist of instance j does not change the outcome of FitDist of instance i *)
HistoryIndependent ==
    /\ Fitted => p1 = Est(p0, 1, 1)
    /\ Scaled /\ Scalable(fam) => p2 = Est(Defaults(fam), c[1], c[2])
    /\ pc = "done" => p3 = Est(p1, 1, 1)

(* ---- leg R: the enumerated cases *)
CaseRec == [fam |-> fam, ci |-> ci, theta |-> Theta, n |-> n, num |-> c[1], den |-> c[2],
            kind |-> kind, rep |-> rep, start |-> p0,
            thetac |-> Target(c[1], c[2]), scale |-> Cls.scale,
            label |-> Label(fam, Theta, c[1], c[2]),
            kfix |-> kfix, fixval |-> FixVal(kfix)]
Emit == pc = "done" => PrintT(<<"BEH", ToJson(CaseRec)>>)
=============================================================================
