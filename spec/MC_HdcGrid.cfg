SPECIFICATION Spec
CONSTANTS NDims = {2, 3}  EmitCases = FALSE  NegativeDefault = FALSE
CHECK_DEADLOCK FALSE
INVARIANT ErrorIffMalformed
INVARIANT DeltasPositive
INVARIANT AxesCover
