SPECIFICATION Spec
CONSTANTS MaxN = 3  K = 2  Rows = 1  Shapes = {1,2,3,4}
  Modes = {"pdf"}  Mut = "rawnegdim"  Admissible = TRUE  EmitCfg = FALSE
CHECK_DEADLOCK FALSE
INVARIANT Factorises
INVARIANT NonNeg
INVARIANT ReorderIsInverse
INVARIANT NormalisedToOne
INVARIANT CdfIsOrthantSum
INVARIANT MarginalIsSumOverOthers
INVARIANT ReadsOnlyComputed
