SPECIFICATION Spec
CONSTANTS MaxLen = 6  SharedDep = FALSE  FitWritesTemplate = FALSE  CachingEval = FALSE  EmitBeh = TRUE
CHECK_DEADLOCK FALSE
INVARIANT Emit
