SPECIFICATION Spec
CONSTANTS MaxN = 3  K = 1  Rows = 1  Shapes = {2}
  Modes = {"icdf"}  Mut = "none"  Admissible = FALSE  EmitCfg = TRUE
CHECK_DEADLOCK FALSE
INVARIANT Emit
