"""Common machinery: TLC runner, batch trace validation, behaviour generation,
verdict bookkeeping, known findings, evidence files.

Every check is `harness/cNN.py` with a function `run(ctx)`; `ctx` is a `Ctx`.
Exit codes: 0 = property held on everything explored (KNOWN-FINDING lines allowed),
1 = VIOLATION, 2 = machinery failure (TLC parse error, overflow, vacuity ...).
"""
from __future__ import annotations

import json
import os
import re
import shutil
import subprocess
import sys
import time
import hashlib
from pathlib import Path

VERIF = Path(__file__).resolve().parent.parent
SPEC = VERIF / "spec"
WORK = Path(os.environ.get("VERIF_WORK_DIR", str(VERIF / ".work")))   # scratch (default /verif/.work)
EVIDENCE = Path(os.environ.get("VERIF_EVIDENCE_DIR", str(VERIF / "evidence")))   # redirected when trying seeded changes
REPO = Path(os.environ.get("VIROCON_REPO", "/repo"))
TLA_CP = "/opt/veriftools/tla/tla2tools.jar:/opt/veriftools/tla/CommunityModules-deps.jar"
INT_MAX = 2**31 - 1


class Machinery(Exception):
    """The verification machinery itself failed (never a verdict on the code)."""


# ----------------------------------------------------------------------------------
# fixed point


def Q(x, scale):
    """Project a float to a fixed-point integer (round half even); must fit TLC ints."""
    v = float(x) * scale
    if v != v or v in (float("inf"), float("-inf")):
        raise Machinery(f"non-finite value {x!r} cannot be projected (scale {scale})")
    q = int(round(v))
    if abs(q) > INT_MAX:
        raise Machinery(f"fixed-point overflow: {x!r} * {scale} does not fit 32 bit")
    return q


def Qc(x, scale, lo=-INT_MAX, hi=INT_MAX):
    """Clamped projection (for quantities where saturation is harmless, e.g. huge errors)."""
    v = float(x) * scale
    if v != v:
        return hi
    if v == float("inf"):
        return hi
    if v == float("-inf"):
        return lo
    return max(lo, min(hi, int(round(v))))


def limbs(n, base=10**9, k=2):
    """Non-negative big integer -> k limbs (most significant first) in the given base."""
    n = int(n)
    if n < 0:
        raise Machinery("limbs() needs n >= 0")
    out = []
    for _ in range(k):
        out.append(n % base)
        n //= base
    if n:
        raise Machinery("limbs(): value too large")
    return out[::-1]


# ----------------------------------------------------------------------------------
# TLC


class TLCResult:
    def __init__(self, rc, out, wall):
        self.rc = rc
        self.out = out
        self.wall = wall
        self.generated = 0
        self.distinct = 0
        self.violated = []  # names of violated invariants / properties
        self.errors = []
        self.prints = []  # parsed PrintT tuples as raw strings
        self.coverage = {}
        self._parse()

    def _parse(self):
        for m in re.finditer(
            r"(\d+) states generated, (\d+) distinct states found", self.out
        ):
            self.generated = int(m.group(1))
            self.distinct = int(m.group(2))
        for m in re.finditer(r"Error: Invariant (\S+) is violated", self.out):
            self.violated.append(m.group(1))
        for m in re.finditer(r"Error: Action property (\S+) is violated", self.out):
            self.violated.append(m.group(1))
        for m in re.finditer(r"Error: Temporal properties were violated", self.out):
            self.violated.append("<temporal>")
        for m in re.finditer(r"^Error: (.*)$", self.out, re.M):
            self.errors.append(m.group(1))
        # -coverage: "<Action line 12, col 1 to line 14, col 20 of module M>: 10:20"
        for m in re.finditer(
            r"^<(\w+) line \d+, col \d+ to line \d+, col \d+ of module (\w+)(?: \([\d ]+\))?>: (\d+):(\d+)",
            self.out,
            re.M,
        ):
            self.coverage[m.group(1)] = (int(m.group(3)), int(m.group(4)))

    @property
    def ok(self):
        return self.rc == 0 and not self.errors

    def tuples(self, tag):
        """All PrintT(<<"tag", ...>>) outputs, returned as the raw text after the tag."""
        res = []
        # TLC pretty-prints tuples longer than 80 columns as `<< "TAG",\n   1, ...` (space after <<)
        pat = re.compile(r'<<\s*"' + re.escape(tag) + '"')
        i = 0
        s = self.out
        while True:
            m = pat.search(s, i)
            if m is None:
                break
            i = m.start()
            depth = 0
            j = i
            instr = False
            while j < len(s):
                c = s[j]
                if instr:
                    if c == "\\":
                        j += 1
                    elif c == '"':
                        instr = False
                elif c == '"':
                    instr = True
                elif s.startswith("<<", j):
                    depth += 1
                    j += 1
                elif s.startswith(">>", j):
                    depth -= 1
                    j += 1
                    if depth == 0:
                        break
                j += 1
            res.append(s[i : j + 1])
            i = j + 1
        return res


def tla_string_unescape(s):
    return bytes(s, "utf-8").decode("unicode_escape") if "\\" in s else s


def parse_tuple_fields(raw):
    """Parse a printed TLA+ tuple of strings / ints / nested tuples / sets of strings
    into python lists.  Only what the harness prints is supported."""
    pos = 0

    def ws():
        nonlocal pos
        while pos < len(raw) and raw[pos] in " \n\t\r":
            pos += 1

    def val():
        nonlocal pos
        ws()
        if raw.startswith("<<", pos):
            pos += 2
            items = []
            ws()
            if raw.startswith(">>", pos):
                pos += 2
                return items
            while True:
                items.append(val())
                ws()
                if raw.startswith(">>", pos):
                    pos += 2
                    return items
                if raw[pos] != ",":
                    raise Machinery(f"cannot parse TLC tuple: {raw[:200]}")
                pos += 1
        if raw[pos] == "{":
            pos += 1
            items = []
            ws()
            if raw[pos] == "}":
                pos += 1
                return items
            while True:
                items.append(val())
                ws()
                if raw[pos] == "}":
                    pos += 1
                    return items
                if raw[pos] != ",":
                    raise Machinery(f"cannot parse TLC set: {raw[:200]}")
                pos += 1
        if raw[pos] == '"':
            j = pos + 1
            buf = []
            while raw[j] != '"':
                if raw[j] == "\\":
                    buf.append(raw[j : j + 2])
                    j += 2
                else:
                    buf.append(raw[j])
                    j += 1
            pos = j + 1
            return tla_string_unescape("".join(buf))
        m = re.match(r"-?\d+", raw[pos:])
        if m:
            pos += m.end()
            return int(m.group(0))
        m = re.match(r"TRUE|FALSE", raw[pos:])
        if m:
            pos += m.end()
            return m.group(0) == "TRUE"
        raise Machinery(f"cannot parse TLC value at {raw[pos:pos+80]!r}")

    return val()


def run_tlc(
    module,
    cfg,
    *,
    workdir,
    workers=16,
    timeout=1800,
    env=None,
    simulate=None,
    depth=None,
    seed=None,
    coverage=False,
    xss=None,
    deadlock=None,
    extra=(),
    cont=False,
):
    """Run TLC on SPEC/<module>.tla with SPEC/<cfg>.  Returns TLCResult."""
    workdir = Path(workdir)
    meta = workdir / f"meta_{module}_{Path(cfg).stem}_{os.getpid()}_{int(time.time()*1000)%100000}"
    if meta.exists():
        shutil.rmtree(meta)
    meta.mkdir(parents=True)
    java = ["java", "-XX:+UseParallelGC"]
    if xss:
        java.append(f"-Xss{xss}")
    cmd = java + [
        "-cp",
        TLA_CP,
        "tlc2.TLC",
        "-workers",
        str(workers),
        "-metadir",
        str(meta),
        "-noGenerateSpecTE",
        "-config",
        str(cfg),
    ]
    if simulate:
        cmd += ["-simulate", simulate]
    if depth:
        cmd += ["-depth", str(depth)]
    if seed is not None:
        cmd += ["-seed", str(seed)]
    if coverage:
        cmd += ["-coverage", "1"]
    if deadlock is False:
        cmd += ["-deadlock"]
    if cont:
        cmd += ["-continue"]
    cmd += list(extra)
    cmd.append(f"{module}.tla")
    e = dict(os.environ)
    e.pop("JAVA_TOOL_OPTIONS", None)
    if env:
        e.update(env)
    t0 = time.time()
    try:
        p = subprocess.run(
            cmd,
            cwd=str(SPEC),
            env=e,
            stdout=subprocess.PIPE,
            stderr=subprocess.STDOUT,
            timeout=timeout,
            text=True,
        )
        rc, out = p.returncode, p.stdout
    except subprocess.TimeoutExpired as ex:
        rc = 124
        out = (ex.stdout or b"").decode() if isinstance(ex.stdout, bytes) else (ex.stdout or "")
        out += "\nError: TLC timed out\n"
    wall = time.time() - t0
    shutil.rmtree(meta, ignore_errors=True)
    (workdir / f"tlc_{module}_{Path(cfg).stem}.log").write_text(out)
    return TLCResult(rc, out, wall)


# ----------------------------------------------------------------------------------
# Context


class Ctx:
    def __init__(self, pid, tier, seed, level):
        self.pid = pid
        self.tier = tier
        self.seed = seed
        self.level = level
        self.work = WORK / pid
        if self.work.exists():
            shutil.rmtree(self.work, ignore_errors=True)
        self.work.mkdir(parents=True, exist_ok=True)
        (self.work / "replay").mkdir(exist_ok=True)
        self.t0 = time.time()
        self.states = 0
        self.transitions = 0
        self.traces = 0
        self.evaluations = 0
        self.keys = set()
        self.samples = []
        self.assumptions = []
        self.trusted = []
        self.notes = {}
        self.violations = []  # (clause, key, detail, replay_path)
        self.known_hit = []
        self.exhaustive = None
        self.rule = ""
        self.mc_runs = []
        self.trace_runs = []
        kf = VERIF / "known_findings.json"
        self.known = []
        if kf.exists():
            self.known = [
                f for f in json.loads(kf.read_text()).get("findings", []) if f["property"] == pid
            ]

    # -- helpers ---------------------------------------------------------------
    @property
    def quick(self):
        return self.tier == "quick"

    def pick(self, quick, thorough):
        return quick if self.quick else thorough

    def log(self, *a):
        print(f"[{self.pid}]", *a, flush=True)

    def sample(self, obj, limit=6):
        if len(self.samples) < limit:
            self.samples.append(obj)

    def case(self, key, nontrivial=True):
        """Count one explored case; key identifies distinct non-trivial ones."""
        self.evaluations += 1
        if nontrivial:
            self.keys.add(key if isinstance(key, str) else json.dumps(key, sort_keys=True))

    # -- TLC legs -----------------------------------------------------------------
    def model_check(self, module, cfg, *, expect_violation=None, must_cover=(), **kw):
        """Leg M.  expect_violation: name of an invariant that MUST be violated
        (a spec-mutation / vacuity guard) -- anything else is a machinery failure."""
        kw.setdefault("coverage", bool(must_cover))
        if expect_violation is not None:
            # a mutation config may list several invariants; with several workers TLC reports whichever is
            # violated first.  Check ONLY the expected one so that the outcome is deterministic.
            keep, found = [], False
            for line in (SPEC / cfg).read_text().splitlines():
                m = re.match(r"\s*(INVARIANTS?|PROPERTY|PROPERTIES)\s+(.*)$", line)
                if not m:
                    keep.append(line)
                elif expect_violation in m.group(2).split():
                    keep.append(f"{m.group(1)} {expect_violation}")
                    found = True
            if not found:
                raise Machinery(f"{cfg} does not list {expect_violation}")
            only = self.work / (Path(cfg).stem + "_only.cfg")
            only.write_text("\n".join(keep) + "\n")
            cfg = str(only)
        r = run_tlc(module, cfg, workdir=self.work, **kw)
        self.mc_runs.append(
            dict(module=module, cfg=cfg, generated=r.generated, distinct=r.distinct,
                 wall_s=round(r.wall, 1), violated=r.violated)
        )
        self.log(f"TLC {module}/{cfg}: {r.generated} generated, {r.distinct} distinct, "
                 f"{r.wall:.1f}s, violated={r.violated or '-'}")
        if expect_violation is not None:
            if expect_violation not in r.violated:
                raise Machinery(
                    f"{module}/{cfg}: expected invariant {expect_violation} to be violated "
                    f"(vacuity guard) but TLC reported {r.violated or r.errors[:2]}"
                )
            return r
        hard = [e for e in r.errors if "is violated" not in e and "behavior up to" not in e.lower()]
        if r.rc not in (0, 12, 13) or (hard and not r.violated):
            raise Machinery(f"TLC failed on {module}/{cfg}: rc={r.rc} {hard[:3]}\n{r.out[-1500:]}")
        if r.generated == 0:
            raise Machinery(f"TLC explored no states on {module}/{cfg}")
        for a in must_cover:
            if a not in r.coverage or r.coverage[a][0] == 0:
                raise Machinery(f"vacuous run: action {a} never taken in {module}/{cfg}")
        self.states += r.distinct
        self.transitions += r.generated
        return r

    def generate(self, module, cfg, tag="BEH", **kw):
        """Leg R.  Run TLC and collect PrintT(<<tag, json-string>>) behaviours/cases."""
        kw.setdefault("workers", 1)
        r = run_tlc(module, cfg, workdir=self.work, **kw)
        self.log(f"TLC gen {module}/{cfg}: {r.generated} generated, {r.distinct} distinct, {r.wall:.1f}s")
        hard = [e for e in r.errors]
        if r.rc != 0 or hard:
            raise Machinery(f"TLC generator failed on {module}/{cfg}: rc={r.rc} {hard[:3]}\n{r.out[-1500:]}")
        self.states += r.distinct
        self.transitions += r.generated
        out = []
        seen = set()
        for raw in r.tuples(tag):
            f = parse_tuple_fields(raw)
            js = f[1]
            if js in seen:
                continue
            seen.add(js)
            out.append(json.loads(js) if isinstance(js, str) else js)
        if not out:
            raise Machinery(f"generator {module}/{cfg} emitted nothing")
        return out

    def validate(self, module, cfg, records, *, xss=None, timeout=3600, constants=None,
                 chunk=None):
        """Leg V.  records: list of dicts, each with a unique 'id'.  TLC reads them as
        ndjson, judges each with the trace spec and prints <<"VERDICT", id, clauses>> for
        every record that fails.  Returns {id: [clauses]} for failing records."""
        if not records:
            raise Machinery(f"no records to validate against {module}")
        ids = [r["id"] for r in records]
        if len(set(ids)) != len(ids):
            raise Machinery("record ids not unique")
        failing = {}
        chunks = [records] if not chunk else [records[i:i + chunk] for i in range(0, len(records), chunk)]
        for ci, part in enumerate(chunks):
            self._nval = getattr(self, "_nval", 0) + 1
            tf = self.work / f"trace_{module}_{self._nval}.ndjson"
            with tf.open("w") as fh:
                for rec in part:
                    fh.write(json.dumps(rec, separators=(",", ":")) + "\n")
            r = run_tlc(module, cfg, workdir=self.work, workers=1,
                        env={"TRACE_FILE": str(tf)}, xss=xss, timeout=timeout)
            self.trace_runs.append(dict(module=module, records=len(part), wall_s=round(r.wall, 1)))
            if r.rc != 0 or r.errors:
                raise Machinery(
                    f"trace validation machinery failed on {module}: rc={r.rc} {r.errors[:3]}\n{r.out[-2500:]}")
            done = r.tuples("CONSUMED")
            if not done or parse_tuple_fields(done[-1])[1] != len(part):
                raise Machinery(f"{module}: TLC did not consume all {len(part)} records: {done[-1:]}")
            self.states += r.distinct
            self.transitions += r.generated
            for raw in r.tuples("VERDICT"):
                f = parse_tuple_fields(raw)
                failing.setdefault(f[1], [])
                cl = f[2] if isinstance(f[2], list) else [f[2]]
                for c in cl:
                    if c not in failing[f[1]]:
                        failing[f[1]].append(c)
            self.log(f"TLC trace {module}: {len(part)} records judged in {r.wall:.1f}s, "
                     f"{sum(1 for x in part if x['id'] in failing)} rejected")
        self.traces += len(records) - len(failing)
        return failing

    # -- verdicts ------------------------------------------------------------------
    def violation(self, clause, key, detail, replay=None):
        """Register a violation.  key = canonical identification of the failing input /
        call site / history; matched against known_findings.json."""
        full = f"{clause} {key}"
        for k in self.known:
            if ("key" in k and k["key"] == full) or ("key_regex" in k and re.fullmatch(k["key_regex"], full)):
                if (k["what"], full) not in [(a, b) for a, b in self.known_hit]:
                    self.known_hit.append((k["what"], full))
                return
        h = hashlib.sha1(full.encode()).hexdigest()[:10]
        path = self.work / "replay" / f"{self.pid}_{h}.json"
        path.write_text(json.dumps(
            {"property": self.pid, "clause": clause, "key": key, "detail": detail, "case": replay},
            indent=1, default=str))
        self.violations.append((clause, key, detail, str(path)))

    # -- finish --------------------------------------------------------------------
    def finish(self):
        wall = time.time() - self.t0
        cov = {
            "evaluations": max(self.evaluations, 0),
            "distinct_nontrivial": len(self.keys),
            "rule": self.rule,
            "samples": self.samples or ["<none recorded>"],
            "states": self.states,
            "transitions": self.transitions,
            "traces_validated_against_impl": self.traces,
            "trusted_base": self.trusted,
            "model_checking_runs": self.mc_runs,
            "trace_validation_runs": self.trace_runs[:20],
            "known_findings_hit": [w for w, _ in self.known_hit],
        }
        if self.exhaustive is not None:
            cov["exhaustive"] = bool(self.exhaustive)
        cov.update(self.notes)
        ev = {
            "property_id": self.pid,
            "tier": self.tier,
            "seed": self.seed,
            "level": self.level,
            "coverage": cov,
            "assumptions": self.assumptions,
            "wall_s": round(wall, 2),
            "violations": len(self.violations),
        }
        EVIDENCE.mkdir(parents=True, exist_ok=True)
        (EVIDENCE / f"{self.pid}.json").write_text(json.dumps(ev, indent=1, default=str) + "\n")
        seen = set()
        for what, full in self.known_hit:
            if what in seen:
                continue
            seen.add(what)
            keys = [f for w, f in self.known_hit if w == what]
            print(f"KNOWN-FINDING: property={self.pid} {what} [{len(keys)} case(s) in this run, e.g. {keys[0][:200]}]")
        if self.violations:
            shown = set()
            for clause, key, detail, path in self.violations[:40]:
                print(f"VIOLATION property={self.pid} replay={path}")
                if (clause) not in shown:
                    shown.add(clause)
                    print(f"  clause={clause} case={key} {detail}")
            print(f"[{self.pid}] {len(self.violations)} violation(s) in {wall:.1f}s")
            return 1
        print(f"[{self.pid}] OK tier={self.tier} seed={self.seed}: {self.evaluations} cases "
              f"({len(self.keys)} distinct non-trivial), {self.states} TLC states, "
              f"{self.traces} impl traces accepted, {wall:.1f}s")
        return 0


# ----------------------------------------------------------------------------------
# import virocon from the working tree, with hooks on


def import_virocon():
    os.environ.setdefault("VIROCON_VERIF", "1")
    os.environ.setdefault("MPLBACKEND", "Agg")
    p = str(REPO)
    if p not in sys.path:
        sys.path.insert(0, p)
    vend = str(VERIF / ".vendor")
    if vend not in sys.path:
        sys.path.append(vend)
    import virocon  # noqa

    f = Path(virocon.__file__).resolve()
    if REPO.resolve() not in f.parents:
        raise Machinery(f"virocon imported from {f}, not from {REPO}")
    return virocon
