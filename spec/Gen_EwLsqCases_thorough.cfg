SPECIFICATION Spec
CONSTANTS ZPWeights = {"none", "linear", "quadratic", "cubic", "array"}  ZPSizes = {30, 200, 1000}  NSet = {30, 200, 1000, 5000}  Reps = {1, 2, 3, 4, 5}
CHECK_DEADLOCK FALSE
INVARIANT Emit
