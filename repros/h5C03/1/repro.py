"""DirectSamplingContour with a single-precision alpha: 1 - alpha is formed in
float32 (same defect class as e294209 for IFORM/ISORM), so the tangent lines are
not at the empirical (1 - alpha) quantile; and n = int(100 / alpha) is evaluated
in float32, so a different number of points is drawn."""
import sys
import numpy as np
from virocon import DirectSamplingContour


class Model:
    n_dim = 2

    def __init__(self):
        self.asked = []

    def draw_sample(self, n, *, random_state=None):
        self.asked.append(n)
        return np.random.default_rng(0).lognormal(size=(n, 2))


fail = False
rng = np.random.default_rng(1)
sample = rng.pareto(1.0, size=(1000, 2))  # heavy tail, n >= 50
step = 5
N = 360 // step
for a32 in [np.float32(1e-4), np.float32(0.01), np.float32(0.1)]:
    a64 = float(a32)  # exactly the same real number
    c32 = DirectSamplingContour(Model(), a32, deg_step=step, sample=sample).coordinates
    c64 = DirectSamplingContour(Model(), a64, deg_step=step, sample=sample).coordinates
    worst32 = worst64 = 0.0
    for k in range(N):
        ang = np.deg2rad((90 - k * step) % 360)
        nrm = np.array([np.cos(ang), np.sin(ang)])
        q = np.quantile(sample @ nrm, 1 - a64)  # oracle, double precision
        scale = max(abs(q), 1.0)
        for co, which in ((c32, 32), (c64, 64)):
            e = max(abs(co[k] @ nrm - q), abs(co[(k + 1) % N] @ nrm - q)) / scale
            if which == 32:
                worst32 = max(worst32, e)
            else:
                worst64 = max(worst64, e)
    print(f"alpha={a32!r}: rel. offset error float32 alpha {worst32:.3e}, "
          f"same value as Python float {worst64:.3e}")
    if worst32 > 1e-9:
        fail = True

for a32 in [np.float32(0.05), np.float32(0.1), np.float32(0.2)]:
    m = Model()
    DirectSamplingContour(m, a32, deg_step=30)
    expected = int(100 / float(a32))
    print(f"alpha={a32!r}: drew n={m.asked[0]}, int(100/alpha)={expected}")
    if m.asked[0] != expected:
        fail = True

sys.exit(1 if fail else 0)
