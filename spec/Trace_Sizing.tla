---------------------------- MODULE Trace_Sizing ----------------------------
EXTENDS Sizing, Json, IOUtils, TLC
TraceLog == ndJsonDeserialize(IOEnv.TRACE_FILE)
VARIABLE l
Clauses(r) ==
  CASE r.kind = "alpha" ->
         (* |alpha * rp * 8766 - sd| <= 1e-9 * sd, all in integer units given by the driver (value * 1e9) *)
         << <<"CalculateAlpha", Within(r.lhs, r.rhs, 2 + r.rhs \div 100000000)>> >>
    [] r.kind = "defaultn" -> << <<"DefaultSampleSize", DefaultN(r.n, r.a, r.b)>> >>
    [] r.kind = "marginaln" -> << <<"MarginalIcdfSampleSize", MarginalN(r.n, r.s, r.t, r.f, r.g)>> >>
    [] r.kind = "conditionaln" -> << <<"ConditionalIcdfSampleSize", ConditionalN(r.n, r.s, r.t, r.f, r.g)>> >>
    [] r.kind = "axes" -> << <<"AxesTable", r.nint <= 16 => ~r.raised /\ r.rows = AxesTable[r.nint][1] /\ r.cols = AxesTable[r.nint][2]>>,
                             <<"AxesEnough", r.nint <= 16 => AxesEnough(r.nint)>>,
                             <<"TooManyIntervalsRejected", r.nint > 16 => r.raised>> >>
Verdict(r) == Failing(Clauses(r))
Init == l = 1
Next == /\ l <= Len(TraceLog)
        /\ LET r == TraceLog[l] v == Verdict(r) IN
             IF v = <<>> THEN TRUE ELSE PrintT(<<"VERDICT", r.id, v>>)
        /\ l' = l + 1
Spec == Init /\ [][Next]_l
Consumed == l = Len(TraceLog) + 1 => PrintT(<<"CONSUMED", l - 1>>)
=============================================================================
