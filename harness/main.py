"""CLI: ./check <ID> [--tier quick|thorough] [--replay FILE]"""
import argparse
import importlib
import json
import os
import sys
import traceback

from .common import Ctx, Machinery

LEVELS = {}


def main():
    ap = argparse.ArgumentParser()
    ap.add_argument("pid")
    ap.add_argument("--tier", default=os.environ.get("VERIF_TIER", "quick"), choices=["quick", "thorough"])
    ap.add_argument("--replay", default=None)
    a = ap.parse_args()
    seed = int(os.environ.get("VERIF_SEED", "0") or 0)
    pid = a.pid.upper()
    try:
        mod = importlib.import_module(f"harness.{pid.lower()}")
    except ModuleNotFoundError as e:
        print(f"no check for {pid}: {e}")
        return 2
    case = json.load(open(a.replay)) if a.replay else None   # before Ctx wipes .work/<id>
    ctx = Ctx(pid, a.tier, seed, getattr(mod, "LEVEL", "model_checking"))
    try:
        if a.replay:
            if not hasattr(mod, "replay"):
                print(f"{pid}: replay not supported by this check; case was:\n{json.dumps(case, indent=1)[:4000]}")
                return 2
            mod.replay(ctx, case)
        else:
            mod.run(ctx)
        return ctx.finish()
    except Machinery as e:
        print(f"[{pid}] MACHINERY FAILURE: {e}")
        if ctx.violations:
            # violations registered before the machinery failed are real verdicts: report them
            ctx.assumptions.append(f"run ended early with a machinery failure: {e}"[:300])
            return ctx.finish()
        return 2
    except Exception:
        traceback.print_exc()
        print(f"[{pid}] MACHINERY FAILURE (unexpected exception in harness)")
        return 2


if __name__ == "__main__":
    sys.exit(main())
