SPECIFICATION Spec
CONSTANTS NPts = 3  Need = 5  CacheFeedsMarginal = FALSE  ThreadMarginal = FALSE
CHECK_DEADLOCK FALSE
INVARIANT Reproducible
INVARIANT UnseededDiffer
INVARIANT SeedsDiffer
