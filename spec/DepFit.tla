------------------------------- MODULE DepFit -------------------------------
(* The register / callback protocol of virocon.dependencies.DependenceFunction.         *)
(*                                                                                      *)
(* A dependence function g that uses other dependence functions (its conditioners) as   *)
(* parameters registers itself with each of them at construction.  A user call fit(f)   *)
(* stores the data and fits f only if f "may fit"; after every fit f calls callback on  *)
(* its dependents in registration order; callback marks the caller as fitted, sets      *)
(* may-fit and re-fits if data were stored earlier.  One user call is ONE action whose  *)
(* effect is that synchronous cascade (recursive operators over a threaded state).      *)
(*                                                                                      *)
(* callback sets may-fit once ALL conditioners have reported in                          *)
(* (`dependent_parameters.values() <= _fitted_conditioners`).  Up to the repair of D40   *)
(* the code tested the reverse inclusion, which is true from the first callback on, so   *)
(* that a function with two conditioners was fitted before the second one was - the      *)
(* end-of-round property still held in the model because every later callback re-fits,   *)
(* but the premature fit runs with a conditioner at its start parameters and fails for   *)
(* shapes that are not finite there.  Mutations (constant Mutation):                      *)
(*   "norefit"        callback does not re-fit an already fitted function; must violate   *)
(*                    FittedAfterConditioners                                            *)
(*   "subsetreversed" the inclusion as written before D40; must violate NoPrematureFit    *)
EXTENDS DepFitOps, TLC, Json

CONSTANTS MaxRound,     \* number of fit rounds (round 1 = first fit, later rounds = re-fit)
          Mutation,     \* "none" | "norefit" | "subsetreversed" (see above)
          EmitBeh       \* TRUE: print every complete behaviour as JSON (leg R)

VARIABLES g,        \* index into Graphs
          decl,     \* declaration (construction) order: a permutation of F respecting Deps
          st,       \* protocol state (see DepFitOps!InitState)
          round, called, hist

vars == <<g, decl, st, round, called, hist>>

G == Graphs[g]
Fs == FsOf(G)

Init == /\ g \in 1..Len(Graphs)
        /\ decl \in {p \in Perms(FsOf(Graphs[g])) : TopoOk(Graphs[g], p)}
        /\ st = InitState(Graphs[g])
        /\ round = 1 /\ called = {} /\ hist = <<>>

Fit(f) == /\ f \in Fs \ called
          /\ LET s == FitCall(G, decl, Mutation, [st EXCEPT !.log = <<>>], f, round) IN
               /\ st' = s
               /\ hist' = Append(hist, [op |-> "fit", f |-> f, d |-> round])
          /\ called' = called \cup {f}
          /\ UNCHANGED <<g, decl, round>>

NextRound == /\ called = Fs /\ round < MaxRound
             /\ round' = round + 1 /\ called' = {}
             /\ hist' = Append(hist, [op |-> "round", f |-> "", d |-> round + 1])
             /\ UNCHANGED <<g, decl, st>>

Next == (\E f \in Fs : Fit(f)) \/ NextRound
Spec == Init /\ [][Next]_vars

(* ---- the property: at the end of every round every function has the parameters      *)
(* obtained by fitting it to this round's data AFTER all its conditioners were fitted   *)
FittedAfterConditioners == called = Fs => Consistent(G, st, round)

(* no function is ever fitted while one of its conditioners still has its start          *)
(* parameters (such a fit may fail, and its result is the start of the final fit)         *)
NoPrematureFit ==
    \A f \in Fs : st.pv[f].kind = "fit" => \A c \in DepSet(G, f) : st.pv[f].conds[c].kind = "fit"

(* a function without conditioners is fitted at once by the user call *)
IndependentFitImmediately ==
    \A f \in Fs : DepSeq(G, f) = <<>> /\ f \in called => st.pv[f].kind = "fit" /\ st.pv[f].data = round

Done == called = Fs /\ round = MaxRound
Emit == Done /\ EmitBeh =>
          PrintT(<<"BEH", ToJson([graph |-> G.name, decl |-> decl, hist |-> hist])>>)
=============================================================================
