----------------------------- MODULE DistLawsOps -----------------------------
(* The laws that tie cdf F, icdf G and pdf f of one distribution together (C05), stated  *)
(* over a finite TABLE: an increasing grid x_1 < ... < x_n over and around the support,  *)
(* with the measured values in fixed point.  Used twice:                                  *)
(*   - DistLaws.tla checks with TLC that the clause operators accept the table of every   *)
(*     exact small discrete distribution and reject a perturbed table;                    *)
(*   - Trace_C05.tla judges the tables measured on virocon's real classes.                *)
(* No variables, no constants.                                                            *)
EXTENDS Integers, Sequences, FiniteSets, Fix

----------------------------------------------------------------------------
(* order laws: need no tolerance, rounding to fixed point is monotone                     *)

(* cdf values non-decreasing along the grid *)
Monotone(F) == IsSorted(F)

(* side[i] = -1 / 0 / 1: grid point left of / in / right of the (closed) support.         *)
(* 0 <= F <= one everywhere; exactly 0 left of the support, exactly one right of it       *)
Range01(F, side, one) ==
    \A i \in 1..Len(F) :
       /\ 0 <= F[i] /\ F[i] <= one
       /\ (side[i] = -1 => F[i] = 0)
       /\ (side[i] = 1 => F[i] = one)

(* the table reaches both ends: F <= tol at its first point, >= one - tol at its last      *)
ReachesEnds(F, one, tol) == F[1] <= tol /\ F[Len(F)] >= one - tol

(* sgn[i] = -1 / 0 / 1: sign of the measured pdf value (exact zero = 0) *)
PdfNonNeg(sgn) == \A i \in 1..Len(sgn) : sgn[i] >= 0
PdfZeroOutsideSupport(sgn, side) == \A i \in 1..Len(sgn) : side[i] # 0 => sgn[i] = 0

----------------------------------------------------------------------------
(* pdf is the derivative of cdf.  For a point x and a small h the slope                    *)
(*      (F(x + h) - F(x - h)) / (2h)                                                       *)
(* is the mean of f over [x-h, x+h] (fundamental theorem of calculus), hence lies between  *)
(* the minimum and the maximum of f on that interval.  h is 1e-3 of the local length       *)
(* scale (distance to the support boundary, inter-quartile range), so f has at most one    *)
(* extremum inside and differs there from the three tabulated values f(x-h), f(x), f(x+h)  *)
(* by O((h/w)^2) <= 1e-6 relative.  Allowed: 1e-3 relative (relDiv = 1000) plus `unit`     *)
(* fixed-point units for rounding (4 values rounded to 1/2 unit each).  A pdf that is off  *)
(* by a constant factor, or belongs to other parameters, misses by O(1) relative.          *)
DerivRelDiv == 1000
SlopeBetween(lo, mid, hi, slope, unit) ==
    LET mn == Min2(lo, Min2(mid, hi))
        mx == Max2(lo, Max2(mid, hi))
    IN /\ slope >= mn - (mn \div DerivRelDiv) - unit
       /\ slope <= mx + (mx \div DerivRelDiv) + unit
PdfIsDerivative(dlo, dmid, dhi, dslope, unit) ==
    \A k \in 1..Len(dslope) : SlopeBetween(dlo[k], dmid[k], dhi[k], dslope[k], unit)

----------------------------------------------------------------------------
(* exact discrete form of the round trips (Galois connection between F and its             *)
(* generalised inverse G(p) = min {x : F(x) >= p}), used by DistLaws.tla                   *)
GaloisP(F, G, p) == F[G[p]] >= p /\ (G[p] > 1 => F[G[p] - 1] < p)
GaloisX(F, G, x) == G[F[x]] <= x

----------------------------------------------------------------------------
(* tolerances of the measured tables (Trace_C05).  Fixed point: probabilities in 1e-9,    *)
(* relative errors in 1e-12, array-kind differences in 1e-15.                              *)

(* cdf against the documented closed form: absolute 2e-9 (scipy's special functions are   *)
(* accurate to ~1e-13 in the body; the von Mises cdf switches to a normal approximation    *)
(* with ~1e-9 error for kappa >= 50) + 1 unit for rounding both values                     *)
CdfTolE9 == 3
(* pdf / icdf against the documented closed form: 1e-8 relative, or 1e-9 absolute in       *)
(* units of 1/scale (pdf) resp. scale (icdf)                                               *)
RelTolE12 == 10000
AbsTolE12 == 1000
(* icdf: G(p) is accepted if the documented cdf brackets p on [G(p) - d, G(p) + d] with     *)
(*    d = 1e-8 * dist + 8 ulp,  dist = distance of G(p) from the nearest finite boundary of   *)
(*    the support (max(|G|, inter-quartile range) for the normal distribution)                 *)
(* i.e. 1e-8 RELATIVE to the distance from the boundary - for a support starting at 0 this is  *)
(* the relative error of the quantile itself, also where the quantile is 1e-20 of the scale    *)
(* (small second shape of the exponentiated Weibull, far lower tail).                          *)
(* Body, 1e-6 <= p <= 1 - 1e-6: p itself is taken up to 1e-12 absolute (<= 1e-6 relative):     *)
(* the special functions behind cdf are accurate to ~1e-13 ABSOLUTE (von Mises series:         *)
(* measured 9e-15 at kappa = 9, 2e-13 at kappa = 40).                                          *)
IcdfPTolE15 == 1000
(* Far tails, p < 1e-6 or p > 1 - 1e-6: p is taken up to 16 ulp of p only (what a double can   *)
(* carry: p = 1e-16 exactly, p = 1 - 1e-9 to 1e-7 relative in 1 - p); a quantile function that *)
(* forms 1 - p^(1/delta) or log(1 - q) without log1p/expm1 loses all digits there.  The same  *)
(* 16 ulp of p are allowed in the far-tail round trip F(G(p)) = p (measured on the unchanged    *)
(* tree: 7 ulp for the exponentiated Weibull with delta = 25 at p = 1 - 1e-12, where rounding    *)
(* p^(1/delta) to a double alone moves p by delta/2 ulp).                                        *)
IcdfPUlps == 16
(* round trips: 1e-7 relative - F(G(p)) - p relative to min(p, 1-p) for every tabulated p    *)
(* from 1e-16 to 1 - 1e-12, G(F(x)) - x relative to the distance of x from the nearest finite  *)
(* support boundary (down to x = boundary + 1e-9 inter-quartile ranges) - in excess of the     *)
(* representation error of the intermediate double (8 ulp of G(p) times the pdf + 4 ulp of p,  *)
(* resp. 8 ulp of F(x) over the pdf + 8 ulp of x)                                              *)
RoundTripTolE12 == 100000
(* scalar / list / ndarray: same elementwise operations; 1e-13 relative allows a last-bit *)
(* difference between SIMD and scalar loops of exp/log/pow                                 *)
KindsTolE15 == 100
(* mean and standard deviation of the norm-fit log-normal, by numerical quadrature of the  *)
(* measured pdf (quadrature error <= 1e-8): 1e-6 relative                                  *)
MomentTolE12 == 1000000

----------------------------------------------------------------------------
(* parameter classes (leg R for the formula half): every family has 2..4 class slots,      *)
(* each slot takes a class 0 / 1 / 2:                                                     *)
(*   shape-like slot   0: < 1      1: = 1      2: > 1                                      *)
(*   scale-like slot   0: ~1e-3    1: ~1       2: ~1e3   (several orders of magnitude)     *)
(*   location slot     0: = 0      1: > 0      2: < 0                                      *)
(* Slot meaning per family (harness/distfam.py LAW_SLOTS concretises them):               *)
(*   Weibull <<beta, alpha, gamma>>   LogNormal <<sigma, exp(mu)>>   Normal <<sigma, mu>>  *)
(*   ExpWeibull <<beta, alpha, delta>>   GenGamma <<c, 1/lambda_, m>>   VonMises <<kappa,  *)
(*   mu>>   NormFit <<sigma_norm/mu_norm, mu_norm>>   ScipyGamma <<a, scale, loc>>         *)
(*   ScipyRayleigh <<scale, loc>>   ScipyBeta <<a, scale, loc, b>>                         *)
LawFamilies == {"Weibull", "LogNormal", "Normal", "ExpWeibull", "GenGamma", "VonMises",
                "NormFit", "ScipyGamma", "ScipyRayleigh", "ScipyBeta"}
NSlots(fam) == CASE fam \in {"Weibull", "ExpWeibull", "GenGamma", "ScipyGamma"} -> 3
                 [] fam = "ScipyBeta" -> 4
                 [] OTHER -> 2
AllClasses(fam) == [1..NSlots(fam) -> 0..2]
(* quick tier: an orthogonal array of strength 2 (every pair of slot classes occurs):      *)
(* all 9 for two slots; 9 of 27 resp. 9 of 81 for three / four slots                        *)
QuickSel(fam, cl) ==
    CASE NSlots(fam) = 2 -> TRUE
      [] NSlots(fam) = 3 -> cl[3] = (cl[1] + cl[2]) % 3
      [] NSlots(fam) = 4 -> cl[3] = (cl[1] + cl[2]) % 3 /\ cl[4] = (cl[1] + 2 * cl[2]) % 3
LawClasses(fam, tier) ==
    IF tier = "quick" THEN {cl \in AllClasses(fam) : QuickSel(fam, cl)} ELSE AllClasses(fam)
LawCases(tier) == UNION {{<<fam, cl>> : cl \in LawClasses(fam, tier)} : fam \in LawFamilies}

(* extreme-but-admissible values of one slot (the other slots at class 1, another shape slot  *)
(* of the family at every class 0 / 1 / 2):                                                  *)
(*   shape-like slot  level 1..4:  0.1, 0.3, 0.5, 25  (log-normal sigma 0.05, 0.1, 0.3, 4;     *)
(*                    von Mises kappa 0.05, 0.1, 0.3, 45; norm-fit ratio 0.05, 0.1, 0.3, 5)     *)
(*   scale-like slot  level 1..2:  1e-8, 1e8                                                   *)
ShapeSlots(fam) == CASE fam \in {"ExpWeibull", "GenGamma"} -> {1, 3}
                     [] fam = "ScipyBeta" -> {1, 4}
                     [] fam \in {"Weibull", "LogNormal", "VonMises", "NormFit", "ScipyGamma"} -> {1}
                     [] OTHER -> {}
ScaleSlots(fam) == CASE fam \in {"Normal", "ScipyRayleigh"} -> {1}
                     [] fam = "VonMises" -> {}
                     [] OTHER -> {2}
(* norm-fit ratio sigma_norm / mu_norm additionally 1e-9, 1e-6, 1e-4 (levels 5..7): the     *)
(* variance of the underlying normal is log(1 + ratio^2), which needs log1p there            *)
ExtLevels(fam, slot) == IF slot \in ShapeSlots(fam) THEN (IF fam = "NormFit" THEN 1..7 ELSE 1..4) ELSE 1..2
ExtBases(fam, slot) ==
    {cl \in AllClasses(fam) :
        \A k \in 1..NSlots(fam) :
           (k = slot \/ k \notin ShapeSlots(fam) \/ slot \notin ShapeSlots(fam)) => cl[k] = 1}
ExtremeCasesOf(fam) ==
    UNION {{<<fam, cl, <<slot, lev>> >> : cl \in ExtBases(fam, slot), lev \in ExtLevels(fam, slot)} :
             slot \in ShapeSlots(fam) \cup ScaleSlots(fam)}
(* underflow classes (slot 9): a large first and a tiny second shape, where z = (x/alpha)^beta *)
(* resp. (lambda_ x)^c is below 1e-300 over most of the support although F(x) is an ordinary   *)
(* number (these are the vectors the library's own fits return for data with a sharp end       *)
(* point).  Code of the case (harness/c05.py UNDERFLOW decodes it):                             *)
(*   ExpWeibull 1..16 = 1 + ib + 2 id + 8 ia:  beta = 100, 500;  delta = 0.3, 0.01, 0.002,      *)
(*                                             0.001;  alpha = 1, 1000                           *)
(*   GenGamma   1..8  = 1 + im + 2 ic + 4 il:  m = 0.05, 0.002;  c = 100, 500;  lambda_ = 1,     *)
(*                                             0.001                                             *)
(* The tables get the extra grid points x / scale = 0.01 .. 1.                                  *)
UnderflowCases ==
    {<<"ExpWeibull", <<2, 1, 0>>, <<9, code>> >> : code \in 1..16}
      \cup {<<"GenGamma", <<2, 1, 0>>, <<9, code>> >> : code \in 1..8}
(* overflow classes (slot 8): a LARGE first shape.  The documented densities of these families     *)
(* carry a power  t^e  of  t = (x - loc) / scale  (Weibull, exponentiated Weibull: e = beta - 1;     *)
(* generalised gamma: e = c m - 1; gamma: e = a - 1) times  exp(-t^beta)  resp.  exp(-t): far in    *)
(* the upper tail,  t > 10^(308 / e),  the power exceeds the double range although the density       *)
(* there is an ordinary number - 0 to double precision (an implementation that multiplies the two     *)
(* factors forms inf * 0).  Code of the case (harness/c05.py overflow_par decodes it):                *)
(*   Weibull    1..4: (alpha, beta, gamma) = (1, 100, 0), (2, 300, 0.5), (1, 1000, 0), (10, 60, 0)    *)
(*   ExpWeibull 1..2: (alpha, beta, delta) = (1, 100, 2), (1000, 1000, 0.5)                            *)
(*   GenGamma   1..2: (m, c, lambda_) = (2, 50, 1), (0.5, 1000, 0.001)                                 *)
(*   ScipyGamma 1..2: (a, loc, scale) = (100, 0, 1), (1000, 0.5, 2)                                    *)
(* (class vector nominal).  EVERY table of these four families (not only slot 8) gets the probes       *)
(* x = loc + scale * t,  t = 1.5 T, 10 T, 1e6 T, T^2  with  T = 10^(308 / e)  wherever e > 0 and they  *)
(* are finite (shape 25 of the extreme levels: T = 7e12), every table with an unbounded support two    *)
(* abscissae 1e3 / 1e6 times beyond its 1 - 1e-12 quantile; r.novf counts the tabulated points whose  *)
(* power term overflows (UpperTailProbed: at least 3 in every slot-8 table).                           *)
OverflowCases ==
    {<<"Weibull", <<2, 1, 0>>, <<8, code>> >> : code \in 1..4}
      \cup {<<fam, <<2, 1, 0>>, <<8, code>> >> : fam \in {"ExpWeibull", "GenGamma", "ScipyGamma"}, code \in 1..2}
MinOverflowProbes == 3
ExtremeCases == UNION {ExtremeCasesOf(fam) : fam \in LawFamilies} \cup UnderflowCases \cup OverflowCases

=============================================================================
