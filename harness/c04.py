"""C04 - AND / OR contour points have empirical exceedance alpha within allowed_error.

M: TLC explores the per-ray search state machine (spec/AndOrSearch.tla) for every threshold
   profile of a small sample; mutation EmitNext must violate PointIsLastEvaluated.
V: real AndContour / OrContour computations; the loop's hook events (VIROCON_VERIF=1) and the
   returned coordinates are validated by spec/Trace_C04.tla: returned points must be the
   rays' final vectors (OR: those inside the range, in order), exceedance re-measured on the
   sample must be within tolerance unless the warning was raised; whether every ray's event
   sequence is a behaviour of the search spec (start, step recurrence, continue/stop decisions,
   cap) is reported as conformance in the evidence, not as a verdict.
   Input classes besides the numbers: type of alpha / deg_step (Python, np.float64, np.float32),
   container and layout of the supplied sample, samples with exact ties on searched coordinates
   (zero-inflated variables, rounded observations) - 'exceeding' is strict.
"""
import math
import warnings
from fractions import Fraction

import numpy as np

from .common import Q, Machinery, import_virocon

LEVEL = "model_checking"

ALPHAS = [(1, 5), (1, 10), (1, 20), (3, 20), (1, 50), (1, 100), (1, 200), (1, 1000)]
ERRS = [5, 10, 50, 100, 200]  # /1000
STEPS = [1, 2, 3, 5, 7, 10, 15, 30]
OR_RANGES = [(10, 80), (0, 90), (5, 60), (20.5, 70), (10, 45.5)]


def models(vc):
    def power3(x, a, b, c):
        return a + b * x**c

    def exp3(x, a, b, c):
        return a + b * np.exp(c * x)

    def lin(x, a, b):
        return a + b * x

    out = []
    DF = vc.DependenceFunction
    m1 = vc.GlobalHierarchicalModel([
        {"distribution": vc.WeibullDistribution(alpha=2.776, beta=1.471, gamma=0.8888)},
        {"distribution": vc.LogNormalDistribution(), "conditional_on": 0,
         "parameters": {"mu": _set(DF(power3), 0.1, 1.489, 0.1901), "sigma": _set(DF(exp3), 0.04, 0.1748, -0.2243)}},
    ])
    out.append(("weibull-lognormal", m1))
    m2 = vc.GlobalHierarchicalModel([
        {"distribution": vc.ExponentiatedWeibullDistribution(alpha=0.207, beta=0.684, delta=7.79)},
        {"distribution": vc.WeibullDistribution(f_gamma=0), "conditional_on": 0,
         "parameters": {"alpha": _set(DF(lin), 3.0, 1.5), "beta": _set(DF(lin), 2.0, 0.2)}},
    ])
    out.append(("expweibull-weibull", m2))
    m3 = vc.GlobalHierarchicalModel([
        {"distribution": vc.LogNormalDistribution(mu=0.5, sigma=0.6)},
        {"distribution": vc.GeneralizedGammaDistribution(m=1.6, c=1.3, lambda_=0.4)},
    ])
    out.append(("independent lognormal-gengamma", m3))
    return out


def _set(df, *vals):
    df.parameters = dict(zip(df.parameters.keys(), vals))
    return df


def thetas_nominal(lo, hi, step):
    k = int(math.ceil((hi - lo) / step - 1e-12))
    return [lo + i * step for i in range(max(k, 0))]


def alpha_object(case):
    """The alpha handed to the code: Python float, np.float64 or np.float32 (which is ANOTHER real
    number than a / b, off by up to 6e-8 relative)."""
    a, b = case["alpha"]
    t = case.get("atype", "float")
    return np.float32(a / b) if t == "float32" else np.float64(a / b) if t == "float64" else a / b


def step_object(case):
    t = case.get("stype", "int")
    return np.float32(case["step"]) if t == "float32" else float(case["step"]) if t == "float" else case["step"]


def tie_sample(sample, case, rng):
    """Sample classes with exact ties ON the coordinates a search visits (the theta = 0 ray has
    vy = 0 exactly; a lattice sample meets lattice coordinates): zero-inflated variables (calms,
    censored records) and heavily rounded observations."""
    t = case.get("tiecls", "none")
    if t == "none":
        return sample
    sample = np.array(sample, dtype=float)
    n = len(sample)
    if t.startswith("round"):
        grid = {"round1": 1.0, "round05": 0.5}[t]
        return np.round(sample / grid) * grid
    frac = float(rng.uniform(0.03, 0.3))
    if t in ("zero_y", "zero_xy"):
        sample[rng.random(n) < frac, 1] = 0.0
    if t in ("zero_x", "zero_xy"):
        sample[rng.random(n) < frac, 0] = 0.0
    return sample


def contain(sample, cont):
    if cont == "dataframe":
        import pandas as pd
        return pd.DataFrame(sample, columns=["hs", "tz"])
    if cont == "list":
        return sample.tolist()
    if cont == "float32":
        return sample.astype(np.float32)
    return sample


def same_decisions(counts, n, a, b, en, ed, alpha_true):
    """The tolerance test of every count is the same for alpha = a / b and for the real number
    alpha_true (a single-precision alpha), in exact arithmetic."""
    e = Fraction(en, ed)
    for c in set(counts):
        pe = Fraction(c, n)
        if (abs(pe - Fraction(a, b)) / Fraction(a, b) <= e) != (abs(pe - alpha_true) / alpha_true <= e):
            return False
    return True


def one_contour(vc, rid, case, model):
    a, b = case["alpha"]
    alpha = alpha_object(case)
    en = case["err"]
    mode = case["mode"]
    rng = np.random.default_rng(case["seed"])
    n = case["n"]
    sample = None
    if case["supply"]:
        sample = model.draw_sample(n, random_state=rng)
        if case["ties"]:
            sample = np.round(sample, 1)
        sample = tie_sample(sample, case, rng)
        # memory layout of the caller's array is an input class: column-major arrays are what
        # DataFrame.values / np.array([x, y]).T hand over, and their column views are contiguous
        if case.get("layout") == "F":
            sample = np.asfortranarray(sample)
        elif case.get("layout") == "T":
            sample = np.array([sample[:, 0].copy(), sample[:, 1].copy()]).T
        # ... and so is the container: DataFrame (what the dataset readers return), list of rows, float32 array
        sample = contain(sample, case.get("cont", "ndarray"))
    sink = []
    hooked = False
    try:
        from virocon import _verif
        _verif.set_sink(sink)
        hooked = True
    except Exception:  # hooks absent: API-level judgement only
        _verif = None
    np.random.seed(case["seed"] % (2**32))
    kw = dict(alpha=alpha, deg_step=step_object(case), sample=sample, allowed_error=en / 1000)
    if not case["supply"]:
        kw["n"] = None if case["defaultn"] else n
    if mode == "or":
        kw.update(lowest_theta=case["range"][0], highest_theta=case["range"][1])
    dyadic = case.get("atype", "float") == "float32"
    alpha_true = Fraction(float(alpha))
    rec = dict(id=rid, mode=mode, a=a, b=b, en=en, ed=1000, exc="", tie=False, hooked=False, n=0,
               thetas=[], rays=[], coords=[], ptcount=[], ptangle=[], nwarn=0, xmaxc=0, ymaxc=0,
               defaultn=bool(case["defaultn"] and not case["supply"]), dyadic=dyadic,
               nref=int((100 / alpha_true).__floor__()) if dyadic else 0, ptties=[])
    # the observations as the caller supplied them, in double precision (a float32 array compared
    # with a Python float would be compared in single precision)
    samp0 = None if sample is None else np.array(sample, dtype=float, order="C", copy=True)
    exc = ""
    contour = None
    with warnings.catch_warnings(record=True) as wl:
        warnings.simplefilter("always")
        try:
            contour = (vc.AndContour if mode == "and" else vc.OrContour)(model, **kw)
        except Exception as e:  # noqa
            exc = type(e).__name__
            rec["excmsg"] = str(e)[:200]
        finally:
            if _verif is not None:
                _verif.set_sink(None)
    rec["exc"] = exc
    rec["nwarn"] = sum(1 for w in wl if issubclass(w.category, UserWarning) and "required precision" in str(w.message))
    if sample is None and contour is not None:
        sample = np.asarray(contour.sample, dtype=float)
    if sample is None:
        # the sample was drawn inside a constructor that raised: nothing can be re-measured.
        # OrContour raises IndexError when every ray result lies beyond 1.1 * max(sample)
        # (no statement of C04 covers that); the record is not judged.
        rec["defaultn"] = False
        if mode == "or" and exc == "IndexError":
            rec["tie"] = True
            rec["exc"] = ""
        return rec
    if samp0 is not None and not np.array_equal(samp0, np.asarray(sample)):
        rec["exc"] = "SampleMutated"
    if samp0 is not None:
        sample = samp0          # exceedances are judged on the observations the caller supplied
    x, y = sample[:, 0], sample[:, 1]
    nn = len(x)
    rec["n"] = nn
    if en * a * nn >= 2**31 or nn * b >= 2**31:
        raise Machinery("case exceeds 32-bit budget")

    def cnt(vx, vy):
        """'exceeding' is STRICT: an observation equal to the point's coordinate does not exceed it"""
        if mode == "and":
            return int(np.logical_and(x > vx, y > vy).sum())
        return int(np.logical_or(x > vx, y > vy).sum())

    def cnt_ge(vx, vy):
        """the count with ties included (not a clause: shows where strictness decides)"""
        if mode == "and":
            return int(np.logical_and(x >= vx, y >= vy).sum())
        return int(np.logical_or(x >= vx, y >= vy).sum())

    lo, hi = (0, 90) if mode == "and" else case["range"]
    rec["thetas"] = [Q(t, 1e6) for t in thetas_nominal(lo, hi, case["step"])]
    xmaxc, ymaxc = 1.1 * float(np.max(x)), 1.1 * float(np.max(y))
    rec["xmaxc"], rec["ymaxc"] = Q(xmaxc, 1e6), Q(ymaxc, 1e6)
    # hook events -> rays
    rays, cur = [], None
    for ev, f in sink:
        if ev.endswith("_iter"):
            if cur is None:
                cur = dict(theta=Q(f["theta"], 1e6), iters=[])
            cur["iters"].append(dict(count=f["count"], rd=Q(f["rel_dist"], 1e8), vx=Q(f["vx"], 1e6), vy=Q(f["vy"], 1e6),
                                     n=f["n"]))
        elif ev.endswith("_ray_end"):
            if cur is None:
                cur = dict(theta=Q(f["theta"], 1e6), iters=[])
            cur.update(vx=Q(f["vx"], 1e6), vy=Q(f["vy"], 1e6), recount=cnt(f["vx"], f["vy"]),
                       angle=Q(math.degrees(math.atan2(f["vy"], f["vx"])), 1e6))
            if mode == "or" and (abs(f["vx"] - xmaxc) < 3e-6 or abs(f["vy"] - ymaxc) < 3e-6):
                rec["tie"] = True
            rays.append(cur)
            cur = None
    rec["rays"] = rays
    rec["hooked"] = bool(hooked and rays)
    if any(it["n"] != nn for r_ in rays for it in r_["iters"]):
        rec["exc"] = "WrongSampleSize"
    if contour is not None:
        c = np.asarray(contour.coordinates, dtype=float)
        rec["coords"] = [[Q(p[0], 1e6), Q(p[1], 1e6)] for p in c]
        ns = len(c) - (1 if mode == "and" else 3)
        rec["ptcount"] = [cnt(p[0], p[1]) for p in c[:max(ns, 0)]]
        rec["ptangle"] = [Q(math.degrees(math.atan2(p[1], p[0])), 1e6) for p in c[:max(ns, 0)]]
        rec["ptties"] = [cnt_ge(p[0], p[1]) - k for p, k in zip(c[:max(ns, 0)], rec["ptcount"])]
    if dyadic:
        counts = list(rec["ptcount"]) + [r_.get("recount", 0) for r_ in rays] + [it["count"] for r_ in rays for it in r_["iters"][-1:]]
        if not same_decisions(counts, nn, a, b, en, 1000, alpha_true):
            rec["tie"] = True       # a / b does not stand for this single-precision alpha here: not judged
    return rec


ATYPES = ("float", "float32", "float64")
STYPES = ("int", "float", "float32")
CONTS = ("ndarray", "dataframe", "list", "float32")
TIECLS = ("none", "zero_y", "none", "zero_x", "none", "round1", "zero_y", "none", "zero_xy", "none", "round05",
          "none", "zero_y", "none")


def gen_cases(ctx):
    rng = np.random.default_rng(ctx.seed + 4)
    ncases = ctx.pick(220, 3000)
    out = []
    for t in range(ncases):
        a, b = ALPHAS[t % len(ALPHAS)]
        alpha = a / b
        mode = "and" if (t // 2) % 2 == 0 else "or"
        supply = (t % 5) != 0
        defaultn = (not supply) and (t % 10 == 0) and alpha >= 0.005
        n = [200, 1000, 5000, int(100 / alpha)][int(rng.integers(0, 4))]
        n = max(200, min(n, 100000))
        out.append(dict(alpha=(a, b), err=ERRS[int(rng.integers(0, len(ERRS)))], mode=mode,
                        step=STEPS[int(rng.integers(0, len(STEPS)))], supply=supply, defaultn=defaultn, n=n,
                        ties=bool(rng.integers(0, 4) == 0), range=OR_RANGES[int(rng.integers(0, len(OR_RANGES)))],
                        model=int(rng.integers(0, 3)), seed=int(rng.integers(0, 2**31)),
                        layout=("C", "F", "T", "C")[(t // 5) % 4] if supply else "C"))
    # argument types, container and tie class of the sample (drawn separately: the cases above stay as they
    # were); the default-n cases rotate through the alpha types against the rotation of the alphas
    rng2 = np.random.default_rng([ctx.seed + 4, 1])
    for t, c in enumerate(out):
        c["atype"] = ATYPES[(t // 10 + t) % 3] if c["defaultn"] else ATYPES[int(rng2.integers(0, 3))]
        c["stype"] = STYPES[int(rng2.integers(0, 3))]
        k = int(rng2.integers(0, len(CONTS)))
        u = int(rng2.integers(0, len(TIECLS)))
        if c["supply"]:
            c["tiecls"] = TIECLS[u]
            c["cont"] = CONTS[k] if c["layout"] == "C" else "ndarray"
        else:
            c["tiecls"], c["cont"] = "none", "ndarray"
    return out


def key_of(c):
    return (f"{c['mode']} model={c['model']} alpha={c['alpha'][0]}/{c['alpha'][1]} err={c['err']}/1000 step={c['step']} "
            f"n={c['n']} supply={c['supply']} defaultn={c['defaultn']} ties={c['ties']} layout={c.get('layout', 'C')} range={c['range']} seed={c['seed']}"
            f" alpha_type={c.get('atype', 'float')} deg_step_type={c.get('stype', 'int')} sample_as={c.get('cont', 'ndarray')}"
            f" tie_class={c.get('tiecls', 'none')}")


def judge(ctx, vc, cases):
    ms = models(vc)
    recs = [one_contour(vc, i + 1, c, ms[c["model"]][1]) for i, c in enumerate(cases)]
    failing = ctx.validate("Trace_C04", "Trace_C04.cfg", recs, xss="256m")
    nwarned = 0
    for c, r in zip(cases, recs):
        ctx.case(key_of(c), nontrivial=(not r["tie"]) and r["exc"] == "" and len(r["coords"]) > 3)
        nwarned += r["nwarn"] > 0
        for clause in failing.get(r["id"], []):
            ctx.violation(clause, key_of(c), f"exc={r['exc']} {r.get('excmsg', '')} nwarn={r['nwarn']} n={r['n']} "
                          f"coords[:3]={r['coords'][:3]}", replay=c)
    return recs, nwarned


def run(ctx):
    vc = import_virocon()
    ctx.rule = ("seeded cases over mode x 3 models x alpha=a/b x allowed_error=e/1000 x deg_step x n x supplied/drawn sample x "
                "rounded (tied) samples x OR theta ranges x type of alpha (float, np.float64, np.float32) x type of deg_step "
                "(int, float, np.float32) x container of the supplied sample (ndarray in three memory layouts, pandas DataFrame, "
                "list of rows, float32 array) x tie class of the supplied sample (none, zero-inflated second / first / both "
                "variables with 3-30 % exact zeros, rounded to 1 or 0.5); distinct = case tuple; non-trivial = contour computed, more than "
                "the closing points returned, no 1e-6 tie at the OR range limit")
    ctx.trusted = ["TLC evaluating spec/AndOrOps.tla (exact rational tolerance test)",
                   "harness re-measurement of exceedance counts on the sample as supplied (double precision) with STRICT > "
                   "and logical and/or",
                   "fractions.Fraction: floor(100 / alpha) of a single-precision alpha; equality of the tolerance decisions "
                   "for a/b and for the single-precision alpha",
                   "hook events in AndContour/OrContour (guarded by VIROCON_VERIF); bound to truth by recounting at the logged vector"]
    ctx.assumptions = ["if the tolerance test is an exact tie in rational arithmetic either loop decision is accepted (float rounding)",
                       "without hook events only the API-level clauses are judged (recorded per record as hooked=false)",
                       "a single-precision alpha is judged with its nominal a/b; records where a tolerance decision differs "
                       "between the two numbers in exact arithmetic are not judged (counted in the notes)"]
    ctx.model_check("AndOrSearch", ctx.pick("MC_AndOrSearch_quick.cfg", "MC_AndOrSearch_thorough.cfg"),
                    must_cover=("Iterate", "Emit"), timeout=3000)
    ctx.model_check("AndOrSearch", "MC_AndOrSearch_mut.cfg", expect_violation="PointIsLastEvaluated")
    cases = gen_cases(ctx)
    recs, nwarned = judge(ctx, vc, cases)
    hooked = sum(1 for r in recs if r["hooked"])
    ctx.notes.update(contours=len(recs), contours_with_hook_events=hooked, contours_with_precision_warning=nwarned,
                     rays=sum(len(r["rays"]) for r in recs),
                     loop_iterations=sum(len(x["iters"]) for r in recs for x in r["rays"]))
    log = (ctx.work / "tlc_Trace_C04_Trace_C04.log").read_text()
    ctx.notes["contours_whose_loop_events_are_a_behaviour_of_AndOrSearch"] = log.count('<<"CONFORMANT"')
    if hooked == 0:
        ctx.assumptions.append("NO hook events were seen in this run: step-level validation degraded to API-level")
    if nwarned == 0:
        raise Machinery("vacuity: no case exercised the max-iteration warning path")
    tied = [r for r in recs if r["exc"] == "" and not r["tie"] and any(k > 0 for k in r["ptties"])]
    ctx.notes.update(contours_with_a_point_tied_with_observations=len(tied),
                     of_these_and_contours=sum(1 for r in tied if r["mode"] == "and"),
                     points_tied_with_observations=sum(1 for r in tied for k in r["ptties"] if k > 0),
                     single_precision_alpha_contours=sum(1 for r in recs if r["dyadic"]),
                     single_precision_alpha_not_judged=sum(1 for r in recs if r["dyadic"] and r["tie"]),
                     default_n_contours=sum(1 for r in recs if r["defaultn"]))
    if not any(r["mode"] == "and" for r in tied):
        raise Machinery("vacuity: no AND contour point had a coordinate tied with observations (strictness of "
                        "'exceeding' was not exercised)")
    r0 = recs[0]
    ctx.sample({"case": key_of(cases[0]), "first_ray": r0["rays"][:1], "coords": r0["coords"][:4], "nwarn": r0["nwarn"]})
    # binding self-test: corrupt one count in one recorded event -> must be rejected
    import copy
    src = next(r for r in recs if r["hooked"] and r["exc"] == "" and not r["tie"])
    bad = copy.deepcopy(src)
    bad["id"] = 1
    last = bad["rays"][0]["iters"][-1]
    last["count"] = last["count"] + max(3, bad["n"] // 5)
    rej = ctx.validate("Trace_C04", "Trace_C04.cfg", [bad], xss="256m")
    if not rej.get(1):
        raise Machinery("self-test: corrupted event count was not rejected")
    # ... and a default sample size that is one too large (what 100 / alpha in single precision yields)
    for dy in (False, True):
        src = next((r for r in recs if r["defaultn"] and r["dyadic"] == dy and r["exc"] == ""), None)
        if src is None:
            raise Machinery(f"vacuity: no default-n contour with dyadic={dy}")
        bad = copy.deepcopy(src)
        bad.update(id=1, n=src["n"] + 1)
        if "DefaultSampleSize" not in ctx.validate("Trace_C04", "Trace_C04.cfg", [bad], xss="256m").get(1, []):
            raise Machinery("self-test: a default sample size off by one was not rejected")
    # growth module (DESIGN section 7 item 3): grid bookkeeping of the highest density contour
    from . import ext_hdcgrid
    ext_hdcgrid.run_ext(ctx, vc)


def replay(ctx, case):
    vc = import_virocon()
    c = case["case"]
    c["alpha"] = tuple(c["alpha"])
    c["range"] = tuple(c["range"])
    judge(ctx, vc, [c])
