------------------------------ MODULE HDCCache ------------------------------
(* Histories of ONE model object (property C02, quantifier "configurations"): contours  *)
(* are computed, the model changes, contours are computed again.  The densities a       *)
(* contour is selected from belong to the state of the model AT THE TIME OF THE CALL.   *)
(*                                                                                      *)
(*   Contour(g)      a highest-density contour on grid g: reads the densities of the    *)
(*                   model, selects the region (HDCOps: order by density, largest       *)
(*                   prefix with cum <= L)                                              *)
(*   ChangeInPlace   the model is changed without model.fit: a distribution attribute,  *)
(*                   a DependenceFunction parameter, distribution.fit, a re-fitted      *)
(*                   dependence function, a replaced distribution                       *)
(*   ModelFit        model.fit(data)                                                    *)
(*                                                                                      *)
(* Deviation Reuse = TRUE: the densities of the previous contour on the same grid are   *)
(* kept with the model and reused; only ModelFit discards them.  UsesCurrentModel /     *)
(* RegionOfCurrentModel must then be violated by Contour, ChangeInPlace, Contour.       *)
EXTENDS HDCOps

CONSTANTS NC,        \* cells of a grid
          MaxV,      \* densities 0..MaxV
          L,         \* the limit (1 - alpha) in the same units
          MaxSteps,
          Reuse

VARIABLES dens,      \* grid -> densities of the model as it is now
          kept,      \* <<>> or <<grid, densities>> remembered from the last contour
          used,      \* <<>> or the densities the last contour was selected from
          region,    \* the region of the last contour
          lastgrid, steps
vars == <<dens, kept, used, region, lastgrid, steps>>

Grids == 1..2
Arrays == [1..NC -> 0..MaxV]

(* the highest-density region of an array: order by value, accumulate, largest prefix <= L *)
RegionOf(a) == LET ord == DescOrder(a) cum == PrefixSums(a, ord, NC)
               IN {ord[k] : k \in {j \in 1..NC : cum[j] <= L}}

Init == /\ dens \in [Grids -> Arrays]
        /\ kept = <<>> /\ used = <<>> /\ region = {} /\ lastgrid = 0 /\ steps = 0

Contour(g) ==
    /\ steps < MaxSteps
    /\ LET a == IF Reuse /\ kept # <<>> /\ kept[1] = g THEN kept[2] ELSE dens[g] IN
         /\ used' = a /\ kept' = <<g, a>> /\ region' = RegionOf(a)
    /\ lastgrid' = g /\ steps' = steps + 1
    /\ UNCHANGED dens

ChangeInPlace ==
    /\ steps < MaxSteps
    /\ dens' \in [Grids -> Arrays] /\ dens' # dens
    /\ used' = <<>> /\ region' = {} /\ lastgrid' = 0 /\ steps' = steps + 1
    /\ UNCHANGED kept

ModelFit ==
    /\ steps < MaxSteps
    /\ dens' \in [Grids -> Arrays] /\ dens' # dens
    /\ kept' = <<>>
    /\ used' = <<>> /\ region' = {} /\ lastgrid' = 0 /\ steps' = steps + 1

Next == (\E g \in Grids : Contour(g)) \/ ChangeInPlace \/ ModelFit
Spec == Init /\ [][Next]_vars

(* the contour was selected from the densities of the model as it is *)
UsesCurrentModel == used # <<>> => used = dens[lastgrid]
(* ... and is therefore its highest-density region: no excluded cell is denser than an     *)
(* enclosed one, content at most L, by the CURRENT densities                              *)
RegionOfCurrentModel ==
    used # <<>> =>
      LET d == dens[lastgrid] IN
        /\ \A r \in region : \A c \in (1..NC) \ region : d[r] >= d[c]
        /\ SumOver(d, region) <= L
=============================================================================
