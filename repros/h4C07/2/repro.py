"""C07: GeneralizedGammaDistribution.draw_sample does not follow the cdf for a
small m (numpy's standard_gamma(m) underflows to 0 inside scipy's gengamma.rvs).

Parameters are the ones of fix 1f0eac2 (m=0.002, c=525, lambda_=1: what the
library's own MLE returns for uniform data). cdf/icdf were repaired there,
draw_sample was not.
"""
import sys
import math
import numpy as np
from virocon import GeneralizedGammaDistribution

n = 1_000_000
eps = math.sqrt(math.log(2 / 1e-12) / (2 * n))  # DKW, error probability 1e-12

m, c, lambda_ = 0.002, 525.0, 1.0
dist = GeneralizedGammaDistribution(m=m, c=c, lambda_=lambda_)

# Independent oracle: F(x) = P(m, z) with z = (lambda_*x)**c, and the lower
# incomplete gamma integral of t**(m-1) * exp(-t) <= t**(m-1) gives
# P(m, z) <= z**m / Gamma(m + 1) rigorously.
x0 = 0.01
F_upper = math.exp(m * c * math.log(lambda_ * x0) - math.lgamma(m + 1))  # 0.00796
F_lib = float(dist.cdf(x0))

failed = False
for rs in (42, np.random.default_rng(42), None):
    s = dist.draw_sample(n, random_state=rs)
    frac_le = np.mean(s <= x0)
    frac_zero = np.mean(s == 0)
    print(
        f"random_state={type(rs).__name__}: fraction(sample <= {x0}) = {frac_le:.4f}, "
        f"exact zeros = {frac_zero:.4f}; true F({x0}) <= {F_upper:.5f} "
        f"(library cdf: {F_lib:.5f}); DKW eps = {eps:.5f}"
    )
    if frac_le > F_upper + eps:
        failed = True

if failed:
    print("VIOLATION: sample does not follow the cdf")
    sys.exit(1)
print("ok")
