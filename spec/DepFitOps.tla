------------------------------ MODULE DepFitOps ------------------------------
(* Operators of the DependenceFunction register / callback protocol, parameterised by  *)
(* the dependence graph G (record: name, F, Deps) and the declaration order dc.  Used   *)
(* by DepFit.tla (state machine, model checking, behaviour generation) and by           *)
(* Trace_C14.tla (validation of recorded executions of the real classes).               *)
EXTENDS Naturals, Sequences, FiniteSets

(* graphs: function names are strings; Deps[f] = sequence of conditioners in kwargs order *)
Graphs == <<
   [name |-> "chain2",  F |-> <<"a", "b">>,           Deps |-> [a |-> <<>>, b |-> <<"a">>]],
   [name |-> "chain3",  F |-> <<"a", "b", "c">>,      Deps |-> [a |-> <<>>, b |-> <<"a">>, c |-> <<"b">>]],
   [name |-> "fan",     F |-> <<"a", "b", "c">>,      Deps |-> [a |-> <<>>, b |-> <<"a">>, c |-> <<"a">>]],
   [name |-> "join",    F |-> <<"a", "b", "c">>,      Deps |-> [a |-> <<>>, b |-> <<>>, c |-> <<"a", "b">>]],
   [name |-> "diamond", F |-> <<"a", "b", "d">>,      Deps |-> [a |-> <<>>, b |-> <<"a">>, d |-> <<"a", "b">>]],
   [name |-> "diamond2", F |-> <<"a", "b", "d">>,     Deps |-> [a |-> <<>>, b |-> <<"a">>, d |-> <<"b", "a">>]],
   \* "r" has no free parameter of its own (a function of another dependence function only); the protocol is the same
   [name |-> "relay",   F |-> <<"a", "r", "c">>,      Deps |-> [a |-> <<>>, r |-> <<"a">>, c |-> <<"r">>]]
>>
GraphNamed(n) == Graphs[CHOOSE i \in 1..Len(Graphs) : Graphs[i].name = n]

FsOf(G) == {G.F[i] : i \in 1..Len(G.F)}
DepSeq(G, f) == G.Deps[f]
DepSet(G, f) == {G.Deps[f][i] : i \in 1..Len(G.Deps[f])}

Perms(S) == {p \in [1..Cardinality(S) -> S] : \A x \in S : \E i \in DOMAIN p : p[i] = x}
Pos(seq, x) == CHOOSE i \in DOMAIN seq : seq[i] = x
TopoOk(G, p) == \A f \in FsOf(G) : \A k \in 1..Len(G.Deps[f]) : Pos(p, G.Deps[f][k]) < Pos(p, f)

(* dependents of c in registration order = declaration order of the dependents *)
Dependents(G, dc, c) ==
    LET RECURSIVE Walk(_)
        Walk(i) == IF i > Len(dc) THEN <<>>
                   ELSE (IF c \in DepSet(G, dc[i]) THEN <<dc[i]>> ELSE <<>>) \o Walk(i + 1)
    IN Walk(1)

(* protocol state: mayFit, fc (fitted conditioners), xy (stored data version, 0 = none),  *)
(* pv (provenance of the current parameters), log (internal fits of the current call)    *)
InitState(G) == [mayFit |-> [f \in FsOf(G) |-> DepSeq(G, f) = <<>>],
                 fc |-> [f \in FsOf(G) |-> {}],
                 xy |-> [f \in FsOf(G) |-> 0],
                 pv |-> [f \in FsOf(G) |-> [kind |-> "start"]],
                 log |-> <<>>]

RECURSIVE DoFit(_, _, _, _, _), CallbackAll(_, _, _, _, _, _), FitCall(_, _, _, _, _, _)
FitCall(G, dc, mut, s, f, d) ==
    LET s1 == [s EXCEPT !.xy[f] = d]
    IN IF s1.mayFit[f] THEN DoFit(G, dc, mut, s1, f) ELSE s1
DoFit(G, dc, mut, s, f) ==
    LET newpv == [kind |-> "fit", data |-> s.xy[f], conds |-> [c \in DepSet(G, f) |-> s.pv[c]]]
    IN CallbackAll(G, dc, mut, [s EXCEPT !.pv[f] = newpv, !.log = Append(@, f)], f,
                   Dependents(G, dc, f))
CallbackAll(G, dc, mut, s, c, ds) ==
    IF ds = <<>> THEN s
    ELSE LET d  == Head(ds)
             s1 == [s EXCEPT !.fc[d] = @ \cup {c}]
             ok == IF mut = "subsetreversed"
                   THEN s1.fc[d] \subseteq DepSet(G, d)         \* the test as written before fix e6 (always true)
                   ELSE DepSet(G, d) \subseteq s1.fc[d]         \* all conditioners have reported in
             s2 == IF ok THEN [s1 EXCEPT !.mayFit[d] = TRUE] ELSE s1
             s3 == IF ok /\ s2.xy[d] # 0 /\ ~(mut = "norefit" /\ s2.pv[d].kind = "fit")
                   THEN FitCall(G, dc, mut, s2, d, s2.xy[d]) ELSE s2
         IN CallbackAll(G, dc, mut, s3, c, Tail(ds))

(* every function carries the parameters of a fit to data version d made after all its  *)
(* conditioners got their current parameters                                            *)
Consistent(G, s, d) ==
    \A f \in FsOf(G) : /\ s.pv[f].kind = "fit" /\ s.pv[f].data = d
                       /\ \A c \in DepSet(G, f) : s.pv[f].conds[c] = s.pv[c]
=============================================================================
