"""C15 - HDC coordinates are exactly the boundary cells of the enclosed region; the line
sorter returns a permutation of its input.

M: TLC explores spec/HDC.tla from every region mask on small 2-D / 3-D grids (boundary by
   definition vs by erosion, components, coordinate sets) and spec/LineSort.tla (2-nearest-
   neighbour graph + DFS preorder) for every unambiguous 6-point subset of a 4x4 lattice
   (thorough: 7-point subsets, and 6-point subsets of a 5x5 lattice from node 0); the
   4-neighbourhood mutation must violate CoordsAreBoundary, and the pinned sorter
   (Continue = FALSE) must violate IsPermutation.
R: TLC-enumerated configuration classes (spec/HDCGen.tla) instantiated on the real code.
V: region mask + returned coordinates (as cell numbers, exact lookup) per contour and
   input/output points per sorter call, judged by TLC (spec/Trace_C15.tla).
"""
import copy

import numpy as np

from .common import Machinery, import_virocon
from . import hdc_common as H
from .c02 import contour_cases, is_empty_selection, GRID_MIX_C15

LEVEL = "model_checking"
XSS = "1g"


def judge_contours(ctx, vc, cases, label, base_id=0, key_suffix=""):
    recs, kept = [], []
    empty = 0
    for i, case in enumerate(cases):
        obs = H.observe_contour(vc, case, want_pref=False, want_resort=True)
        if is_empty_selection(obs):
            empty += 1
            ctx.case(H.case_key(case), nontrivial=False)
            continue
        rec = H.record_c15(base_id + i + 1, case, obs)
        recs.append(rec)
        kept.append((case, rec, dict(shape=rec.get("shape"), n=len(rec.get("R", [])), n_in=sum(rec.get("R", [])),
                                     sets=[len(s) for s in rec.get("sets", [])][:8], nsets=len(rec.get("sets", [])),
                                     warned=bool(obs["warned"]), isarray=rec.get("isarray"),
                                     deltas=obs.get("deltas_used"))))
    if not recs:
        if base_id == 0 and not ctx.violations:
            raise Machinery("no contour could be observed")
        ctx.log(f"{label}: nothing to judge ({empty} empty selections skipped)")
        return []
    failing = ctx.validate("Trace_C15", "Trace_C15.cfg", recs, xss=XSS, chunk=ctx.pick(400, 40))
    multi = 0
    for case, rec, info in kept:
        nontrivial = (not rec["exc"]) and info["n_in"] >= 4 and sum(info["sets"]) >= 4
        multi += 1 if info["nsets"] > 1 else 0
        ctx.case(H.case_key(case), nontrivial)
        for clause in failing.get(rec["id"], []):
            ctx.violation(clause, H.case_key(case) + key_suffix,
                          f"shape={info['shape']} deltas={info['deltas']} cells_in={info['n_in']} "
                          f"returned_sets={info['sets']} isarray={info['isarray']} warned={info['warned']} "
                          f"exc={rec['exc']!r}", replay=case)
    ctx.log(f"{label}: {len(recs)} contours judged, {sum(1 for r in recs if r['id'] in failing)} rejected, "
            f"{multi} with several coordinate sets, {empty} empty selections skipped")
    ctx.notes["contours_with_several_sets"] = ctx.notes.get("contours_with_several_sets", 0) + multi
    ctx.notes["contours"] = ctx.notes.get("contours", 0) + len(recs)
    ctx.notes["boundary_cells_judged"] = ctx.notes.get("boundary_cells_judged", 0) + sum(
        sum(len(s) for s in r.get("sets", [])) for r in recs)
    return kept


def overlapping_boxes(rec):
    """do the axis-parallel bounding boxes of two returned coordinate sets overlap? (bookkeeping only)"""
    if rec.get("exc") or len(rec.get("sets", [])) < 2:
        return False
    shape = rec["shape"]
    boxes = []
    for s_ in rec["sets"]:
        if not s_:
            continue
        idx = np.array(np.unravel_index(np.array(s_) - 1, shape))
        boxes.append((idx.min(axis=1), idx.max(axis=1)))
    for i in range(len(boxes)):
        for j in range(i + 1, len(boxes)):
            if np.all(boxes[i][0] <= boxes[j][1]) and np.all(boxes[j][0] <= boxes[i][1]):
                return True
    return False


def has_hole(rec):
    """more boundary pieces than regions (bookkeeping only, scipy labelling)"""
    if rec.get("exc") or not rec.get("sets"):
        return False
    import scipy.ndimage as ndi
    shape = rec["shape"]
    R = np.array(rec["R"]).reshape(shape)
    st = np.ones((3,) * len(shape))
    B = np.zeros(int(np.prod(shape)), dtype=int)
    for s_ in rec["sets"]:
        B[np.array(s_, dtype=int) - 1] = 1
    return ndi.label(B.reshape(shape), st)[1] > ndi.label(R, st)[1]


def sorter_cases(ctx):
    rng = np.random.default_rng(ctx.seed * 104729 + 15)
    sets = H.sorter_point_sets(rng, ctx.pick(60, 600))
    cases = []
    for k, (name, x, y) in enumerate(sets):
        for optimal in ((False, True) if (k < 8 or k % 3 == 0) else (bool(k % 2),)):
            cases.append(dict(kind="sort", name=name, x=[float(v) for v in x], y=[float(v) for v in y],
                              optimal=optimal))
        if k < 10 or k % 4 == 1:   # x, y are array_like: lists, tuples, pandas Series with their own labels
            cont = ["list", "tuple", "series"][k % 3]
            cases.append(dict(kind="sort", name=name, x=[float(v) for v in x], y=[float(v) for v in y],
                              optimal=bool(k % 2), container=cont))
    return cases


def judge_sorter(ctx, vc, cases, label, base_id=500000):
    recs = []
    for i, case in enumerate(cases):
        rec = H.observe_sorter(vc, case)
        rec["id"] = base_id + i + 1
        recs.append(rec)
    failing = ctx.validate("Trace_C15", "Trace_C15.cfg", recs, xss=XSS, chunk=400)
    for case, rec in zip(cases, recs):
        pts = {(a, b) for a, b in rec["inp"]}
        ctx.case(H.case_key(case) + f" first={rec['inp'][:2]}", nontrivial=len(pts) >= 4)
        for clause in failing.get(rec["id"], []):
            ctx.violation(clause, H.case_key(case),
                          f"{len(rec['inp'])} points in, {len(rec['out'])} points out exc={rec['exc']!r}", replay=case)
    ctx.log(f"{label}: {len(recs)} sorter calls judged, {sum(1 for r in recs if r['id'] in failing)} rejected")
    return recs


def synthetic_records():
    """hand-made records that satisfy every clause: a 4 x 4 block in a 6 x 6 grid (one ring of
    12 boundary cells, returned as one array) and two separate blocks in a 5 x 9 grid"""
    def cell(i, j, n1):
        return i * n1 + j + 1
    R = [0] * 36
    for i in range(1, 5):
        for j in range(1, 5):
            R[cell(i, j, 6) - 1] = 1
    ring = [cell(i, j, 6) for i in range(1, 5) for j in range(1, 5) if i in (1, 4) or j in (1, 4)]
    base = dict(id=899998, kind="hdc", exc="", freshsame=True, shape=[6, 6], R=R, sets=[ring], offgrid=0, ragged=False,
                isarray=True, arrshape=[12, 2], resorted=list(ring))
    R2 = [0] * 45
    a = [cell(i, j, 9) for i in range(0, 3) for j in range(0, 3)]
    b = [cell(i, j, 9) for i in range(2, 5) for j in range(5, 9)]
    for c in a + b:
        R2[c - 1] = 1
    a_b = [c for c in a if c != cell(1, 1, 9)]        # block at the grid corner: only its centre is interior
    b_b = [c for c in b if c not in (cell(3, 6, 9), cell(3, 7, 9))]  # row 4 and column 8 are on the grid border
    multi = dict(id=899997, kind="hdc", exc="", freshsame=True, shape=[5, 9], R=R2, sets=[a_b, b_b], offgrid=0, ragged=False,
                 isarray=False, arrshape=[0, 0], resorted=[])
    # one region with a hole: 7 x 7 grid without its centre; outer ring + the 8 cells around the hole, ONE set
    R3 = [1] * 49
    R3[cell(3, 3, 7) - 1] = 0
    outer = [cell(i, j, 7) for i in range(7) for j in range(7) if i in (0, 6) or j in (0, 6)]
    inner = [cell(i, j, 7) for i in range(2, 5) for j in range(2, 5) if (i, j) != (3, 3)]
    both = sorted(outer + inner)
    hole = dict(id=899995, kind="hdc", exc="", freshsame=True, shape=[7, 7], R=R3, sets=[both], offgrid=0, ragged=False,
                isarray=True, arrshape=[32, 2], resorted=list(both))
    srt = dict(id=899996, kind="sort", exc="", inp=[[0, 0], [1000000, 0], [1000000, 1000000], [0, 1000000],
                                                     [500000, 1500000], [0, 0]],
               out=[[0, 0], [0, 0], [1000000, 0], [1000000, 1000000], [500000, 1500000], [0, 1000000]],
               samelen=True, mutated=False)
    hole["_outer"], hole["_inner"] = outer, inner
    return base, multi, srt, hole


def self_test(ctx):
    base, multi, srt, hole = synthetic_records()
    outer, inner = hole.pop("_outer"), hole.pop("_inner")
    variants = []

    def var(clause, src, **changes):
        r = copy.deepcopy(src)
        r.update(changes)
        r["id"] = 900000 + len(variants)
        variants.append((clause, r))

    s0 = base["sets"][0]
    var("CoordsAreCellCentres", base, offgrid=1)
    var("CoordsAreBoundary", base, sets=[s0[:-3]], arrshape=[len(s0) - 3, 2], resorted=base["resorted"][:-3])
    var("EachOnce", base, sets=[s0 + s0[:1]])
    var("OneSetPerRegion", base, sets=[s0[: len(s0) // 2], s0[len(s0) // 2:]], isarray=False)
    # the behaviour before fix 87ce4d1: outer and inner boundary of ONE region as two sets
    var("OneSetPerRegion", hole, sets=[outer, inner], isarray=False, arrshape=[0, 0], resorted=[])
    var("EqualsFreshModel", base, freshsame=False)
    var("SingleIs2DArray", base, isarray=False)
    var("SingleIs2DArray", base, arrshape=[2, len(s0)])
    var("OrderIsLineSorter", base, sets=[s0[1:] + s0[:1]] if s0[1:] + s0[:1] != base["resorted"] else [s0[::-1]])
    merged = [c for s in multi["sets"] for c in s]
    # two pieces lying in different region components returned as one set
    var("SetsDoNotMixRegions", multi, sets=[merged], isarray=False)
    var("ArrayShape", base, R=base["R"][:-1])
    var("UnexpectedException", base, exc="ValueError: self-test")
    var("IsPermutation", srt, out=srt["out"][:-1])
    var("IsPermutation", srt, out=srt["out"][:-1] + srt["out"][:1])
    var("SorterOutputShape", srt, samelen=False)
    var("InputNotMutated", srt, mutated=True)
    good = [base, multi, srt, hole]
    failing = ctx.validate("Trace_C15", "Trace_C15.cfg", good + [r for _, r in variants], xss=XSS)
    bad = {r["id"]: failing[r["id"]] for r in good if r["id"] in failing}
    if bad:
        raise Machinery(f"self-test: synthetic good records were rejected: {bad}")
    ctx.traces -= len(good)  # synthetic records are not executions of the implementation
    missing = [cl for cl, r in variants if cl not in failing.get(r["id"], [])]
    if missing:
        raise Machinery(f"self-test: corrupted records were not rejected by clause(s) {missing}: {failing}")
    ctx.notes["self_test_clauses_shown_to_fail"] = sorted({cl for cl, _ in variants})


def run(ctx):
    vc = import_virocon()
    ctx.rule = (
        "contours: the configuration classes enumerated by TLC (spec/HDCGen.tla), instantiated as in C02 (quick: 60 "
        "classes; thorough: every fit/cut class, every 4th small class + big grids), several classes designed to cut "
        "the region into pieces (coarse grid + narrow conditionals) or to be anisotropic (cell-size ratio 3, 10), "
        "10 / 60 bi-modal models (U-shaped beta conditional moving with the given: tilted parallel bands whose bounding "
        "boxes overlap, 2-D and 3-D), 8 / 48 single regions with a hole (direction variables with mean direction north on "
        "[0, 2 pi), U-shaped beta variables; frames in 2-D, shells in 3-D), the cheap contours a second time in reverse order; "
        "sorter: regular circles, irregularly spaced ellipses, clusters, boundary cells of an ellipse on stretched "
        "grids, clouds, lattice sets with tied distances, the TLC counter-example, each with search_for_optimal_start "
        "False/True, and as list / tuple / pandas Series with shifted labels.  distinct = distinct (model, alpha, limits, deltas) resp. distinct point set+option; non-trivial "
        "= at least 4 enclosed cells and 4 returned points resp. at least 4 distinct points")
    ctx.trusted = [
        "TLC 1.8 evaluating spec/HDCOps.tla (BoundaryFast/ComponentsFast are model-checked equal to the definitions "
        "on all small masks: invariant FastIsDef) and spec/Trace_C15.tla",
        "harness/hdc_common.py: exact lookup of returned floats among cell_center_coordinates; wrapper around the "
        "staticmethod cumsum_biggest_until supplying the region mask",
        "sorter points are generated on a 1e-6 lattice, projection to integers is exact",
    ]
    ctx.assumptions = [
        "on the warn path (1 - alpha not reachable) the enclosed region is the whole grid",
        "LineSort.tla explores point sets with unambiguous 2-nearest-neighbour sets (ties depend on sklearn's "
        "tie-breaking); the real sorter is exercised with tied sets as well (IsPermutation does not depend on the order)",
        "the sorter is only called with >= 3 points (n_neighbors=2 needs 3 samples)",
    ]
    # M
    for cfg in ctx.pick(("MC_HDC_mask33.cfg", "MC_HDC_mask34.cfg", "MC_HDC_mask222.cfg"),
                        ("MC_HDC_mask33.cfg", "MC_HDC_mask34.cfg", "MC_HDC_mask222.cfg", "MC_HDC_mask322.cfg")):
        ctx.model_check("HDC", cfg, must_cover=("Erode", "Label"), timeout=3000)
    if not ctx.quick:
        ctx.model_check("HDC", "MC_HDC_mask44.cfg", timeout=3000)       # 65 536 masks, no coverage statistics
    # regions with holes (whole 7 x 7 grid minus any subset of its inner 3 x 3 block): one set per REGION;
    # labelling the boundary pieces instead (the code before fix 87ce4d1) must violate it
    ctx.model_check("HDC", "MC_HDC_holes77.cfg", must_cover=("Erode", "Label"), timeout=3000)
    if not ctx.quick:
        ctx.model_check("HDC", "MC_HDC_holes87.cfg", timeout=3000)
    ctx.model_check("HDC", "MC_HDC_mut_labelboundary.cfg", expect_violation="OneSetPerRegion")
    ctx.model_check("HDC", "MC_HDC_mut_cross.cfg", expect_violation="CoordsAreBoundary")
    ctx.model_check("LineSort", "MC_LineSort_quick.cfg", must_cover=("Build", "Visit", "Exhausted"), timeout=3000)
    if not ctx.quick:
        ctx.model_check("LineSort", "MC_LineSort_anystart.cfg", must_cover=("Build", "Visit", "Exhausted"),
                        timeout=3000)
        ctx.model_check("LineSort", "MC_LineSort_thorough7.cfg", must_cover=("Build", "Visit", "Exhausted"),
                        timeout=3000)
        ctx.model_check("LineSort", "MC_LineSort_thorough.cfg", timeout=3000)   # 5 x 5 lattice, start at node 0
    ctx.model_check("LineSort", "MC_LineSort_pinned.cfg", expect_violation="IsPermutation")
    # R
    cfgs = ctx.generate("HDCGen", "Gen_HDC.cfg")
    ctx.notes["configuration_classes"] = len(cfgs)
    cases = contour_cases(ctx, vc, cfgs, seed_shift=15, grids=GRID_MIX_C15, n_quick=60, fit_twice=False,
                          n_default_quick=0)
    cases += H.tiny_region_cases()
    # bi-modal conditionals (U-shaped beta moving with the given): tilted parallel bands whose
    # bounding boxes overlap
    cases += H.band_cases(np.random.default_rng(ctx.seed * 17 + 3), ctx.pick(10, 60))
    # model histories (contour, in-place change of the model object, contour on the same grid): the coordinates
    # belong to the model as it is
    cases += H.history_cases(vc, np.random.default_rng(ctx.seed * 29 + 8), cfgs, ctx.pick(5, 40))
    # float32-typed limits / cell sizes (coordinates are looked up among the centres the contour reports)
    cases += H.narrow_float_cases(vc, np.random.default_rng(ctx.seed * 31 + 9), cfgs, ctx.pick(4, 30), 0)
    # integer-typed grids (int / np.int64 limits, int or mixed cell sizes): the returned coordinates must still
    # be the centres of the boundary cells
    cases += H.integer_grid_cases(vc, np.random.default_rng(ctx.seed * 23 + 6), cfgs, ctx.pick(6, 40))
    # single regions with a hole (frame / shell): one region = one coordinate set
    cases += H.hole_cases(np.random.default_rng(ctx.seed * 19 + 4), ctx.pick(8, 48))
    # V
    kept = judge_contours(ctx, vc, cases, "contours")
    again = [c for c, r, i in reversed(kept) if not r["exc"] and i["n"] <= 4000][: ctx.pick(25, 200)]
    judge_contours(ctx, vc, again, "second evaluation in reverse order", base_id=250000,
                   key_suffix=" second-evaluation")
    ctx.notes["second_evaluations"] = len(again)
    ctx.notes["contours_whose_region_has_a_hole"] = sum(1 for _, r, _ in kept if has_hole(r))
    ctx.notes["contours_with_overlapping_piece_boxes"] = sum(1 for _, r, _ in kept if overlapping_boxes(r))
    scases = sorter_cases(ctx)
    srecs = judge_sorter(ctx, vc, scases, "line sorter")
    self_test(ctx)
    multi = [k for k in kept if k[2]["nsets"] > 1 and k[2]["n"] <= 3000]
    ok = [k for k in kept if not k[1]["exc"]]
    if ok:
        small = min(ok, key=lambda k: k[2]["n"])
        ctx.sample({"case": small[0], "record": small[1]})
    if multi:
        ctx.sample({"case": multi[0][0], "observed": multi[0][2]})
    ctx.sample({"case": scases[3], "record": srecs[3]})


def replay(ctx, case):
    vc = import_virocon()
    c = case["case"]
    if c["kind"] == "sort":
        judge_sorter(ctx, vc, [c], "replay")
    else:
        judge_contours(ctx, vc, [c], "replay")
