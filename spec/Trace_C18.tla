----------------------------- MODULE Trace_C18 -----------------------------
(* Trace validation for C18: one record = one enumerated case (r.case, as emitted by      *)
(* Validation.tla) run on the real classes: construct -> slice -> fit -> compute as far   *)
(* as it gets; r.stage / r.cls = stage (1..4) and class of the first exception, or 5 /    *)
(* "result".  Judged against WellFormed / Stage; at the end the set of judged cases must  *)
(* be exactly the enumerated set.                                                         *)
EXTENDS ValidationOps, Json, IOUtils, TLC

CONSTANTS BaseSet, PairBaseSet, CheckCoverage

TraceLog == ndJsonDeserialize(IOEnv.TRACE_FILE)
VARIABLE l

Clauses(r) ==
  LET c == r.case IN
  IF ~InDomain(c) THEN << <<"InDomain", FALSE>> >>
  ELSE <<
    <<"RejectedNotComputed", ~WellFormed(c) => r.cls # "result" /\ r.stage <= Stage(c)>>,
    <<"PrefixAccepted", ~WellFormed(c) /\ r.cls # "result" => r.stage >= Stage(c)>>,
    <<"AcceptedWhenWellFormed", WellFormed(c) => r.cls = "result" /\ r.stage = 5>>,
    <<"DocumentedClass", r.cls # "result" => r.cls \in Documented>>
  >>

Verdict(r) == Failing(Clauses(r))

Covered == {TraceLog[i].case : i \in 1..Len(TraceLog)} = AllCases(BaseSet, PairBaseSet)

Init == l = 1
Next == /\ l <= Len(TraceLog)
        /\ LET r == TraceLog[l] v == Verdict(r) IN
             IF v = <<>> THEN TRUE ELSE PrintT(<<"VERDICT", r.id, v>>)
        /\ l' = l + 1
Spec == Init /\ [][Next]_l
Consumed == l = Len(TraceLog) + 1 =>
              /\ PrintT(<<"CONSUMED", l - 1>>)
              /\ (CheckCoverage => PrintT(<<"COVERAGE", Covered>>))
=============================================================================
