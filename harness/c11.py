"""C11 - fixed parameters are honoured at construction, in evaluation and through fitting.

M: TLC explores spec/ParamRouting.tla, scenario "fit": NewDist -> Eval -> FitDist -> FitDist for
   every family x proper fixed subset F x {mle, lsq, wlsq} x {own, other} data; invariants
   FixedHonoured, EvalUsesPar, FitOutcomeAsSpecified (table Supports), FreeEstimated and the
   action property FixedStable; mutation configs (constructor ignores f_*, bad fit keyword,
   fit overwrites a fixed value); scenario "cond" for FixedSameForAllGiven.
R: TLC emits every case as JSON; each is run through the same life cycle on the real class.
V: spec/Trace_C11.tla judges every record and asserts coverage of FitCases / CondFixCases.
"""
from __future__ import annotations

import multiprocessing as mpc
import os
import warnings

import numpy as np
import scipy.stats as sts

from .common import Qc, Machinery, import_virocon
from . import distfam as D

LEVEL = "model_checking"
BIG = 2_000_000_000
ORDERS = ("plain_first", "f_first", "positional")

# true parameters of the own-family data = distfam.STORED; start values (passed as plain
# arguments, also for fixed names: "if f_x is set, x is ignored") and declared fixed values
START = {
    "Weibull": dict(alpha=1.6, beta=1.3, gamma=0.2),
    "LogNormal": dict(mu=0.3, sigma=0.6),
    "Normal": dict(mu=0.5, sigma=1.8),
    "ExpWeibull": dict(alpha=1.5, beta=1.0, delta=1.5),
    "GenGamma": dict(m=1.2, c=1.4, lambda_=0.7),
    "VonMises": dict(kappa=1.5, mu=0.1),
    "NormFit": dict(mu_norm=2.0, sigma_norm=1.2),
    "ScipyGamma": dict(a=2.0, loc=0.1, scale=1.8),
    "ScipyRayleigh": dict(loc=0.1, scale=2.2),
    "ScipyBeta": dict(a=1.7, b=2.8, loc=0.05, scale=4.6),
    "ScipyVonMises": dict(kappa=1.5, loc=0.1, scale=1.2),
}
FIXED = {
    "Weibull": dict(alpha=1.35, beta=1.6, gamma=0.37),
    "LogNormal": dict(mu=0.63, sigma=0.47),
    "Normal": dict(mu=0.85, sigma=1.45),
    "ExpWeibull": dict(alpha=2.0, beta=1.3, delta=2.2),
    "GenGamma": dict(m=1.7, c=1.1, lambda_=0.57),
    "VonMises": dict(kappa=2.3, mu=0.33),
    "NormFit": dict(mu_norm=2.5, sigma_norm=0.95),
    "ScipyGamma": dict(a=2.8, loc=0.28, scale=1.5),
    "ScipyRayleigh": dict(loc=0.23, scale=1.9),
    "ScipyBeta": dict(a=2.2, b=3.3, loc=0.13, scale=4.3),
    "ScipyVonMises": dict(kappa=2.5, loc=0.42, scale=1.3),      # scale != 1: scipy's fit returns 1
}


NEG = {("Normal", "mu"): -0.7, ("Weibull", "gamma"): -0.5, ("LogNormal", "mu"): -0.4, ("VonMises", "mu"): -1.2,
       ("ScipyGamma", "loc"): -0.4, ("ScipyRayleigh", "loc"): -0.4, ("ScipyBeta", "loc"): -0.3}
INT = {("ExpWeibull", "delta"): 5, ("ScipyBeta", "scale"): 5}


# generalised gamma, small-magnitude data: (m, c, lambda_) generating vectors, medians 0.065 .. 0.25
SMALLDATA = {"smalldata_a": dict(m=2.0, c=2.0, lambda_=20.0), "smalldata_b": dict(m=3.0, c=1.0, lambda_=1 / 0.07),
             "smalldata_c": dict(m=5.0, c=1.0, lambda_=20.0)}
# parameters that are not positive by definition of the family (everything else must come out > 0)
SIGNED = {("Weibull", "gamma"), ("LogNormal", "mu"), ("Normal", "mu"), ("VonMises", "mu"), ("ScipyGamma", "loc"),
          ("ScipyRayleigh", "loc"), ("ScipyBeta", "loc"), ("ScipyVonMises", "loc")}


def special_value(fam, n, kind):
    """the fixed value of a special case (spec/ParamRoutingOps.tla SpecialKinds)"""
    if kind in SMALLDATA:
        return SMALLDATA[kind][n]
    truth = D.STORED[fam][n]
    if kind == "zero":
        return 0.0
    if kind == "intzero":
        return 0
    if kind == "negzero":
        return -0.0
    if kind == "neg":
        return NEG[(fam, n)]
    if kind == "wrap":
        return 4.0                       # outside [-pi, pi]
    if kind == "tiny":
        return 1e-9                      # log(exp(1e-9)) differs from 1e-9 by 8e-8 relative
    if kind == "huge":
        return 25.0
    if kind == "int":
        return INT.get((fam, n), max(1, int(round(truth))))
    if kind == "far":
        if (fam, n) in NEG:              # location-like: far below the data (von Mises: far around the circle)
            # von Mises: 1.2 rad off the mean direction (further off, the MLE of kappa is the boundary 0)
            return round(truth + 1.2, 6) if fam == "VonMises" else round(truth - 2.0, 6)
        return round(truth * 3.0, 6)
    raise KeyError(kind)


LOC_LIKE = {"Normal": "mu", "Weibull": "gamma", "LogNormal": "mu", "VonMises": "mu", "ScipyGamma": "loc",
            "ScipyRayleigh": "loc", "ScipyBeta": "loc"}


# parameters that move the boundary of the support: with one of them free the likelihood is not regular
# (unbounded for shape < 1, maximiser on the data boundary) - the recorded limits of C12; the likelihood
# statement of FreeEstimated is made for the cases in which they are fixed
BOUNDARY = {"Weibull": ["gamma"], "ScipyGamma": ["loc"], "ScipyRayleigh": ["loc"], "ScipyBeta": ["loc", "scale"]}


def flipped(case):
    """regular cases: the location-like fixed value is NEGATIVE for every second (variant, data kind)"""
    return (case.get("variant", 0) + (case["data"] == "other")) % 2 == 1


def fixed_for(case):
    """name -> declared fixed value of a case"""
    fam = case["fam"]
    special = case.get("special", "regular")
    if fam == "ScipyVonMises":           # VmSubCases: F as given; "wrap": f_loc = 4.0
        fx = {n: FIXED[fam][n] for n in case["F"]}
        if special == "wrap":
            fx["loc"] = 4.0
        return fx
    if special == "none":                # f_<sname> = None passed explicitly: nothing fixed
        return {}
    if special != "regular":
        return {case["sname"]: special_value(fam, case["sname"], special)}
    fx = {n: FIXED[fam][n] for n in case["F"]}
    if flipped(case) and LOC_LIKE.get(fam) in fx:
        fx[LOC_LIKE[fam]] = -fx[LOC_LIKE[fam]]
    return fx


def start_for(case):
    if case.get("special") in SMALLDATA:
        return {}                        # the default start values of the class
    st = dict(START[case["fam"]])
    if case["fam"] == "ScipyBeta" and case.get("special", "regular") != "regular":
        st["scale"] = 7.0                # support of the start values must contain the data for every fixed loc
    return st


def own_data(fam, n, rng, par=None):
    """sample of the family itself at the true parameters, drawn with scipy/numpy directly"""
    p = par or D.STORED[fam]
    rs = np.random.RandomState(rng.integers(0, 2 ** 31 - 1))
    if fam == "Weibull":
        return sts.weibull_min.rvs(p["beta"], loc=p["gamma"], scale=p["alpha"], size=n, random_state=rs)
    if fam == "LogNormal":
        return np.exp(p["mu"] + p["sigma"] * rs.standard_normal(n))
    if fam == "Normal":
        return p["mu"] + p["sigma"] * rs.standard_normal(n)
    if fam == "ExpWeibull":
        u = rs.uniform(size=n)
        return p["alpha"] * (-np.log1p(-u ** (1 / p["delta"]))) ** (1 / p["beta"])
    if fam == "GenGamma":
        return rs.gamma(p["m"], size=n) ** (1 / p["c"]) / p["lambda_"]
    if fam == "VonMises":
        return rs.vonmises(p["mu"], p["kappa"], size=n)
    if fam == "ScipyVonMises":
        return rs.vonmises(p["loc"], p["kappa"], size=n)
    if fam == "NormFit":
        s2 = np.log(1 + (p["sigma_norm"] / p["mu_norm"]) ** 2)
        return np.exp(np.log(p["mu_norm"]) - s2 / 2 + np.sqrt(s2) * rs.standard_normal(n))
    if fam == "ScipyGamma":
        return p["loc"] + p["scale"] * rs.gamma(p["a"], size=n)
    if fam == "ScipyRayleigh":
        return p["loc"] + p["scale"] * rs.rayleigh(size=n)
    if fam == "ScipyBeta":
        return p["loc"] + p["scale"] * rs.beta(p["a"], p["b"], size=n)
    raise KeyError(fam)


def other_data(fam, n, rng):
    """sample of ANOTHER family, inside the support that the declared fixed values imply"""
    rs = np.random.RandomState(rng.integers(0, 2 ** 31 - 1))
    ln = lambda mu, sg: np.exp(mu + sg * rs.standard_normal(n))
    wb = lambda a, b: a * rs.weibull(b, size=n)
    if fam == "Weibull":
        return 0.45 + ln(0.6, 0.45)
    if fam == "LogNormal":
        return 0.05 + wb(1.9, 1.6)
    if fam == "Normal":
        return wb(2.0, 1.5)
    if fam == "ExpWeibull":
        return ln(0.6, 0.45)
    if fam == "GenGamma":
        return ln(0.5, 0.5)
    if fam in ("VonMises", "ScipyVonMises"):
        return 0.3 + 0.7 * rs.standard_normal(n)
    if fam == "NormFit":
        return 0.05 + wb(2.5, 1.8)
    if fam == "ScipyGamma":
        return 0.35 + wb(2.2, 1.4)
    if fam == "ScipyRayleigh":
        return 0.3 + ln(0.7, 0.4)
    if fam == "ScipyBeta":
        return 0.2 + 3.8 * rs.uniform(size=n) ** 1.5
    raise KeyError(fam)


def reldev(dist, names, target):
    """max relative deviation of the named parameters from their declared values (absolute for a
    declared value of zero)"""
    worst = 0.0
    par = dist.parameters
    for n in names:
        v = par[n]
        try:
            v = float(v)
        except Exception:  # noqa
            return float("inf")
        d = abs(v - target[n]) / (abs(target[n]) if target[n] != 0 else 1.0)
        worst = max(worst, d if d == d else float("inf"))
    return worst


def fattr_ok(dist, fam, fx):
    return all((getattr(dist, f"f_{n}") == fx[n]) if n in fx else (getattr(dist, f"f_{n}") is None)
               for n in D.NAMES[fam])


def fit_record(vc, rid, case, seed=0):
    fam, F, fitm, dk = case["fam"], list(case["F"]), case["fitm"], case["data"]
    variant = case.get("variant", 0)
    special = case.get("special", "regular")
    fx = fixed_for(case)
    start = start_for(case)
    names = D.NAMES[fam]
    free = [n for n in names if n not in F]
    kind = ("fitvm" if fam == "ScipyVonMises" else "fitnone" if special == "none"
            else "fit" if special == "regular" else "fitspecial")
    none_kw = {case["sname"]: None} if special == "none" else {}
    rec = dict(id=rid, kind=kind, special=special,
               sname=case.get("sname", "none"), fam=fam, F=F, fitm=fitm, data=dk, variant=variant, exc="",
               cdev=BIG, fattr=False, evalsame=False, evalkeep=False,
               outcome1="none", fdev1=BIG, free1changed=False, free1finite=False,
               outcome2="none", fdev2=BIG, free2changed=False, free2finite=False, free1adm=True, free2adm=True,
               llgen1=BIG, llpert1=BIG, llgen2=BIG, llpert2=BIG, llfit=[])
    rng = np.random.default_rng([seed, variant, sum(map(ord, fam + fitm + dk + special + "".join(F)))])
    n = 1000 if special in SMALLDATA else [400, 250, 900, 400][variant % 4]
    # own-family data are generated WITH the fixed parameters at their fixed values (regular cases and
    # f_<n>=None cases): the generating parameters then satisfy the constraints of the fit
    genpar = None
    if dk == "own" and special in ("regular", "none") and fam != "ScipyVonMises":
        genpar = {k: (fx[k] if k in fx else D.STORED[fam][k]) for k in names}
    if special in SMALLDATA:
        genpar = dict(SMALLDATA[special])
    gen = (lambda f, m, r: own_data(f, m, r, genpar)) if genpar else (own_data if dk == "own" else other_data)
    if special == "wrap":     # directions centred at the fixed value 4.0 rad (scipy/numpy return them in [-pi, pi])
        gen = lambda f, m, r: own_data(f, m, r, dict(D.STORED[f], **{"loc" if f == "ScipyVonMises" else "mu": 4.0}))
    data1, data2 = gen(fam, n, rng), gen(fam, n, rng)
    weights = "quadratic" if fitm == "wlsq" else None
    with warnings.catch_warnings(), np.errstate(all="ignore"):
        warnings.simplefilter("ignore")
        try:
            # NewDist, in every keyword order (plain values first / f_ values first / plain values
            # positionally + f_ keywords); the first one goes on through the life cycle
            objs = [D.build(vc, fam, start, fixed=dict(fx, **none_kw), order=o) for o in ORDERS]
            dist = objs[0]
            rec["cdev"] = Qc(max(reldev(o, F, fx) for o in objs), 1e15, 0, BIG)
            ok_attr = all(fattr_ok(o, fam, fx) for o in objs)
            rec["ctorsame"] = all(dict(o.parameters) == dict(dist.parameters) for o in objs)
            # Eval
            resolved = {k: (fx[k] if k in F else start[k]) for k in names if k in F or k in start}
            ref = D.build(vc, fam, resolved)
            before = [dict(o.parameters) for o in objs]
            same = True
            for meth in ("pdf", "cdf", "icdf"):
                arg = np.array(D.P_BODY if meth == "icdf" else D.X_BODY)
                want = getattr(ref, meth)(arg)
                same = same and all(D.compare(getattr(o, meth)(arg), want)[0] for o in objs)
            rec["evalsame"] = bool(same)
            rec["evalkeep"] = [dict(o.parameters) for o in objs] == before
            ok_attr = ok_attr and all(fattr_ok(o, fam, fx) for o in objs)
            # FitDist, twice
            prev = dict(dist.parameters)
            for k, data in ((1, data1), (2, data2)):
                d0 = data.copy()
                try:
                    dist.fit(data, method=fitm, weights=weights)
                    oc = "ok"
                except Exception as e:  # noqa
                    oc = type(e).__name__
                    rec[f"msg{k}"] = str(e)[:120]
                if not np.array_equal(d0, data):
                    oc = "InputMutated"
                rec[f"outcome{k}"] = oc
                rec[f"fdev{k}"] = Qc(reldev(dist, F, fx), 1e15, 0, BIG)
                cur = dict(dist.parameters)
                rec[f"free{k}changed"] = all(cur[m] != prev[m] for m in free)
                rec[f"free{k}finite"] = all(np.ndim(cur[m]) == 0 and np.isfinite(cur[m]) for m in free)
                rec[f"free{k}adm"] = all(cur[m] > 0 for m in free if (fam, m) not in SIGNED)
                ok_attr = ok_attr and fattr_ok(dist, fam, fx)
                prev = cur
                if oc == "ok" and fitm == "mle" and fam == "NormFit":
                    # the family's estimator IS the sample mean / sample standard deviation (ddof = 1)
                    want = {"mu_norm": float(np.mean(data)), "sigma_norm": float(np.std(data, ddof=1))}
                    okm = all(float(cur[m]) == want[m] for m in free)
                    rec[f"llpert{k}"] = 0 if okm else -BIG
                elif (oc == "ok" and fitm == "mle" and fam != "ScipyVonMises"
                        and all(b in fx for b in BOUNDARY.get(fam, []))):
                    # FreeEstimated as a likelihood statement (log-likelihood through the real pdf)
                    def loglik(par):
                        v = np.asarray(D.build(vc, fam, par).pdf(data), dtype=float)
                        return float(np.sum(np.log(v))) if np.all(v > 0) else float("-inf")

                    curf = {m: float(v) for m, v in cur.items()}
                    ll_fit = loglik(curf)
                    rec["llfit"].append(repr(ll_fit))
                    if genpar is not None:
                        rec[f"llgen{k}"] = Qc(ll_fit - loglik(genpar), 1e6, -BIG, BIG) if ll_fit > -np.inf else -BIG
                    best = float("-inf")
                    for m in free:
                        for sgn in (1.01, 0.99):
                            v = curf[m] * sgn if curf[m] != 0 else (sgn - 1.0)
                            best = max(best, loglik(dict(curf, **{m: v})))
                    if free:
                        rec[f"llpert{k}"] = (Qc(ll_fit - best, 1e6, -BIG, BIG) if best > -np.inf else BIG) \
                            if ll_fit > -np.inf else -BIG
                rec["mid" if k == 1 else "final"] = {m: repr(float(v)) for m, v in cur.items()}
            rec["fattr"] = bool(ok_attr)
        except Exception as e:  # noqa
            rec["exc"] = f"{type(e).__name__}: {e}"[:200]
    return rec


def fit_key(c):
    if c["fam"] == "ScipyVonMises":
        return f"ScipyVonMises fixed={'+'.join(c['F'])}({c.get('special')}) method={c['fitm']} data={c['data']}"
    if c.get("special") == "none":
        return f"{c['fam']} f_{c['sname']}=None method={c['fitm']} data={c['data']}"
    if c.get("special", "regular") != "regular":
        return (f"{c['fam']} fixed={c['sname']}={special_value(c['fam'], c['sname'], c['special'])!r}"
                f"({c['special']}) method={c['fitm']} data={c['data']}")
    return f"{c['fam']} fixed={'+'.join(c['F']) or '-'} method={c['fitm']} data={c['data']}"


def signature(rec):
    """what must not depend on the other life cycles run in the same process"""
    return (rec["exc"], rec["outcome1"], rec["outcome2"], str(rec.get("mid")), str(rec.get("final")))


def order_pass(args):
    """all life cycles sequentially in ONE process, in a seeded shuffled order"""
    global _VC
    if _VC is None:
        _VC = import_virocon()
    cases, seed, which = args
    order = np.random.default_rng(7000 + 10 * seed + which).permutation(len(cases))
    out = {}
    for where, i in enumerate(order):
        out[int(i)] = (signature(fit_record(_VC, 0, cases[i], seed)), int(where))
    return out


# ---------------------------------------------------------------------------------------
# conditional distributions with fixed parameters


def _lin(x, a, b):
    # in double precision whatever the type of x (list of ints, int64 / float32 array): the value of a
    # dependent parameter must not depend on the dtype of the conditioning value either
    return a + b * np.asarray(x, dtype=float)


GIVEN_KINDS = {
    "int64 array": (np.array([1, 2, 3, 2], dtype=np.int64), np.array([1.0, 2.0, 3.0, 2.0])),
    "list of int": ([1, 2, 3, 2], np.array([1.0, 2.0, 3.0, 2.0])),
    "float32 array": (np.array([1.5, 2.25, 3.0, 2.25], dtype=np.float32), np.array([1.5, 2.25, 3.0, 2.25])),
}


def dtype_ok(cond):
    """pdf / cdf / icdf / seeded draw_sample with the conditioning values as int64 array, list of python
    ints and float32 array give bit for bit the numbers of the same values as float64 array; returns
    the first deviating call ('' if none)"""
    for kind, (g, g64) in GIVEN_KINDS.items():
        for meth in ("pdf", "cdf", "icdf"):
            x = np.array((D.P_BODY if meth == "icdf" else D.X_BODY)[:4])
            if not D.compare(getattr(cond, meth)(x, g), getattr(cond, meth)(x, g64))[0]:
                return f"{meth}(x, given={kind})"
        if not D.compare(cond.draw_sample(3, g, random_state=77), cond.draw_sample(3, g64, random_state=77))[0]:
            return f"draw_sample(3, given={kind})"
    return ""


def condfix_record(vc, rid, case, seed=0):
    fam, F = case["fam"], list(case["F"])
    names = D.NAMES[fam]
    dep = [n for n in names if n not in F]
    rec = dict(id=rid, kind="condfix", fam=fam, F=F, exc="", preok=False, postok=False, defsame=False, dtypeok=False, dtypebad="", fitdev=BIG,
               nint=0, ngiven=0)
    rng = np.random.default_rng([seed, 77, sum(map(ord, fam + "".join(F)))])
    givens = [0.7, 1.9, 3.2, np.array([0.7, 1.9, 3.2, 1.9]), np.array([2.5]),
              2, np.int64(3), np.array([1, 2, 3], dtype=np.int64)]     # integer-typed conditioning values too

    def fixed_ok(cond):
        ok = True
        for g in givens:
            pv = cond._get_param_values(g) if hasattr(cond, "_get_param_values") else dict(cond.fixed_parameters)
            for n in F:
                ok = ok and bool(np.all(np.asarray(pv[n]) == FIXED[fam][n])) and cond.fixed_parameters[n] == FIXED[fam][n]
            # behaviour: an integer-typed given gives the numbers of the same given as float
            if np.asarray(g).dtype.kind == "i":
                xx = np.array(D.X_BODY[:np.size(g)]) if np.ndim(g) else D.X_BODY[1]
                ok = ok and D.compare(cond.cdf(xx, g), cond.cdf(xx, np.asarray(g, dtype=float) if np.ndim(g) else float(g)))[0]
        return bool(ok)

    with warnings.catch_warnings(), np.errstate(all="ignore"):
        warnings.simplefilter("ignore")
        try:
            tmpl = D.build(vc, fam, {}, fixed={k: FIXED[fam][k] for k in F})
            deps = {}
            for n in dep:
                f = vc.DependenceFunction(_lin)
                f.parameters = {"a": D.STORED[fam][n], "b": 0.02 * D.STORED[fam][n]}
                deps[n] = f
            cond = vc.distributions.ConditionalDistribution(tmpl, deps)
            rec["ngiven"] = len(givens)
            rec["preok"] = fixed_ok(cond)
            rec["dtypebad"] = dtype_ok(cond)
            # fit: three intervals of own-family data whose free parameters drift with the given
            cvals = [1.0, 2.0, 3.0]
            intervals = []
            for cv in cvals:
                par = {k: (FIXED[fam][k] if k in F else D.STORED[fam][k] * (1 + 0.03 * cv)) for k in names}
                if fam == "ScipyBeta":   # keep the data inside the support the fixed values imply
                    par["loc"], par["scale"] = 0.15, 4.2
                if fam in ("Weibull", "ScipyGamma", "ScipyRayleigh"):
                    lk = "gamma" if fam == "Weibull" else "loc"
                    par[lk] = D.STORED[fam][lk]
                intervals.append(own_data(fam, 300, rng, par))
            bounds = [(0.5, 1.5), (1.5, 2.5), (2.5, 3.5)]
            cond.fit(intervals, cvals, bounds)            # method=None: "defaults to the distribution's default"
            # a second, identical conditional fitted with the default named explicitly
            deps2 = {}
            for n in dep:
                f2 = vc.DependenceFunction(_lin)
                f2.parameters = {"a": D.STORED[fam][n], "b": 0.02 * D.STORED[fam][n]}
                deps2[n] = f2
            cond2 = vc.distributions.ConditionalDistribution(
                D.build(vc, fam, {}, fixed={k: FIXED[fam][k] for k in F}), deps2)
            cond2.fit([d.copy() for d in intervals], cvals, bounds, method="mle")
            rec["defsame"] = ([{k: repr(float(v)) for k, v in p_.items()} for p_ in cond.parameters_per_interval]
                              == [{k: repr(float(v)) for k, v in p_.items()} for p_ in cond2.parameters_per_interval])
            worst = 0.0
            for d_i, p_i in zip(cond.distributions_per_interval, cond.parameters_per_interval):
                worst = max(worst, reldev(d_i, F, FIXED[fam]))
                for n in F:
                    worst = max(worst, abs(float(p_i[n]) - FIXED[fam][n]) / abs(FIXED[fam][n]))
                    if getattr(d_i, f"f_{n}") != FIXED[fam][n]:
                        worst = float("inf")
            rec["nint"] = len(cond.distributions_per_interval)
            rec["fitdev"] = Qc(worst, 1e15, 0, BIG)
            rec["postok"] = fixed_ok(cond)
            rec["dtypebad"] = rec["dtypebad"] or dtype_ok(cond)
            rec["dtypeok"] = rec["dtypebad"] == ""
        except Exception as e:  # noqa
            rec["exc"] = f"{type(e).__name__}: {e}"[:200]
    return rec


def condfix_key(c):
    return f"Conditional{c['fam']} fixed={'+'.join(c['F'])}"


# ---------------------------------------------------------------------------------------

_VC = None


def _worker(args):
    global _VC
    if _VC is None:
        _VC = import_virocon()
    kind, rid, case, seed = args
    return (fit_record if kind == "fit" else condfix_record)(_VC, rid, case, seed)


def judge(ctx, vc, fcases, ccases, summary=True, reps=1):
    fcases = [dict(c, variant=c.get("variant", v)) for v in range(reps) for c in fcases]
    jobs = [("fit", i + 1, c, ctx.seed) for i, c in enumerate(fcases)]
    jobs += [("condfix", len(fcases) + i + 1, c, ctx.seed) for i, c in enumerate(ccases)]
    if len(jobs) < 6:
        recs = [_worker_local(vc, j) for j in jobs]
        passes = [order_pass((fcases, ctx.seed, w)) for w in (1, 2)] if fcases else []
    else:
        with mpc.get_context("fork").Pool(min(ctx.pick(6, 12), os.cpu_count() or 2)) as pool:
            pa = pool.map_async(order_pass, [(fcases, ctx.seed, 1), (fcases, ctx.seed, 2)], chunksize=1)
            recs = pool.map(_worker, jobs, chunksize=1)
            passes = pa.get()
    # CaseOrderIndependent: the life cycle run on its own (pool) and at two positions of two shuffled
    # sequential runs in one process gives bit for bit the same outcomes and fitted parameters
    for i, r in enumerate(recs[:len(fcases)]):
        sig = signature(r)
        r["ordsame"] = all(p[i][0] == sig for p in passes)
        r["ordpos"] = [p[i][1] for p in passes]
        if not r["ordsame"]:
            r["orddiff"] = str([p[i][0] for p in passes if p[i][0] != sig][0])[:300]
    allrecs = list(recs)
    if summary:
        allrecs.append(dict(id=len(recs) + 1, kind="summary", reps=reps))
    failing = ctx.validate("Trace_C11", "Trace_C11.cfg", allrecs)
    frecs, crecs = recs[:len(fcases)], recs[len(fcases):]
    for c, r in zip(fcases, frecs):
        ctx.case(f"fit {fit_key(c)} v{c['variant']}", nontrivial=bool(c["F"]) or r["outcome1"] == "ok")
        c = dict(c)
        for clause in failing.get(r["id"], []):
            ctx.violation(clause, fit_key(c),
                          f"exc={r['exc']!r} cdev={r['cdev']} outcome={r['outcome1']}/{r['outcome2']} "
                          f"{r.get('msg1', '')!r} fdev={r['fdev1']}/{r['fdev2']}e-15 evalsame={r['evalsame']} "
                          f"fattr={r['fattr']} free changed={r['free1changed']}/{r['free2changed']} "
                          f"finite={r['free1finite']}/{r['free2finite']} admissible={r['free1adm']}/{r['free2adm']} "
                          f"final={r.get('final')} "
                          f"loglik(fit)-loglik(generating)={r['llgen1']}/{r['llgen2']}e-6 "
                          f"loglik(fit)-max loglik(+-1%)={r['llpert1']}/{r['llpert2']}e-6 "
                          f"ordsame={r.get('ordsame')} at {r.get('ordpos')} other={r.get('orddiff', '')}",
                          replay=dict(kind="fit", case=c, history=(clause == "CaseOrderIndependent")))
    for c, r in zip(ccases, crecs):
        ctx.case("condfix " + condfix_key(c), nontrivial=r["exc"] == "")
        for clause in failing.get(r["id"], []):
            ctx.violation(clause, condfix_key(c),
                          f"exc={r['exc']!r} preok={r['preok']} postok={r['postok']} fitdev={r['fitdev']}e-15 "
                          f"defsame={r['defsame']} first call that depends on the dtype of given: {r['dtypebad']!r}",
                          replay=dict(kind="condfix", case=c))
    if summary and failing.get(allrecs[-1]["id"]):
        raise Machinery(f"coverage clauses rejected: {failing[allrecs[-1]['id']]}")
    ctx.log(f"{len(frecs)} fit life cycles, {len(crecs)} conditional fixed-parameter cases judged, "
            f"{sum(1 for r in recs if r['id'] in failing)} rejected")
    return fcases, frecs, crecs, failing


def _worker_local(vc, job):
    kind, rid, case, seed = job
    return (fit_record if kind == "fit" else condfix_record)(vc, rid, case, seed)


def selftest(ctx, frec, crec):
    import copy

    muts = []
    for base, clause, chg in (
            (frec, "FixedAtConstruction", dict(cdev=10 ** 6)),
            (frec, "FixedAttributesKept", dict(fattr=False)),
            (frec, "EvalUsesFixed", dict(evalsame=False)),
            (frec, "FitOutcomeAsSpecified", dict(outcome1="TypeError")),
            (frec, "FixedStable", dict(fdev2=2000)),
            (frec, "FreeEstimated", dict(free1changed=False)),
            (frec, "FreeEstimated", dict(llpert2=-50000)),
            (frec, "FreeEstimated", dict(free1adm=False)),
            (frec, "FreeEstimated", dict(llgen1=-50000)),
            (frec, "CaseOrderIndependent", dict(ordsame=False)),
            (crec, "FixedSameForAllGiven", dict(postok=False)),
            (crec, "FixedSameForAllGiven", dict(dtypeok=False)),
            (crec, "DefaultFitMethod", dict(defsame=False)),
            (crec, "FixedStableInIntervals", dict(fitdev=5000))):
        r = copy.deepcopy(base)
        r.update(chg)
        r["id"] = 900000 + len(muts)
        muts.append((r, clause))
    failing = ctx.validate("Trace_C11", "Trace_C11.cfg", [m for m, _ in muts])
    ctx.traces -= len(muts) - len(failing)
    for m, clause in muts:
        if clause not in failing.get(m["id"], []):
            raise Machinery(f"self-test: corrupted record not rejected by {clause} (got {failing.get(m['id'])})")
    ctx.notes["selftest_corrupted_records_rejected"] = len(muts)


def run(ctx):
    vc = import_virocon()
    ctx.rule = ("TLC enumerates every (family, proper subset F of its parameter names fixed [incl. none], fit method "
                "mle/lsq/wlsq, data from the own / another family); each is run on the real class as construct(start "
                "values + f_<n>, in three argument orders) -> evaluate (all three) -> fit -> re-fit (thorough: 8 variants with other seeds and sample sizes); plus "
                "every (family, parameter, special fixed value kind: 0.0 / int 0 / -0.0 / negative / outside [-pi,pi] / "
                "integer-typed / far from the data / 1e-9 and 25 for the log-normal mu) with MLE; a ScipyDistribution subclass of "
                "scipy's vonmises with f_scale (and f_loc incl. 4.0, f_kappa); every (family, name) with f_<name>=None "
                "passed explicitly; ConditionalDistribution.fit without method against method='mle'; every life cycle is also run at two positions of two "
                "seeded shuffled sequential runs in one process and must reproduce outcomes and fitted parameters bit "
                "for bit; "
                "plus every (family, non-empty proper F) as a ConditionalDistribution with the other parameters "
                "dependent, before and after ConditionalDistribution.fit; non-trivial = F non-empty or the fit is "
                "specified to succeed; distinct = distinct case tuple and variant")
    ctx.trusted = ["TLC 1.8 evaluating spec/ParamRoutingOps.tla (Supports table) / Trace_C11.tla",
                   "the declared fixed value itself is the oracle; data drawn with numpy/scipy directly"]
    ctx.assumptions = ["data lie inside the support that the declared fixed values imply (e.g. above a fixed "
                       "location); fixed values are within ~5 % of the generating parameters",
                       "all parameters fixed at once is not a proper subset and is not exercised",
                       "FreeEstimated is observed as: every free parameter is finite, differs from its value before the "
                       "fit, and (MLE) the log-likelihood through the object's own pdf at the fit is not lower than at "
                       "the generating parameters (own-family data are generated with the fixed parameters at their fixed "
                       "values) nor at +-1 % of each free parameter, up to 2e-3",
                       "the likelihood statement is not applied to the scipy-vonmises subclass (scipy's fit ignores the "
                       "scale), not to lsq/wlsq fits, and not while a parameter that moves the support boundary is free "
                       "(Weibull gamma, Scipy loc, beta scale: non-regular likelihood, recorded limits of C12); for the "
                       "norm-fit log-normal 'estimated' means: equal to the sample mean / sample std (ddof=1)",
                       "plain and f_ value for the same name are both passed, in three argument orders (plain keywords first, "
                       "f_ keywords first, plain values positionally + f_ keywords); the first instance runs the fits"]
    ctx.model_check("ParamRouting", "MC_ParamRouting_fit.cfg", must_cover=("NewDist", "Eval", "FitDist"))
    ctx.model_check("ParamRouting", "MC_ParamRouting_fit_mut_ctor.cfg", expect_violation="FixedHonoured")
    ctx.model_check("ParamRouting", "MC_ParamRouting_fit_mut_fitkw.cfg", expect_violation="FitOutcomeAsSpecified")
    ctx.model_check("ParamRouting", "MC_ParamRouting_fit_mut_overwrite.cfg", expect_violation="FixedStable")
    ctx.model_check("ParamRouting", "MC_ParamRouting_fit_mut_falsy.cfg", expect_violation="FixedHonoured")
    ctx.model_check("ParamRouting", "MC_ParamRouting_fit_mut_wrap.cfg", expect_violation="FixedHonoured")
    ctx.model_check("ParamRouting", "MC_ParamRouting_fit_mut_wrapscipy.cfg", expect_violation="FixedHonoured")
    ctx.model_check("ParamRouting", "MC_ParamRouting_fit_mut_none.cfg", expect_violation="EvalUsesPar")
    ctx.model_check("ParamRouting", "MC_ParamRouting_cond_quick.cfg", must_cover=("CondCall",))
    ctx.model_check("ParamRoutingHist", ctx.pick("MC_ParamRoutingHist_quick.cfg", "MC_ParamRoutingHist_thorough.cfg"),
                    must_cover=("New", "EvalKw", "Fit"))
    ctx.model_check("ParamRoutingHist", "MC_ParamRoutingHist_mut_fitkw.cfg",
                    expect_violation="InstancesShareNoState")
    fcases = ctx.generate("ParamRouting", "Gen_ParamRouting_fit.cfg")
    gen_c = ctx.generate("ParamRouting", "Gen_ParamRouting_cond.cfg")
    ccases = [dict(fam=c["fam"], F=c["F"]) for c in gen_c
              if c["chain"] == "plain" and c["shape"] == "ss" and c["method"] == "cdf" and c["F"]]
    fcases, frecs, crecs, failing = judge(ctx, vc, fcases, ccases, reps=ctx.pick(1, 8))
    gf = next((r for r in frecs if r["id"] not in failing and r["F"] and r["outcome1"] == "ok"), None)
    gc = next((r for r in crecs if r["id"] not in failing), None)
    if gf is not None and gc is not None:
        selftest(ctx, gf, gc)
    elif not ctx.violations:
        raise Machinery("no accepted record to run the self-test on")
    else:
        ctx.notes["selftest"] = "skipped: no accepted record of each kind (violations are reported)"
    k = next(i for i, c in enumerate(fcases) if c["fam"] == "GenGamma" and c["F"] == ["m"] and c["fitm"] == "mle")
    ctx.sample({"case": fcases[k], "record": frecs[k]})
    ctx.sample({"case": ccases[len(ccases) // 2], "record": crecs[len(ccases) // 2]})
    ctx.exhaustive = True
    ctx.notes["fit_life_cycles"] = len(fcases)
    ctx.notes["special_fixed_value_cases"] = sum(1 for c in fcases if c.get("special", "regular") != "regular")
    ctx.notes["fits_specified_ok"] = sum(1 for r in frecs if r["outcome1"] == "ok")
    ctx.notes["fits_specified_not_implemented"] = sum(1 for r in frecs if r["outcome1"] == "NotImplementedError")
    ctx.notes["conditional_fixed_cases"] = len(ccases)


def replay(ctx, case):
    vc = import_virocon()
    c = case["case"]
    if c["kind"] == "fit" and c.get("history"):
        # an order dependence needs the other life cycles: re-run them all (same variant)
        allc = [dict(x, variant=c["case"].get("variant", 0)) for x in ctx.generate("ParamRouting", "Gen_ParamRouting_fit.cfg")]
        judge(ctx, vc, allc, [], summary=False)
    elif c["kind"] == "fit":
        judge(ctx, vc, [c["case"]], [], summary=False)
    else:
        judge(ctx, vc, [], [c["case"]], summary=False)
