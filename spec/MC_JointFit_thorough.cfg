SPECIFICATION Spec
CONSTANTS NRows = 5  MaxV = 3  Upw = 2  MinPts = 2  NDim = 2  MaskSpace = "position"
CHECK_DEADLOCK FALSE
INVARIANT IntervalOwnData
INVARIANT KeptExactly
INVARIANT DepFitInputs
INVARIANT OptionsPerDim
