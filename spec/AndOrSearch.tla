----------------------------- MODULE AndOrSearch -----------------------------
(* The per-ray search of AndContour / OrContour as a state machine.                     *)
(*                                                                                      *)
(* Distances are integers in units of 0.1 / 2^MaxIter of max_distance: the search starts *)
(* at rel_dist 0.2 (= 2 * 2^MaxIter units) with step 0.1.  A sample point j exceeds the  *)
(* search point at distance D iff D < T[j] (AND: the smaller of its two axis ratios, OR: *)
(* the larger), so the exceedance count along a ray is the threshold profile             *)
(* count(D) = |{j : T[j] > D}|.  TLC explores every threshold vector.                    *)
(*                                                                                      *)
(* One loop iteration of the code = action Iterate: evaluate at D, remember that         *)
(* vector, then move (out by the step if pe > alpha, else halve the step and move in),   *)
(* count the iteration, stop with a warning at MaxIter, else stop when within tolerance. *)
(* EmitNext is the mutation "the emitted point is the one of the NEXT iteration".        *)
EXTENDS AndOrOps, TLC

CONSTANTS NS,            \* sample size
          A, B,          \* alpha = A / B
          EN, ED,        \* allowed_error = EN / ED
          MaxIter,
          TStep, TMax,   \* thresholds are multiples of TStep up to TMax
          EmitNext

VARIABLES T, pc, it, D, S, pe, vecD, warned, out
vars == <<T, pc, it, D, S, pe, vecD, warned, out>>

Unit == 2 ^ MaxIter
Thr == {k * TStep : k \in 0..(TMax \div TStep)}
CountAt(d) == Cardinality({j \in 1..NS : T[j] > d})

Init == /\ T \in {t \in [1..NS -> Thr] : \A j \in 1..(NS - 1) : t[j] >= t[j + 1]}
        /\ pc = "loop" /\ it = 0 /\ D = 2 * Unit /\ S = Unit
        /\ pe = 0 /\ vecD = -1 /\ warned = FALSE /\ out = -1

Iterate ==
    /\ pc = "loop"
    /\ LET c == CountAt(D) IN
         /\ pe' = c
         /\ vecD' = D
         /\ IF Above(c, NS, A, B) THEN D' = D + S /\ S' = S
            ELSE S' = S \div 2 /\ D' = D - (S \div 2)
         /\ it' = it + 1
         /\ IF it + 1 = MaxIter THEN warned' = TRUE /\ pc' = "exit"
            ELSE warned' = FALSE /\ pc' = IF InTol(c, NS, A, B, EN, ED) THEN "exit" ELSE "loop"
    /\ UNCHANGED <<T, out>>

Emit ==
    /\ pc = "exit"
    /\ out' = IF EmitNext THEN D ELSE vecD
    /\ pc' = "done"
    /\ UNCHANGED <<T, it, D, S, pe, vecD, warned>>

Next == Iterate \/ Emit
Spec == Init /\ [][Next]_vars

PointIsLastEvaluated == pc = "done" => out = vecD /\ pe = CountAt(out)
WithinTolerance == pc = "done" /\ ~warned => InTol(CountAt(out), NS, A, B, EN, ED)
WarnIffMaxIter == pc \in {"exit", "done"} => (warned <=> it = MaxIter)
StepHalves == S >= 0 /\ D >= 0
=============================================================================
