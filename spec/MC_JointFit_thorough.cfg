SPECIFICATION Spec
CONSTANTS NRows = 5  MaxV = 3  Upw = 2  MinPts = 2  NDim = 2  MaskSpace = "position"  WeightSpace = "sliced"  Opts = {"none", "wlsq", "wlsqarr"}
CHECK_DEADLOCK FALSE
INVARIANT IntervalOwnData
INVARIANT KeptExactly
INVARIANT DepFitInputs
INVARIANT OptionsPerDim
INVARIANT IntervalOwnWeights
