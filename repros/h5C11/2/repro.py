"""C11/C12: GeneralizedGammaDistribution MLE with m fixed (at its true value) and default
start values returns a NEGATIVE c and loses likelihood against the generating parameters."""
import sys
import numpy as np
import scipy.stats as sts
from scipy.special import gammaln
from virocon.distributions import GeneralizedGammaDistribution


def loglik(x, m, c, lam):
    """Log-likelihood of the density documented by virocon, written out by hand:
    f(x) = lam**(c m) c x**(c m - 1) exp(-(lam x)**c) / Gamma(m);  only defined for c > 0."""
    if not (m > 0 and c > 0 and lam > 0):
        return float("nan")  # not a density
    return float(
        np.sum(c * m * np.log(lam) + np.log(c) + (c * m - 1) * np.log(x) - (lam * x) ** c - gammaln(m))
    )


def loglik_scipy(x, m, c, lam):  # what scipy evaluates (uses |c|), for the comparison
    return float(np.sum(sts.gengamma.logpdf(x, m, c, loc=0, scale=1 / lam)))


violations = 0
cases = [  # (m, c, median of the data, n)
    (2.0, 1.5, 0.1, 1000),
    (2.0, 2.5, 0.07, 200),
    (5.0, 1.5, 0.3, 1000),
    (5.0, 2.5, 0.3, 200),
    (0.5, 1.5, 20.0, 1000),
]
for m, c, median, n in cases:
    lam = sts.gengamma.ppf(0.5, m, c) / median
    data = sts.gengamma.rvs(m, c, loc=0, scale=1 / lam, size=n, random_state=n)
    assert data.min() > 0 and 0.05 <= np.median(data) <= 20.5

    dist = GeneralizedGammaDistribution(f_m=m)  # m fixed at its true value, default start for c, lambda_
    assert dist.m == m
    dist.fit(data)
    assert dist.m == m  # the fixed parameter itself is kept
    ll_fit = loglik_scipy(data, dist.m, dist.c, dist.lambda_)
    ll_gen = loglik_scipy(data, m, c, lam)
    assert abs(ll_gen - loglik(data, m, c, lam)) < 1e-6 * abs(ll_gen) + 1e-6
    inadmissible = not (dist.c > 0 and dist.lambda_ > 0 and np.isfinite(dist.c))
    if inadmissible or ll_fit < ll_gen - 1.0:
        violations += 1
        print(
            f"m={m} (fixed) c={c} lambda_={lam:.4g} median={median} n={n}: fitted {dist}\n"
            f"   loglik fitted {ll_fit:.1f} < generating {ll_gen:.1f};  c admissible: {not inadmissible};"
            f" documented density at the fitted parameters: loglik = {loglik(data, dist.m, dist.c, dist.lambda_)}"
        )

print("violations:", violations)
sys.exit(1 if violations else 0)
