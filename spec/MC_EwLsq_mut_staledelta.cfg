SPECIFICATION Spec
CONSTANTS MaxLen = 2  MaxV = 3  Wts = {1, 2}  CoSort = TRUE  ZerosFirst = FALSE  PosRule = "mid"  TieByWeight = TRUE  SharedPos = FALSE  StaleDelta = TRUE  StalePositions = FALSE  HistLen = 1
CHECK_DEADLOCK FALSE
INVARIANT LinearisedForOwnDelta
