"""Shared by C02 and C15: model builder over the shipped families, highest-density-contour
observation (wrapping the staticmethod cumsum_biggest_until), independent cell
probabilities, exact projection to two-limb naturals, line-sorter point sets.

Nothing here judges anything: observations are projected to integers and judged by
spec/Trace_C02.tla / spec/Trace_C15.tla.
"""
import math
import warnings
from decimal import Decimal

import numpy as np

from .common import Machinery

S18 = 10 ** 18
B9 = 10 ** 9

# ---------------------------------------------------------------------------------------
# exact fixed point at scale 1e18


def q18(x):
    """exact value of the float x times 1e18, rounded half up, as a python int (x >= 0)"""
    x = float(x)
    if not (x >= 0.0) or x == float("inf"):
        raise Machinery(f"q18: value {x!r} is not a finite non-negative float")
    n, d = x.as_integer_ratio()
    return (2 * n * S18 + d) // (2 * d)


def l2(q):
    """python int -> [hi, lo] base 1e9 (hi must fit 32 bit)"""
    h, lo = divmod(int(q), B9)
    if h >= 2 ** 31 - 1:
        raise Machinery(f"two-limb overflow: {q}")
    return [h, lo]


def limbs_of_array(arr):
    hs, ls = [], []
    for v in np.asarray(arr, dtype=float).ravel().tolist():
        h, lo = divmod(q18(v), B9)
        hs.append(h)
        ls.append(lo)
    return hs, ls


# ---------------------------------------------------------------------------------------
# models: every shipped family, marginal or conditional with dependence functions that
# are defined for every real conditioning value (|x| inside)

FORMS = ("pow", "exp", "lin", "lnsq", "inv")


def dep_closure(form, a, b, c):
    """the same formulas as a factory-made closure WITHOUT free parameters: every such function
    has the same __name__ and an empty parameter dict (so the same repr), whatever constants
    it captured - as lambdas / closures written by users do"""
    if form not in FORMS:
        raise Machinery(f"unknown dependence form {form}")

    def dep(x):
        ax = np.abs(x)
        if form == "pow":
            return a + b * ax ** c
        if form == "exp":
            return a + b * np.exp(-c * ax)
        if form == "lin":
            return a + b * x
        if form == "lnsq":
            return np.log(a + b * np.sqrt(ax))
        return 1.0 / (a + b * ax)

    return dep


def dep_function(form, a, b, c):
    if form == "pow":
        def f(x, a=a, b=b, c=c):
            return a + b * np.abs(x) ** c
    elif form == "exp":
        def f(x, a=a, b=b, c=c):
            return a + b * np.exp(-c * np.abs(x))
    elif form == "lin":
        def f(x, a=a, b=b, c=c):
            return a + b * x + 0.0 * c
    elif form == "lnsq":
        def f(x, a=a, b=b, c=c):
            return np.log(a + b * np.sqrt(np.abs(x))) + 0.0 * c
    elif form == "inv":
        def f(x, a=a, b=b, c=c):
            return 1.0 / (a + b * np.abs(x)) + 0.0 * c
    else:
        raise Machinery(f"unknown dependence form {form}")
    f.__name__ = "dep_" + form
    return f


def dep_value(form, a, b, c, x):
    """the same formulas written for a scalar, used only to sanity-check generated specs"""
    ax = abs(x)
    return {"pow": lambda: a + b * ax ** c, "exp": lambda: a + b * math.exp(-c * ax),
            "lin": lambda: a + b * x, "lnsq": lambda: math.log(a + b * math.sqrt(ax)),
            "inv": lambda: 1.0 / (a + b * ax)}[form]()


def _u(rng, lo, hi, nd=3):
    return round(float(rng.uniform(lo, hi)), nd)


# family -> (marginal parameter sampler, conditional sampler)
# a conditional sampler returns (fixed: {name: value}, dep: {name: [form, a, b, c]})


def marginal_params(rng, fam):
    if fam == "Weibull":
        return dict(alpha=_u(rng, 0.8, 3.0), beta=_u(rng, 0.9, 2.6), gamma=[0.0, 0.0, 0.5][int(rng.integers(3))])
    if fam == "LogNormal":
        return dict(mu=_u(rng, 0.0, 1.3), sigma=_u(rng, 0.2, 0.6))
    if fam == "Normal":
        return dict(mu=_u(rng, 3.0, 8.0), sigma=_u(rng, 0.5, 2.0))
    if fam == "LogNormalNormFit":
        return dict(mu_norm=_u(rng, 2.0, 6.0), sigma_norm=_u(rng, 0.5, 2.0))
    if fam == "ExponentiatedWeibull":
        return dict(alpha=_u(rng, 0.5, 2.0), beta=_u(rng, 0.8, 2.0), delta=_u(rng, 1.0, 8.0))
    if fam == "GeneralizedGamma":
        return dict(m=_u(rng, 1.0, 3.0), c=_u(rng, 0.8, 2.0), lambda_=_u(rng, 0.3, 1.5))
    if fam == "VonMises":
        return dict(kappa=_u(rng, 0.5, 4.0), mu=_u(rng, 2.0, 4.0))
    raise Machinery(fam)


def conditional_params(rng, fam, strong=False):
    k = 4.0 if strong else 1.0
    if fam == "Weibull":
        return (dict(gamma=0.0),
                dict(alpha=["pow", _u(rng, 0.5, 2.0), _u(rng, 0.2, 1.0) * k, _u(rng, 0.6, 1.4)],
                     beta=["pow", _u(rng, 1.2, 2.5), _u(rng, 0.0, 0.3), _u(rng, 0.5, 1.2)]))
    if fam == "LogNormal":
        if rng.integers(2):
            mu = ["lnsq", _u(rng, 1.0, 4.0), _u(rng, 0.5, 3.0) * k, 0.0]
        else:
            mu = ["pow", _u(rng, 0.2, 1.0), _u(rng, 0.1, 0.4) * k, _u(rng, 0.4, 1.0)]
        if strong:
            return {}, dict(mu=mu, sigma=["exp", _u(rng, 0.03, 0.08), _u(rng, 0.02, 0.1), _u(rng, 0.1, 0.8)])
        return {}, dict(mu=mu, sigma=["exp", _u(rng, 0.05, 0.2), _u(rng, 0.1, 0.4), _u(rng, 0.1, 0.8)])
    if fam == "Normal":
        return {}, dict(mu=["lin", _u(rng, 1.0, 5.0), _u(rng, 0.3, 1.5) * k, 0.0],
                        sigma=["pow", _u(rng, 0.15 if strong else 0.4, 0.3 if strong else 1.2),
                               _u(rng, 0.0, 0.2), 1.0])
    if fam == "LogNormalNormFit":
        return {}, dict(mu_norm=["pow", _u(rng, 2.0, 5.0), _u(rng, 0.2, 1.0) * k, 1.0],
                        sigma_norm=["pow", _u(rng, 0.4, 1.2), _u(rng, 0.0, 0.2), 1.0])
    if fam == "ExponentiatedWeibull":
        return (dict(beta=_u(rng, 0.9, 2.0), delta=_u(rng, 1.0, 6.0)),
                dict(alpha=["pow", _u(rng, 0.5, 1.5), _u(rng, 0.1, 0.6) * k, 1.0]))
    if fam == "GeneralizedGamma":
        return (dict(m=_u(rng, 1.0, 3.0), c=_u(rng, 0.9, 2.0)),
                dict(lambda_=["inv", _u(rng, 0.6, 2.0), _u(rng, 0.1, 0.5) * k, 0.0]))
    if fam == "VonMises":
        return (dict(kappa=_u(rng, 0.8, 4.0)),
                dict(mu=["lin", _u(rng, 2.0, 3.5), _u(rng, 0.05, 0.3) * k, 0.0]))
    raise Machinery(fam)


FAMILIES = ["Weibull", "LogNormal", "Normal", "LogNormalNormFit", "ExponentiatedWeibull",
            "GeneralizedGamma", "VonMises"]

# all admissible conditional_on structures
STRUCTURES = {2: [[None, None], [None, 0]],
              3: [[None, c1, c2] for c1 in (None, 0) for c2 in (None, 0, 1)]}


_EXTRA_CLASSES = {}


def family_class(vc, fam):
    if fam == "Beta":  # a user distribution derived from the shipped ScipyDistribution base class
        if "Beta" not in _EXTRA_CLASSES:
            class BetaDistribution(vc.distributions.ScipyDistribution):
                scipy_dist_name = "beta"
            _EXTRA_CLASSES["Beta"] = BetaDistribution
        return _EXTRA_CLASSES["Beta"]
    return getattr(vc.distributions, fam + "Distribution")


def random_model_spec(rng, structure, families=None, strong=False):
    """a model description as plain data (replayable)"""
    dims = []
    for i, cond in enumerate(structure):
        if families:
            fam = families[i]
        elif strong and cond is not None:  # families whose conditional can be made narrow
            fam = ["Normal", "VonMises", "LogNormal", "Normal"][int(rng.integers(4))]
        else:
            fam = FAMILIES[int(rng.integers(len(FAMILIES)))]
        if cond is None:
            dims.append(dict(family=fam, cond=None, params=marginal_params(rng, fam)))
        else:
            fixed, dep = conditional_params(rng, fam, strong)
            dims.append(dict(family=fam, cond=int(cond), fixed=fixed, dep=dep))
    return dims


def build_model(vc, dims):
    descs = []
    for d in dims:
        cls = family_class(vc, d["family"])
        if d["cond"] is None:
            descs.append({"distribution": cls(**d["params"])})
        else:
            dist = cls(**{"f_" + k: v for k, v in d["fixed"].items()})
            mk = dep_closure if d.get("closure") else dep_function
            par = {k: vc.DependenceFunction(mk(*v)) for k, v in d["dep"].items()}
            descs.append({"distribution": dist, "conditional_on": d["cond"], "parameters": par})
    return vc.GlobalHierarchicalModel(descs)


def model_key(dims):
    return "|".join(
        d["family"] + ("" if d["cond"] is None else f"<-{d['cond']}") for d in dims)


def support_box(model, dims, alpha):
    """per dimension an interval that holds all but ~alpha/50 of the probability, found with
    the model's own icdf (used only to CHOOSE grids - any grid is an admissible input)"""
    p_lo, p_hi = min(1e-4, alpha / 50.0), 1.0 - alpha / 50.0
    box = []
    for i, d in enumerate(dims):
        dist = model.distributions[i]
        if d["cond"] is None:
            lo, hi = float(dist.icdf(p_lo)), float(dist.icdf(p_hi))
        else:
            glo, ghi = box[d["cond"]]
            los, his = [], []
            for g in np.linspace(glo, ghi, 9):
                los.append(float(dist.icdf(p_lo, given=g)))
                his.append(float(dist.icdf(p_hi, given=g)))
            lo, hi = min(los), max(his)
        if not (math.isfinite(lo) and math.isfinite(hi) and hi > lo):
            raise Machinery(f"support box of dimension {i} is not finite: {lo}, {hi}")
        box.append((lo, hi))
    return box


# ---------------------------------------------------------------------------------------
# observing one contour


def observe_contour(vc, case, want_pref=True, want_resort=True, model=None):
    """Run HighestDensityContour on case (plain dict) and return what was observed.

    cumsum_biggest_until is a staticmethod: it is wrapped from here (no repo change) to
    capture the array the code selected from, the limit, the mask and the last value."""
    if case.get("history") and model is None:
        return observe_history(vc, case, want_pref, want_resort)
    if model is None:
        model = build_model(vc, case["model"])
    alpha = float(case["alpha"])
    limits = None if case["limits"] is None else [tuple(x) for x in case["limits"]]
    deltas = case["deltas"]
    if case.get("np_int"):   # integer limits / cell sizes given as numpy integers instead of python ints
        limits = [tuple(np.int64(v) if isinstance(v, int) else v for v in t) for t in limits]
        if isinstance(deltas, list):
            deltas = [np.int64(v) if isinstance(v, int) else v for v in deltas]
        elif isinstance(deltas, int):
            deltas = np.int64(deltas)
    alpha_arg = alpha
    typed = case.get("typed")
    if typed:   # numpy scalars of a narrower float type, e.g. the float32 min / max of a data set
        dt = getattr(np, typed["dtype"])
        if typed.get("limits") and limits is not None:
            limits = [tuple(dt(v) for v in t) for t in limits]
        if typed.get("deltas") and deltas is not None:
            deltas = [dt(v) for v in deltas] if isinstance(deltas, list) else dt(deltas)
        if typed.get("alpha"):
            alpha_arg = dt(alpha)
            if float(alpha_arg) != alpha:
                raise Machinery(f"alpha {alpha} is not representable as {typed['dtype']}")
    HDC = vc.HighestDensityContour
    orig = HDC.__dict__["cumsum_biggest_until"]
    inner = orig.__func__
    cap = {"calls": 0}

    def wrapper(array, limit, key=None):
        # key (since D75): the cells are ranked by their density, the probabilities are only accumulated
        cap["calls"] += 1
        cap["P"] = np.array(array, dtype=float, copy=True)
        cap["limit"] = float(limit)
        if key is not None:
            cap["key"] = np.array(key, dtype=float, copy=True)
        res = inner(array, limit) if key is None else inner(array, limit, key=key)
        cap["mask"] = np.array(res[0], dtype=float, copy=True)
        cap["last"] = float(res[1])
        return res

    obs = dict(exc="", warned=False, otherwarn=[])
    HDC.cumsum_biggest_until = staticmethod(wrapper)
    try:
        with warnings.catch_warnings(record=True) as wlist:
            warnings.simplefilter("always")
            if case.get("np_seed") is not None:
                np.random.seed(case["np_seed"])  # default limits draw a Monte-Carlo sample
            try:
                contour = HDC(model, alpha_arg, limits=limits, deltas=deltas)
            except Exception as e:  # noqa
                obs["exc"] = f"{type(e).__name__}: {e}"[:200]
                contour = None
    finally:
        HDC.cumsum_biggest_until = orig
    for w in wlist:
        if issubclass(w.category, RuntimeWarning) and "could not be reached" in str(w.message):
            obs["warned"] = True
        else:
            obs["otherwarn"].append(f"{w.category.__name__}: {w.message}"[:120])
    obs["cap"] = cap
    obs["alpha"] = alpha
    obs["model_obj"] = model
    if contour is None:
        return obs
    obs["contour"] = contour
    centres = [np.asarray(c, dtype=float) for c in contour.cell_center_coordinates]
    obs["centres"] = centres
    obs["shape"] = [len(c) for c in centres]
    obs["deltas_used"] = [float(d) for d in contour.deltas]
    obs["limits_used"] = [[float(min(t)), float(max(t))] for t in contour.limits]
    obs["fm"] = float(contour.fm)
    # the DECLARED grid in float64: x_k = min + k * delta from the limits and cell sizes the contour
    # reports (exact values of whatever scalar type was passed), as many cells as were returned
    declared = [obs["limits_used"][i][0] + np.arange(len(centres[i]), dtype=float) * obs["deltas_used"][i]
                for i in range(len(centres))]
    gridok = True
    for i, (x, xd) in enumerate(zip(centres, declared)):
        d = obs["deltas_used"][i]
        lo, hi = obs["limits_used"][i]
        # np.arange(min, max + delta, delta): the last centre lies in [max - delta, max + delta) up to rounding
        if not (len(x) >= 2 and np.all(np.abs(x - xd) <= 1e-12 * np.maximum(1.0, np.abs(xd)) + 1e-9 * d)
                and hi - d * (1 + 1e-9) <= xd[-1] <= hi + d * (1 + 1e-9)):
            gridok = False
    obs["gridok"] = bool(gridok)
    obs["declared"] = declared
    if want_pref:
        obs["pref"] = reference_cell_probabilities(model, declared, obs["deltas_used"])
    obs.update(coordinate_sets(contour, centres))
    if want_resort and obs["isarray"] and len(centres) == 2 and obs["offgrid"] == 0:
        # what the line-sorting utility returns for the returned cells in raster order
        cells = sorted(obs["sets"][0])
        n1 = obs["shape"][1]
        xs = np.array([centres[0][(c - 1) // n1] for c in cells])
        ys = np.array([centres[1][(c - 1) % n1] for c in cells])
        xx, yy = vc.utils.sort_points_to_form_continuous_line(xs, ys, search_for_optimal_start=True)
        i0 = {float(v): k for k, v in enumerate(centres[0])}
        i1 = {float(v): k for k, v in enumerate(centres[1])}
        obs["resorted"] = [i0[float(a)] * n1 + i1[float(b)] + 1 for a, b in zip(xx, yy)]
    return obs


def reference_cell_probabilities(model, centres, deltas):
    """centres: the declared grid (min + k * delta in float64).
    Pref[c] = prod_i (F_i(x_i + d_i/2 | x_cond) - F_i(x_i - d_i/2 | x_cond)), the documented
    cell probability, computed with explicit loops over the cell centres and the declared
    structure (no reshape / broadcasting as in cell_averaged_pdf)."""
    n = len(centres)
    cond = list(model.conditional_on)
    factors = []  # factors[i][g][j] : g = index on the conditioning axis (0 if unconditional)
    for i in range(n):
        x = centres[i]
        lo = x - deltas[i] / 2.0
        hi = x + deltas[i] / 2.0
        dist = model.distributions[i]
        rows = []
        if cond[i] is None:
            flo = np.asarray(dist.cdf(lo), dtype=float)
            fhi = np.asarray(dist.cdf(hi), dtype=float)
            rows.append([float(fhi[j] - flo[j]) for j in range(len(x))])
        else:
            for g in centres[cond[i]]:
                flo = np.asarray(dist.cdf(lo, given=float(g)), dtype=float)
                fhi = np.asarray(dist.cdf(hi, given=float(g)), dtype=float)
                rows.append([float(fhi[j] - flo[j]) for j in range(len(x))])
        factors.append(rows)
    shape = tuple(len(c) for c in centres)
    out = np.empty(shape, dtype=float)
    for idx in np.ndindex(*shape):
        p = 1.0
        for i in range(n):
            g = 0 if cond[i] is None else idx[cond[i]]
            p *= factors[i][g][idx[i]]
        out[idx] = p
    return out


def coordinate_sets(contour, centres):
    """returned coordinates -> cell numbers (1 + C-order index); exact float lookup"""
    n = len(centres)
    shape = [len(c) for c in centres]
    lut = [{float(v): k for k, v in enumerate(c)} for c in centres]
    coords = contour.coordinates
    isarray = isinstance(coords, np.ndarray)
    raw_sets = []
    arrshape = [0, 0]
    if isarray:
        arrshape = [int(s) for s in coords.shape] if coords.ndim == 2 else [int(coords.size), 0]
        if coords.ndim == 2 and coords.shape[1] == n:
            raw_sets.append([coords[:, d] for d in range(n)])
        else:
            raw_sets.append([np.array([]) for _ in range(n)])
    else:
        for part in coords:
            raw_sets.append([np.asarray(a, dtype=float) for a in part])
    sets, offgrid, ragged = [], 0, False
    for part in raw_sets:
        if len(part) != n or len({len(a) for a in part}) != 1:
            ragged = True
            sets.append([])
            continue
        cells = []
        for k in range(len(part[0])):
            lin, ok = 0, True
            for d in range(n):
                j = lut[d].get(float(part[d][k]))
                if j is None:
                    ok = False
                    break
                lin = lin * shape[d] + j
            if ok:
                cells.append(lin + 1)
            else:
                offgrid += 1
        sets.append(cells)
    return dict(sets=sets, offgrid=offgrid, ragged=ragged, isarray=bool(isarray), arrshape=arrshape)


# ---------------------------------------------------------------------------------------
# contour cases


def alpha_decimal(rng, klass):
    """alpha as a decimal literal (so that alpha * 1e18 is an integer)"""
    if klass == "tiny":
        return ["1e-6", "2.5e-6", "1e-5", "4e-5"][int(rng.integers(4))]
    if klass == "small":
        return ["0.0001", "0.00037", "0.001", "0.0025"][int(rng.integers(4))]
    if klass == "mid":
        return ["0.01", "0.02", "0.05", "0.0137"][int(rng.integers(4))]
    return ["0.1", "0.2", "0.3", "0.25"][int(rng.integers(4))]


def alpha_q(alpha_str):
    q = Decimal(alpha_str) * S18
    if q != q.to_integral_value():
        raise Machinery(f"alpha {alpha_str} is not a multiple of 1e-18")
    return int(q)


def make_contour_case(vc, rng, cfg, cells2, cells3):
    """cfg: one configuration class enumerated by TLC (spec/HDCGen.tla); cells2 / cells3 =
    (lo, hi) cells per axis for 2-D / 3-D grids.  Returns the case as plain data."""
    ndim = cfg["dim"]
    c = {"none": None, "zero": 0, "one": 1}
    structure = [None, c[cfg["cond1"]]] + ([c[cfg["cond2"]]] if ndim == 3 else [])
    strong = cfg["grid"] == "cut"
    for _attempt in range(20):
        dims = random_model_spec(rng, structure, strong=strong)
        if strong:  # narrow conditionals: the enclosed region falls apart on a coarse grid
            for d in dims:
                if d["cond"] is not None and d["family"] == "VonMises":
                    d["fixed"]["kappa"] = _u(rng, 6.0, 12.0)
        alpha_s = alpha_decimal(rng, cfg["alpha"])
        alpha = float(alpha_s)
        try:
            with warnings.catch_warnings():
                warnings.simplefilter("ignore")
                model = build_model(vc, dims)
                box = support_box(model, dims, alpha)
        except Machinery:
            continue
        break
    else:
        raise Machinery("could not draw a model with a finite support box")
    lo_n, hi_n = cells2 if ndim == 2 else cells3
    if cfg["grid"] == "small":
        # the warn path encloses the whole grid; its boundary is the shell of the grid - keep it modest
        hi_n = min(hi_n, 70 if ndim == 2 else 18)
    limits = []
    for i, (lo, hi) in enumerate(box):
        w = hi - lo
        nonneg = dims[i]["family"] not in ("Normal", "VonMises")
        if cfg["limits"] == "default":
            lo, hi = 0.0, hi  # what _check_grid will choose (approximately)
        elif cfg["grid"] == "small":  # central part only: 1 - alpha cannot be reached
            mid = lo + w * float(rng.uniform(0.25, 0.45))
            lo, hi = mid - 0.12 * w, mid + 0.12 * w
        else:
            lo = 0.0 if (nonneg and rng.integers(2)) else lo - 0.05 * w * float(rng.uniform(0, 1))
            hi = hi + 0.1 * w * float(rng.uniform(0, 1))
        if nonneg:
            lo = max(lo, 0.0)
        lo, hi = round(lo, 3), round(hi, 3)
        if hi <= lo:
            hi = lo + 1.0
        limits.append([lo, hi])
    widths = [b - a for a, b in limits]
    n0 = int(rng.integers(lo_n, hi_n + 1))
    ns = [n0] + [max(lo_n, min(hi_n, int(round(n0 * float(rng.uniform(0.7, 1.4)))))) for _ in range(1, ndim)]
    if strong:  # few cells on the conditioning axes, many on the dependent ones
        for i, d in enumerate(dims):
            if d["cond"] is not None:
                ns[d["cond"]] = int(rng.integers(6, 13))
                ns[i] = max(ns[i], min(hi_n, 3 * lo_n))
    deltas = [w / n for w, n in zip(widths, ns)]
    ratio = {"1": 1.0, "3": 3.0, "10": 10.0}[cfg["aniso"]]
    if ratio != 1.0:  # absolute cell sizes in the requested ratio on one pair of axes
        j = int(rng.integers(1, ndim))
        for cand in (deltas[0] * ratio, deltas[0] / ratio):
            if 5 <= widths[j] / cand <= 4 * hi_n:
                deltas[j] = cand
                break
        else:
            k = max(5.0, min(4.0 * hi_n, widths[j] / (deltas[0] * ratio)))
            deltas[j] = widths[j] / k
            deltas[0] = deltas[j] / ratio if 5 <= widths[0] / (deltas[j] / ratio) <= 4 * hi_n else deltas[0]
    deltas = [float(f"{d:.4g}") for d in deltas]
    # safety cap on the number of cells (the harness records every cell)
    cap = 260000.0
    ncell = float(np.prod([w / d + 1 for w, d in zip(widths, deltas)]))
    if ncell > cap:
        f = (ncell / cap) ** (1.0 / ndim)
        deltas = [float(f"{d * f:.4g}") for d in deltas]
    case = dict(kind="hdc", model=dims, alpha=alpha_s, cfg=cfg, np_seed=int(rng.integers(1 << 30)))
    if cfg["deltas"] == "scalar":
        d = float(f"{max(widths) / n0:.4g}")
        for lim in limits:  # a narrow axis is widened to at least 5 cells (more empty cells, same model)
            if (lim[1] - lim[0]) / d < 5:
                lim[1] = round(lim[0] + 5 * d, 3)
        case["deltas"] = d
    elif cfg["deltas"] == "default":
        case["deltas"] = None
    else:
        case["deltas"] = deltas
    if cfg["limits"] == "default":
        case["limits"] = None
    elif cfg["limits"] == "reversed":
        case["limits"] = [[b, a] for a, b in limits]
    else:
        case["limits"] = limits
    return case


def case_key(case):
    if case["kind"] == "hdc":
        k = (f"{model_key(case['model'])} alpha={case['alpha']} limits={case['limits']} "
             f"deltas={case['deltas']} params={_params_digest(case['model'])}")
        if any(d.get("closure") for d in case["model"]):
            k += " dep=closures"
        if case.get("history"):
            h = case["history"]
            k += f" same-model-object after contour(alpha={h['alpha']}) and in-place change {h['mod']}".replace("'", "")
        if case.get("np_int"):
            k += " ints=np.int64"
        if case.get("typed"):
            t = case["typed"]
            k += f" {t['dtype']}:" + "+".join(x for x in ("limits", "deltas", "alpha") if t.get(x))
        if case.get("prelude"):
            k += " evaluated-after=" + ";".join(_params_digest(c["model"]) for c in case["prelude"])
        return k
    return (f"sorter {case['name']} n={len(case['x'])} optimal_start={case['optimal']}"
            + ("" if case.get("container", "ndarray") == "ndarray" else f" input={case['container']}"))


def _params_digest(dims):
    out = []
    for d in dims:
        if d["cond"] is None:
            out.append(",".join(f"{k}={v}" for k, v in d["params"].items()))
        else:
            out.append(",".join(f"{k}={v}" for k, v in {**d["fixed"], **d["dep"]}.items()))
    return ";".join(out).replace(" ", "")


# ---------------------------------------------------------------------------------------
# line-sorter point sets (all coordinates are multiples of 1e-6, projected exactly)

SQ = 10 ** 6


def _r6(a):
    return np.round(np.asarray(a, dtype=float), 6)


def sorter_point_sets(rng, n_random):
    """name, x, y.  Classes: regular circle, irregular spacing on an ellipse, clusters,
    boundary cells of an ellipse on an anisotropically stretched grid, lattice sets from
    the TLC counter-example family (two far-apart triangles), random clouds."""
    out = []
    t = np.linspace(0, 2 * np.pi, 10, endpoint=False)
    out.append(("circle10", _r6(np.cos(t)), _r6(np.sin(t))))
    for n in (24, 97):
        t = np.linspace(0, 2 * np.pi, n, endpoint=False)
        out.append((f"circle{n}", _r6(3 * np.cos(t)), _r6(3 * np.sin(t))))
    out.append(("tlc_counterexample", np.array([0, 0, 0, 1, 2, 3.0]), np.array([0, 1, 2, 4, 3, 4.0])))
    out.append(("two_triangles", np.array([0, 0, 0, 2, 3, 3.0]), np.array([0, 1, 2, 1, 0, 2.0])))
    # fewer than three points are planar point sets too
    out.append(("one_point", np.array([1.5]), np.array([2.0])))
    out.append(("two_points", np.array([0.0, 1.0]), np.array([0.0, 3.0])))
    for k in range(n_random):
        style = k % 5
        if style == 0:  # irregular spacing on an ellipse
            n = int(rng.integers(12, 80))
            t = np.sort(rng.uniform(0, 2 * np.pi, n)) ** 1.0
            t = np.sort(np.concatenate([t[: n // 2] * 0.2, t[n // 2:]]))
            a, b = rng.uniform(1, 10), rng.uniform(0.5, 3)
            x, y = a * np.cos(t), b * np.sin(t)
            name = f"ellipse_irregular#{k}"
        elif style == 1:  # clusters
            m = int(rng.integers(2, 6))
            xs, ys = [], []
            for _ in range(m):
                cx, cy = rng.uniform(-20, 20, 2)
                q = int(rng.integers(3, 15))
                xs.append(cx + rng.normal(0, 0.5, q))
                ys.append(cy + rng.normal(0, 0.5, q))
            x, y = np.concatenate(xs), np.concatenate(ys)
            name = f"clusters{m}#{k}"
        elif style == 2:  # boundary cells of an ellipse on a stretched grid
            dx, dy = [(0.25, 0.05), (0.05, 0.5), (1.0, 0.1), (0.3, 0.1)][int(rng.integers(4))]
            a, b = rng.uniform(2, 6), rng.uniform(1, 4)
            gx = np.arange(-8, 8 + dx, dx)
            gy = np.arange(-6, 6 + dy, dy)
            inside = (gx[:, None] / a) ** 2 + (gy[None, :] / b) ** 2 <= 1.0
            pad = np.pad(inside, 1)
            er = np.ones_like(inside)
            for sx in (0, 1, 2):
                for sy in (0, 1, 2):
                    er &= pad[sx:sx + inside.shape[0], sy:sy + inside.shape[1]]
            ii, jj = np.nonzero(inside & ~er)
            x, y = gx[ii], gy[jj]
            name = f"stretched_grid_boundary dx={dx} dy={dy}#{k}"
        elif style == 3:  # random cloud
            n = int(rng.integers(3, 120))
            x, y = rng.uniform(0, 10, n), rng.uniform(0, 1 + 9 * rng.uniform(), n)
            name = f"cloud#{k}"
        else:  # lattice points, duplicates of distances (ties) included
            n = int(rng.integers(3, 40))
            idx = rng.choice(64, size=n, replace=False)
            x, y = (idx // 8).astype(float), (idx % 8).astype(float) * [1.0, 0.1, 7.0][k % 3]
            name = f"lattice#{k}"
        x, y = _r6(x), _r6(y)
        if len(x) < 3:
            continue
        out.append((name, x, y))
    return out


def observe_sorter(vc, case):
    x = np.array(case["x"], dtype=float)
    y = np.array(case["y"], dtype=float)
    x0, y0 = x.copy(), y.copy()
    rec = dict(kind="sort", exc="", inp=[], out=[], samelen=True, mutated=False)
    cont = case.get("container", "ndarray")       # x, y are documented as array_like
    if cont == "list":
        xa, ya = x.tolist(), y.tolist()
    elif cont == "tuple":
        xa, ya = tuple(x.tolist()), tuple(y.tolist())
    elif cont == "series":   # positional meaning, labels shifted / permuted
        import pandas as pd
        n = len(x)
        xa = pd.Series(x.copy(), index=np.arange(n)[::-1] + 5)
        ya = pd.Series(y.copy(), index=np.arange(n) * 3 + 100)
    else:
        xa, ya = x, y
    try:
        with warnings.catch_warnings():
            warnings.simplefilter("ignore")
            xx, yy = vc.utils.sort_points_to_form_continuous_line(
                xa, ya, search_for_optimal_start=bool(case["optimal"]))
    except Exception as e:  # noqa
        rec["exc"] = f"{type(e).__name__}: {e}"[:200]
        return rec
    xx, yy = np.asarray(xx, dtype=float), np.asarray(yy, dtype=float)
    rec["samelen"] = bool(xx.shape == yy.shape and xx.ndim == 1)
    rec["mutated"] = bool(not (np.array_equal(np.asarray(xa, dtype=float), x0)
                               and np.array_equal(np.asarray(ya, dtype=float), y0)))

    def proj(a, b):
        pts = []
        for u, v in zip(a.tolist(), b.tolist()):
            qu, qv = u * SQ, v * SQ
            if abs(qu - round(qu)) > 1e-3 or abs(qv - round(qv)) > 1e-3:
                pts.append([10 ** 9 + len(pts), 10 ** 9])  # not a 1e-6 lattice value: cannot match an input
            else:
                pts.append([int(round(qu)), int(round(qv))])
        return pts

    rec["inp"] = proj(x0, y0)
    rec["out"] = proj(xx, yy) if rec["samelen"] else []
    return rec


# ---------------------------------------------------------------------------------------
# records


def record_c02(rid, case, obs):
    rec = dict(id=rid, kind="hdc", exc=obs["exc"], warned=bool(obs["warned"]),
               freshsame=bool(obs.get("fresh_same", True)))
    if obs["exc"]:
        return rec
    cap = obs["cap"]
    from fractions import Fraction
    vol = Fraction(1)
    for d in obs["deltas_used"]:
        vol *= Fraction(d)
    fmvol = Fraction(obs["fm"]) * vol * S18
    fmq = int(fmvol + Fraction(1, 2))
    ph, pl = limbs_of_array(cap["P"])
    fh, fl = limbs_of_array(obs["pref"])
    rec.update(shape=list(obs["shape"]), calls=int(cap["calls"]), aq=l2(alpha_q(case["alpha"])),
               gridok=bool(obs.get("gridok", True)),
               limq=l2(q18(cap["limit"])), Ph=ph, Pl=pl, Fh=fh, Fl=fl,
               R=[] if "mask" not in cap else [int(v) for v in cap["mask"].ravel().tolist()],
               lastq=l2(q18(cap["last"])) if "last" in cap else [0, 0], fmq=l2(fmq))
    rec["cmp"] = []
    rec["fr"] = []
    if not obs["warned"] and "mask" in cap:
        if not set(rec["R"]) <= {0, 1}:
            rec["exc"] = "mask is not 0/1"
        # exact float order of every cell's cell-averaged density against the reported fm
        c = obs["contour"]
        with warnings.catch_warnings():
            warnings.simplefilter("ignore")
            f = np.asarray(c.cell_averaged_joint_pdf(c.cell_center_coordinates), dtype=float)
        fm = float(c.fm)
        if f.shape == cap["P"].shape:
            flat = f.ravel()
            rec["cmp"] = [(1 if v > fm else (0 if v == fm else -1)) for v in flat.tolist()]
            # exact order embedding of the densities: rank among the distinct values
            rec["fr"] = [int(v) for v in np.unique(flat, return_inverse=True)[1].ravel().tolist()]
    return rec


def record_c15(rid, case, obs):
    rec = dict(id=rid, kind="hdc", exc=obs["exc"], freshsame=bool(obs.get("fresh_same", True)))
    if obs["exc"]:
        return rec
    cap = obs["cap"]
    n = int(np.prod(obs["shape"]))
    if obs["warned"] or "mask" not in cap:
        mask = [1] * n  # "1 - alpha could not be reached": the whole grid is enclosed
    else:
        mask = [int(v) for v in cap["mask"].ravel().tolist()]
    rec.update(shape=list(obs["shape"]), R=mask, sets=obs["sets"], offgrid=int(obs["offgrid"]),
               ragged=bool(obs["ragged"]), isarray=bool(obs["isarray"]), arrshape=list(obs["arrshape"]),
               resorted=obs.get("resorted", []))
    return rec


def tiny_region_cases():
    """2-D contours whose enclosed region has one / two cells (a narrow density on a coarse
    grid of 11 cells per axis): the single boundary piece has fewer than three points"""
    def n(mu):
        return dict(family="Normal", cond=None, params=dict(mu=mu, sigma=0.1))
    cfg = dict(dim=2, cond1="none", cond2="none", deltas="scalar", limits="explicit", aniso="1", grid="tiny",
               alpha="big")
    return [dict(kind="hdc", model=[n(4.0), n(5.5253)], alpha="0.3", limits=[[0.0, 10.0], [0.0, 10.0]],
                 deltas=1.0, cfg=cfg, np_seed=None),
            dict(kind="hdc", model=[n(5.5), n(5.5)], alpha="0.3", limits=[[0.0, 10.0], [0.0, 10.0]],
                 deltas=1.0, cfg=cfg, np_seed=None)]


def twin_cases(vc, rng, cfgs, n_pairs, cells2=(12, 45), cells3=(7, 14)):
    """Pairs of DIFFERENT models that look alike from outside: same structure, families and
    fixed parameters, dependence functions that are factory-made closures without free
    parameters (same __name__, different captured constants), on exactly the same limits
    and deltas.  Returned as the sequence A, B, A: each must be built from its own model."""
    import copy
    pool = [c for c in cfgs if c["grid"] == "fit" and c["deltas"] == "list" and c["limits"] == "explicit"
            and (c["cond1"] == "zero" or c["cond2"] != "none")]
    pool = [pool[i] for i in rng.permutation(len(pool))]
    out = []
    for cfg in pool[:n_pairs]:
        a = make_contour_case(vc, rng, cfg, cells2, cells3)
        for d in a["model"]:
            if d["cond"] is not None:
                d["closure"] = True
        b = copy.deepcopy(a)
        for d in b["model"]:
            if d["cond"] is not None:
                _fixed, dep = conditional_params(rng, d["family"])
                # same forms (so the same function name), other constants
                d["dep"] = {k: [d["dep"][k][0]] + dep[k][1:] if dep[k][0] == d["dep"][k][0]
                            else [d["dep"][k][0]] + [round(v * float(rng.uniform(1.15, 1.6)), 3) for v in d["dep"][k][1:]]
                            for k in d["dep"]}
        a["cfg"] = dict(cfg, grid="twin")
        b["cfg"] = dict(cfg, grid="twin")
        b["prelude"] = [copy.deepcopy(a)]
        a2 = copy.deepcopy(a)
        a2["prelude"] = [copy.deepcopy(a), {k: v for k, v in b.items() if k != "prelude"}]
        out += [a, b, a2]
    return out


def band_cases(rng, n):
    """Bi-modal densities whose highest-density region consists of tilted, parallel bands:
    X1 | X0 ~ U-shaped Beta(s, s) with location a + b * X0 (a ScipyDistribution subclass).
    The pieces are disconnected, but their axis-parallel bounding boxes overlap.  Half of
    the cases are 3-D (a further independent or conditional axis)."""
    out = []
    for k in range(n):
        three = bool(k % 2)
        s = _u(rng, 0.12, 0.2) if three else _u(rng, 0.15, 0.35)
        scale = _u(rng, 5.0, 9.0)
        b = _u(rng, 0.5, 1.0) * (1 if k % 4 else -1)
        a0 = _u(rng, 0.0, 3.0) + (0 if b > 0 else 30.0)
        mu0, sg0 = _u(rng, 8.0, 12.0), _u(rng, 1.2, 2.5)
        dims = [dict(family="Normal", cond=None, params=dict(mu=mu0, sigma=sg0)),
                dict(family="Beta", cond=0, fixed=dict(a=s, b=s, scale=scale), dep=dict(loc=["lin", a0, b, 0.0]))]
        lo0, hi0 = round(mu0 - 4 * sg0, 2), round(mu0 + 4 * sg0, 2)
        locs = [a0 + b * lo0, a0 + b * hi0]
        limits = [[lo0, hi0], [round(min(locs) - 0.5, 2), round(max(locs) + scale + 0.5, 2)]]
        d = [0.1, 0.2, 0.15, 0.3][(k // 2) % 4]
        deltas = [d, float(f"{d * [1.0, 1.5][(k // 2) % 2]:.4g}")]      # slope * d0 / d1 <= 1: bands stay connected
        if three:
            deltas = [2 * x for x in deltas]
            if k % 4 == 1:
                dims.append(dict(family="Weibull", cond=None, params=dict(alpha=2.0, beta=2.2, gamma=0.0)))
                limits.append([0.0, 5.0])
            else:
                dims.append(dict(family="Normal", cond=1, fixed={}, dep=dict(mu=["lin", 2.0, 0.2, 0.0],
                                                                          sigma=["pow", 0.8, 0.0, 1.0])))
                limits.append([round(2.0 + 0.2 * limits[1][0] - 3.0, 2), round(2.0 + 0.2 * limits[1][1] + 3.0, 2)])
            deltas.append(float(f"{(limits[2][1] - limits[2][0]) / 9.0:.4g}"))
        cfg = dict(dim=len(dims), cond1="zero", cond2="none", deltas="list", limits="explicit", aniso="1",
                   grid="bands", alpha="big")
        out.append(dict(kind="hdc", model=dims, alpha=["0.3", "0.3", "0.2", "0.25"][k % 4], limits=limits,
                        deltas=deltas, cfg=cfg, np_seed=None))
    return out


def hole_cases(rng, n):
    """Single connected regions WITH A HOLE: direction variables (von Mises, mean direction about
    north) on grids tiling [0, 2 pi) - the density is high along the grid borders and lowest in
    the middle - and U-shaped beta variables.  2-D (a frame) and 3-D (a shell around a cavity).
    The boundary of such a region has an outer and an inner piece; it is ONE region."""
    out = []
    for k in range(n):
        three = k % 3 == 2
        ndim = 3 if three else 2
        ncell = int(rng.integers(14, 22)) if three else int(rng.integers(28, 80))
        if k % 4 == 3:   # U-shaped beta marginals on [0, 10]
            dims = [dict(family="Beta", cond=None, params=dict(a=_u(rng, 0.3, 0.6), b=_u(rng, 0.3, 0.6), loc=0.0,
                                                            scale=10.0)) for _ in range(ndim)]
            d = 10.0 / ncell
            limits = [[d / 2, 10.0 - d] for _ in range(ndim)]
        else:
            dims = [dict(family="VonMises", cond=None, params=dict(kappa=_u(rng, 0.7, 1.8), mu=_u(rng, -0.12, 0.12)))
                    for _ in range(ndim)]
            d = 2 * math.pi / ncell
            limits = [[d / 2, 2 * math.pi - d] for _ in range(ndim)]
        cfg = dict(dim=ndim, cond1="none", cond2="none", deltas="scalar", limits="explicit", aniso="1",
                   grid="hole", alpha="mid")
        out.append(dict(kind="hdc", model=dims, alpha=["0.02", "0.05", "0.1", "0.03"][k % 4], limits=limits,
                        deltas=d, cfg=cfg, np_seed=None))
    return out


def negative_default_limit_cases():
    """all defaults (limits=None, deltas=None) for models with a NEGATIVE upper default limit
    marginal_icdf(1 - 0.2**n * alpha): the default grid (0, q), q < 0, cannot hold 1 - alpha -
    the documented RuntimeWarning is expected (not an exception)."""
    cfg = dict(dim=2, cond1="none", cond2="none", deltas="default", limits="default", aniso="1", grid="negdefault",
               alpha="big")
    a = dict(kind="hdc", model=[dict(family="Weibull", cond=None, params=dict(alpha=2.0, beta=1.5, gamma=0.0)),
                                dict(family="Normal", cond=None, params=dict(mu=-3.0, sigma=0.5))],
             alpha="0.1", limits=None, deltas=None, cfg=cfg, np_seed=11)
    b = dict(kind="hdc", model=[dict(family="Weibull", cond=None, params=dict(alpha=6.7, beta=1.8, gamma=0.0)),
                                dict(family="VonMises", cond=0, fixed=dict(mu=5.1), dep=dict(kappa=["pow", 15.0, 0.0, 1.0]))],
             alpha="0.1", limits=None, deltas=None, cfg=dict(cfg, cond1="zero"), np_seed=12)
    return [a, b]


def decimal_delta_cases(vc, rng, cfgs, n):
    """cell sizes that are short decimals, not powers of two (0.1, 0.3, 0.07, ...): products and
    quotients with them are inexact, which is what an fm recovered by dividing back trips over"""
    pool = [c for c in cfgs if c["grid"] == "fit" and c["deltas"] == "list" and c["limits"] == "explicit"
            and c["aniso"] == "1"]
    pool = [pool[i] for i in rng.permutation(len(pool))]
    out = []
    for cfg in pool[:n]:
        c = make_contour_case(vc, rng, cfg, (25, 90), (8, 20))
        c["deltas"] = [float(f"{d:.1g}") for d in c["deltas"]]
        c["cfg"] = dict(cfg, grid="decimal")
        out.append(c)
    # the classical sea state model on deltas 0.1 / 0.1 and a tied i.i.d. model (ties at the threshold
    # are split by index in the code; no clause here depends on how)
    dnv = [dict(family="Weibull", cond=None, params=dict(alpha=2.776, beta=1.471, gamma=0.8888)),
           dict(family="LogNormal", cond=0, fixed={}, dep=dict(mu=["pow", 0.1, 1.489, 0.1901],
                                                               sigma=["exp", 0.04, 0.1748, 0.2243]))]
    fix = dict(dim=2, cond1="zero", cond2="none", deltas="list", limits="explicit", aniso="1", grid="decimal",
               alpha="big")
    for al in ("0.1", "0.2", "0.001"):
        out.append(dict(kind="hdc", model=dnv, alpha=al, limits=[[0.0, 20.0], [0.0, 20.0]], deltas=[0.1, 0.1],
                        cfg=fix, np_seed=None))
    iid = [dict(family="Weibull", cond=None, params=dict(alpha=2.0, beta=1.5, gamma=0.0)) for _ in range(2)]
    for al in ("0.1", "0.05"):
        out.append(dict(kind="hdc", model=iid, alpha=al, limits=[[0.0, 16.0], [0.0, 16.0]], deltas=0.125,
                        cfg=dict(fix, cond1="none", grid="ties"), np_seed=None))
    return out


def integer_grid_cases(vc, rng, cfgs, n):
    """Integer-typed grids: limits as python ints (or np.int64), cell sizes as python int, list
    of ints, or int on some axes and float on others; 2-D and 3-D.  np.arange then yields an
    integer axis.  Everything is judged against the harness's float reference (centres and
    cell sizes converted to float, borders x -+ d/2)."""
    pool = [c for c in cfgs if c["grid"] == "fit" and c["deltas"] == "list" and c["limits"] == "explicit"
            and c["aniso"] == "1"]
    pool = [pool[i] for i in rng.permutation(len(pool))]
    out = []
    for k, cfg in enumerate(pool[:n]):
        c = make_contour_case(vc, rng, cfg, (12, 60), (8, 20))
        ndim = len(c["limits"])
        lims, dls = [], []
        for i, ((lo, hi), d) in enumerate(zip(c["limits"], c["deltas"])):
            ilo, ihi = int(math.floor(lo)), int(math.ceil(hi))
            w = ihi - ilo
            if w < 8:     # too narrow for integer cells: a float axis (mixed int / float grid)
                lims.append([lo, hi])
                dls.append(d)
                continue
            step = max(1, int(round(d))) if w >= 12 else 1
            while w // step < 6 and step > 1:
                step -= 1
            if k % 3 == 2 and i == ndim - 1:   # integer limits, float cell size on the last axis
                lims.append([ilo, ihi])
                dls.append([0.5, 0.25, 1.5][k % 3] if w / 0.25 < 400 else float(step))
            else:
                lims.append([ilo, ihi])
                dls.append(step)
        mode = k % 4
        case = dict(c, limits=lims, cfg=dict(cfg, grid="integer"))
        if mode == 1 and all(isinstance(v, int) for v in dls) and len(set(dls)) == 1:
            case["deltas"] = dls[0]                     # scalar python int
        else:
            case["deltas"] = dls
        if mode == 3:
            case["np_int"] = True
        out.append(case)
    # the sea state of the seed's demo on a unit grid, scalar and list / mixed cell sizes
    dnv = [dict(family="Weibull", cond=None, params=dict(alpha=2.776, beta=1.471, gamma=0.8888)),
           dict(family="LogNormal", cond=0, fixed={}, dep=dict(mu=["pow", 0.1, 1.489, 0.1901],
                                                               sigma=["exp", 0.04, 0.1748, 0.2243]))]
    fix = dict(dim=2, cond1="zero", cond2="none", deltas="list", limits="explicit", aniso="1", grid="integer",
               alpha="mid")
    for al, dl in (("0.05", 1), ("0.1", [1, 1]), ("0.01", [1, 0.5]), ("0.2", [0.25, 1])):
        out.append(dict(kind="hdc", model=dnv, alpha=al, limits=[[0, 20], [0, 18]], deltas=dl, cfg=fix, np_seed=None))
    return out


def tie_cut_cases(vc, rng, n_bases, per_base=6):
    """Symmetric marginals (Normal, von Mises) on grids centred at the mean with cell sizes that
    are not powers of two: mirror cells have densities a few ulps apart whose products with the
    cell sizes coincide.  The cell probabilities do not depend on alpha, so each base grid is
    observed once and alpha is then placed so that the cut falls INSIDE such a pair (exactly one
    of the two cells fits): the denser one has to be enclosed."""
    from decimal import Decimal, getcontext
    getcontext().prec = 60

    def nrm(mu, sg):
        return dict(family="Normal", cond=None, params=dict(mu=mu, sigma=sg))

    def wbl(a, b):
        return dict(family="Weibull", cond=None, params=dict(alpha=a, beta=b, gamma=0.0))

    cfg = dict(dim=2, cond1="none", cond2="none", deltas="list", limits="explicit", aniso="1", grid="tiecut",
               alpha="mid")
    bases = [dict(kind="hdc", model=[nrm(0.0, 1.0), wbl(3.0, 1.2)], alpha="0.01", limits=[[-6.0, 6.0], [0.0, 15.0]],
                  deltas=[1.0, 0.2], cfg=cfg, np_seed=None),
             dict(kind="hdc", model=[nrm(0.0, 1.0), wbl(2.0, 1.5)], alpha="0.196", limits=[[-6.0, 6.0], [0.0, 15.0]],
                  deltas=[1.0, 0.1], cfg=cfg, np_seed=None)]
    while len(bases) < n_bases + 2:
        k = len(bases)
        d0 = [1.0, 0.5, 0.3, 0.7, 0.25][k % 5]
        d1 = [0.2, 0.1, 0.3, 0.07, 0.6][(k // 2) % 5]
        m = int(rng.integers(5, 10))
        if k % 3 == 2:
            mu = _u(rng, 2.0, 4.0, 1)
            d0 = [0.3, 0.2, 0.35][k % 3]
            first = dict(family="VonMises", cond=None, params=dict(kappa=_u(rng, 1.0, 4.0), mu=mu))
            m = int(math.floor(3.1 / d0))
        else:
            mu = [0.0, 2.5, -1.0, 10.0][k % 4]
            sg = _u(rng, 0.8, 2.0, 1)
            first = nrm(mu, sg)
            m = int(math.ceil(5 * sg / d0))
        dims = [first]
        if k % 4 == 3:
            dims.append(dict(family="LogNormal", cond=0, fixed={}, dep=dict(mu=["pow", 0.8, 0.05, 1.0],
                                                                            sigma=["pow", 0.3, 0.0, 1.0])))
        else:
            dims.append(wbl(_u(rng, 1.5, 3.0, 1), _u(rng, 1.1, 2.0, 1)))
        limits = [[round(mu - m * d0, 6), round(mu + m * d0, 6)], [0.0, 15.0]]
        deltas = [d0, d1]
        if k % 5 == 4:   # 3-D: a second symmetric axis
            dims.append(nrm(0.0, 1.5))
            limits.append([-6.0, 6.0])
            deltas = [d0, 0.6, 0.6]
        bases.append(dict(kind="hdc", model=dims, alpha="0.05", limits=limits, deltas=deltas,
                          cfg=dict(cfg, dim=len(dims)), np_seed=None))
    out = []
    for base in bases:
        out.append(base)
        obs = observe_contour(vc, base, want_pref=False, want_resort=False)
        if obs["exc"] or "P" not in obs["cap"]:
            continue
        P = obs["cap"]["P"].ravel()
        c = obs["contour"]
        with warnings.catch_warnings():
            warnings.simplefilter("ignore")
            f = np.asarray(c.cell_averaged_joint_pdf(c.cell_center_coordinates), dtype=float).ravel()
        if f.shape != P.shape:
            continue
        order = np.argsort(-P, kind="stable")
        Ps, fs = P[order], f[order]
        qs = [q18(v) for v in Ps.tolist()]
        cum = 0
        picked = []
        i = 0
        n = len(Ps)
        while i < n:
            j = i
            while j + 1 < n and Ps[j + 1] == Ps[i]:
                j += 1
            if j == i + 1 and fs[i] != fs[j] and Ps[i] > 0:       # a pair with equal probability, different density
                lq = cum + qs[i] + qs[i] // 2                       # room for exactly one of the two
                aq = S18 - lq
                if 10 ** 12 <= aq <= 3 * 10 ** 17:
                    picked.append(aq)
            cum += sum(qs[i:j + 1])
            i = j + 1
        for aq in [picked[t] for t in sorted(rng.choice(len(picked), size=min(per_base, len(picked)), replace=False))] if picked else []:
            cse = dict(base)
            cse["alpha"] = format(Decimal(int(aq)) / Decimal(S18), "f")
            cse["cfg"] = dict(base["cfg"], tiecut="cut inside a pair of equal probability")
            out.append(cse)
    return out


# ---------------------------------------------------------------------------------------
# model histories: contour -> the model is changed IN PLACE (not through model.fit) -> contour on
# the same grid.  The second contour belongs to the model as it is then.


def apply_modification(vc, model, dims, mod):
    """change the model object in place; mod is plain data (replayable)"""
    kind = mod["kind"]
    i = mod["dim"]
    dist = model.distributions[i]
    if kind == "set_attribute":            # e.g. model.distributions[0].alpha = 3.1
        setattr(dist, mod["name"], mod["value"])
    elif kind == "set_dep_parameter":      # DependenceFunction.parameters[name] = value
        dist.conditional_parameters[mod["param"]].parameters[mod["name"]] = mod["value"]
    elif kind == "fit_distribution":       # model.distributions[i].fit(sample)
        src = family_class(vc, mod["sample_family"])(**mod["sample_params"])
        sample = src.draw_sample(mod["n"], random_state=np.random.default_rng(mod["seed"]))
        dist.fit(np.asarray(sample, dtype=float))
    elif kind == "refit_dependence":       # dependence_function.fit(x, y)
        dep = dist.conditional_parameters[mod["param"]]
        x = np.array(mod["x"], dtype=float)
        dep.fit(x, np.array(mod["y"], dtype=float))
    elif kind == "replace_distribution":   # model.distributions[i] = another distribution
        model.distributions[i] = family_class(vc, mod["family"])(**mod["params"])
    else:
        raise Machinery(f"unknown modification {kind}")


def dims_from_model(model, dims):
    """the description of the model AS IT IS NOW (read from the objects), to build a fresh one"""
    out = []
    for i, d in enumerate(dims):
        dist = model.distributions[i]
        if d["cond"] is None:
            fam = type(dist).__name__.replace("Distribution", "")
            out.append(dict(family=fam, cond=None, params={k: float(v) for k, v in dist.parameters.items()}))
        else:
            dep = {}
            for name, spec in d["dep"].items():
                vals = [float(v) for v in dist.conditional_parameters[name].parameters.values()]
                dep[name] = [spec[0]] + vals
            out.append(dict(family=d["family"], cond=d["cond"],
                            fixed={k: float(v) for k, v in dist.fixed_parameters.items()}, dep=dep))
    return out


def observe_history(vc, case, want_pref=True, want_resort=True):
    h = case["history"]
    plain = {k: v for k, v in case.items() if k != "history"}
    with warnings.catch_warnings():
        warnings.simplefilter("ignore")
        model = build_model(vc, case["model"])
        first = observe_contour(vc, dict(plain, alpha=h["alpha"]), want_pref=False, want_resort=False, model=model)
        try:
            apply_modification(vc, model, case["model"], h["mod"])
        except Exception as e:  # noqa
            raise Machinery(f"history case: the modification itself failed: {type(e).__name__}: {e}")
    obs = observe_contour(vc, plain, want_pref, want_resort, model=model)
    obs["first_exc"] = first["exc"]
    # the same contour from a freshly constructed model with the current parameters
    now = dims_from_model(model, case["model"])
    fresh = observe_contour(vc, dict(plain, model=now), want_pref=False, want_resort=False)
    same = (obs["exc"] == fresh["exc"])
    if not obs["exc"] and not fresh["exc"]:
        a, b = obs["cap"], fresh["cap"]
        same = (np.array_equal(a.get("P"), b.get("P")) and obs["fm"] == fresh["fm"]
                and obs["warned"] == fresh["warned"] and obs["sets"] == fresh["sets"]
                and (("mask" not in a and "mask" not in b) or np.array_equal(a.get("mask"), b.get("mask"))))
    obs["fresh_same"] = bool(same)
    obs["model_now"] = now
    return obs


def history_cases(vc, rng, cfgs, n):
    """base contours from the TLC classes; every kind of in-place change in turn; the second
    contour with the same or another alpha on the same limits and deltas"""
    pool = [c for c in cfgs if c["grid"] == "fit" and c["deltas"] == "list" and c["limits"] == "explicit"
            and c["aniso"] == "1" and (c["cond1"] == "zero" or c["cond2"] != "none")]
    pool = [pool[i] for i in rng.permutation(len(pool))]
    kinds = ["set_attribute", "set_dep_parameter", "fit_distribution", "refit_dependence", "replace_distribution"]
    out = []
    for k, cfg in enumerate(pool * 3):
        if len(out) >= n:
            break
        base = make_contour_case(vc, rng, cfg, (14, 50), (7, 14))
        dims = base["model"]
        kind = kinds[len(out) % len(kinds)]
        marg = [i for i, d in enumerate(dims) if d["cond"] is None]
        cond = [i for i, d in enumerate(dims) if d["cond"] is not None]
        if kind == "set_attribute":
            i = marg[len(out) % len(marg)]
            name = sorted(dims[i]["params"])[0]
            mod = dict(kind=kind, dim=i, name=name, value=round(dims[i]["params"][name] * 1.25 + 0.05, 3))
        elif kind == "set_dep_parameter":
            i = cond[0]
            param = sorted(dims[i]["dep"])[0]
            mod = dict(kind=kind, dim=i, param=param, name="a", value=round(dims[i]["dep"][param][1] * 1.3 + 0.02, 3))
        elif kind == "fit_distribution":
            i = marg[0]
            fam = dims[i]["family"]
            if fam in ("VonMises", "GeneralizedGamma", "ExponentiatedWeibull", "LogNormalNormFit"):
                continue   # keep to families whose stand-alone fit is plain scipy MLE
            mod = dict(kind=kind, dim=i, sample_family=fam, sample_params=marginal_params(rng, fam), n=400,
                       seed=int(rng.integers(1 << 30)))
        elif kind == "refit_dependence":
            i = cond[0]
            cands = [p for p, v in dims[i]["dep"].items() if v[0] == "lin"]
            if not cands:
                continue
            param = cands[0]
            a, b = dims[i]["dep"][param][1], dims[i]["dep"][param][2]
            xs = [0.5, 1.0, 2.0, 3.5, 5.0, 7.0]
            mod = dict(kind=kind, dim=i, param=param, x=xs,
                       y=[round(a * 1.1 + 0.1 + b * 0.8 * x, 6) for x in xs])
        else:
            i = marg[0]
            fam = [f for f in ("Weibull", "LogNormal", "ExponentiatedWeibull") if f != dims[i]["family"]][len(out) % 2]
            if dims[i]["family"] in ("Normal", "VonMises"):
                continue   # keep the support (the grid was chosen for a positive variable)
            mod = dict(kind=kind, dim=i, family=fam, params=marginal_params(rng, fam))
        alpha2 = base["alpha"] if len(out) % 2 == 0 else alpha_decimal(rng, ["mid", "big", "small"][len(out) % 3])
        case = dict(base, alpha=alpha2, cfg=dict(cfg, grid="history"),
                    history=dict(alpha=base["alpha"], mod=mod))
        out.append(case)
    return out


def narrow_float_cases(vc, rng, cfgs, n_random, big):
    """limits / cell sizes / alpha given as numpy scalars of a narrower float type (np.float32, and
    np.float16 where the values are representable): the float32 minimum and maximum of a data set.
    The declared values are the exact values of those scalars; the reference is computed in float64
    from them (centres as returned, borders x -+ float(delta)/2).  big: the grids of the bug report
    (DNVGL sea state, a few hundred cells per axis, alpha 1e-6 .. 1e-5) to include."""
    def f32(v):
        return float(np.float32(v))

    dnv = [dict(family="Weibull", cond=None, params=dict(alpha=2.776, beta=1.471, gamma=0.8888)),
           dict(family="LogNormal", cond=0, fixed={}, dep=dict(mu=["pow", 0.1, 1.489, 0.1901],
                                                               sigma=["exp", 0.04, 0.1748, 0.2243]))]
    fix = dict(dim=2, cond1="zero", cond2="none", deltas="list", limits="explicit", aniso="1", grid="float32",
               alpha="tiny")
    a18 = "0.000003814697265625"      # 2^-18: exactly a float32 / float16 value and a multiple of 1e-18
    a17 = "0.00000762939453125"       # 2^-17
    rep = [
        dict(alpha="1e-6", limits=[[f32(0.8), f32(20.0)], [f32(1.5), f32(20.0)]], deltas=[0.05, 0.07],
             typed=dict(dtype="float32", limits=True)),          # spurious 'could not be reached' at the parent
        dict(alpha="1e-6", limits=[[f32(0.7), f32(20.3)], [f32(2.3), f32(19.7)]], deltas=0.05,
             typed=dict(dtype="float32", limits=True)),          # content misses 1 - alpha by far more than a cell
        dict(alpha="1e-5", limits=[[f32(0.8), f32(20.0)], [f32(1.5), f32(20.0)]], deltas=[0.05, 0.07],
             typed=dict(dtype="float32", limits=True)),
        dict(alpha=a18, limits=[[0.7, 20.3], [2.3, 19.7]], deltas=[0.1, 0.1],
             typed=dict(dtype="float32", alpha=True)),           # 1 - alpha evaluated in float32
        dict(alpha="1e-5", limits=[[0.7, 20.3], [2.3, 19.7]], deltas=[f32(0.1), f32(0.15)],
             typed=dict(dtype="float32", deltas=True)),
        dict(alpha=a17, limits=[[0.75, 20.0], [2.5, 19.75]], deltas=[0.1, 0.15],
             typed=dict(dtype="float16", limits=True, alpha=True)),
        dict(alpha="1e-5", limits=[[f32(0.7), f32(20.3)], [f32(2.3), f32(19.7)]], deltas=[f32(0.05), f32(0.07)],
             typed=dict(dtype="float32", limits=True, deltas=True)),
    ]
    out = [dict(kind="hdc", model=dnv, cfg=fix, np_seed=None, **r) for r in rep[:big]]
    pool = [c for c in cfgs if c["grid"] == "fit" and c["deltas"] in ("list", "scalar") and c["limits"] == "explicit"
            and c["alpha"] in ("tiny", "small")]
    pool = [pool[i] for i in rng.permutation(len(pool))]
    for k, cfg in enumerate(pool[:n_random]):
        c = make_contour_case(vc, rng, cfg, (30, 110), (8, 24))
        what = [dict(limits=True), dict(limits=True, deltas=True), dict(deltas=True), dict(limits=True)][k % 4]
        c["limits"] = [[f32(a), f32(b)] for a, b in c["limits"]] if what.get("limits") else c["limits"]
        if what.get("deltas"):
            c["deltas"] = [f32(d) for d in c["deltas"]] if isinstance(c["deltas"], list) else f32(c["deltas"])
        c["typed"] = dict(dtype="float32", **what)
        c["cfg"] = dict(cfg, grid="float32")
        out.append(c)
    return out
