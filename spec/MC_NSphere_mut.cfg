SPECIFICATION Spec
CONSTANTS MaxIters = 5  Energies = {1, 2, 3, 4}  KeepLast = TRUE
CHECK_DEADLOCK FALSE
INVARIANT NeverWorseThanStart
