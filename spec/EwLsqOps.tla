------------------------------ MODULE EwLsqOps ------------------------------
(* C13 - exponentiated-Weibull least squares = weighted quantile regression.             *)
(*                                                                                       *)
(* Operator module (no VARIABLES / CONSTANTS):                                           *)
(*  (i)   the decision table Outcome(method, weights kind, fixed set);                   *)
(*  (ii)  the exact discrete part of _fit_lsq on integer vectors: stable sort, plotting  *)
(*        positions p_i = (2i-1)/(2n) as rationals, co-sorting of array weights with the *)
(*        data, removal of zero observations AFTER ranking;                              *)
(*  (iii) the clause operators (with tolerances) for the laws judged on measured         *)
(*        quantities in Trace_C13.                                                       *)
(* EwLsq.tla explores (i)+(ii) as a state machine; Trace_C13.tla judges the real code.   *)
EXTENDS Integers, Sequences, FiniteSets, Fix

----------------------------------------------------------------------------
(* (i) decision table.  Weight kinds: "none", "linear", "quadratic", "cubic", "array",   *)
(* "unknown" (any other string), "scalar" (neither str nor iterable).                    *)
FitMethods == {"lsq", "wlsq"}
GoodWeights == {"none", "linear", "quadratic", "cubic", "array"}
BadWeights == {"unknown", "scalar"}
ParamNames == {"alpha", "beta", "delta"}

(* what the fixed set alone decides *)
ByFixed(F) == IF F = {} THEN "fit-free-delta"
              ELSE IF F = {"delta"} THEN "fit-fixed-delta"
              ELSE "NotImplementedError"
(* the set of acceptable outcomes: where two rejections apply (bad weights AND an        *)
(* unsupported fixed set) the property does not fix their order                          *)
Outcomes(method, wk, F) ==
    IF method \notin FitMethods THEN {"ValueError"}
    ELSE IF wk \in BadWeights
         THEN {"ValueError"} \cup (IF ByFixed(F) = "NotImplementedError" THEN {"NotImplementedError"} ELSE {})
         ELSE {ByFixed(F)}

----------------------------------------------------------------------------
(* (ii) discrete model.  An observation is a record [x, w, pn, pd]: value, weight,       *)
(* plotting position pn/pd (0/0 = not yet ranked).                                       *)

(* stable argsort: indices ordered by (value, index) *)
ArgSort(d) ==
    LET RECURSIVE Srt(_)
        Srt(S) == IF S = {} THEN <<>>
                  ELSE LET m == CHOOSE a \in S : \A b \in S : d[a] < d[b] \/ (d[a] = d[b] /\ a <= b)
                       IN <<m>> \o Srt(S \ {m})
    IN Srt(1..Len(d))

Obs(d, w) == [i \in 1..Len(d) |-> [x |-> d[i], w |-> w[i], pn |-> 0, pd |-> 0]]

(* the data are sorted; array weights stay where they are until CoSortStep *)
SortStep(s, ord) == [i \in 1..Len(s) |-> [s[i] EXCEPT !.x = s[ord[i]].x]]
(* cosort = FALSE models the deviation "weights not co-sorted" *)
CoSortStep(s, ord, cosort) ==
    IF cosort THEN [i \in 1..Len(s) |-> [s[i] EXCEPT !.w = s[ord[i]].w]] ELSE s
(* keyword weights are computed from the sorted data *)
Pow(x, k) == IF k = 0 THEN 1 ELSE IF k = 1 THEN x ELSE IF k = 2 THEN x * x ELSE x * x * x
KeyExp(wk) == CASE wk = "none" -> 0 [] wk = "linear" -> 1 [] wk = "quadratic" -> 2 [] wk = "cubic" -> 3
KeywordStep(s, wk) == [i \in 1..Len(s) |-> [s[i] EXCEPT !.w = Pow(s[i].x, KeyExp(wk))]]
(* posrule "mid": p_i = (i - 1/2)/n = (2i-1)/(2n); "in": the deviation p_i = i/n *)
RankStep(s, posrule) ==
    [i \in 1..Len(s) |-> [s[i] EXCEPT !.pn = IF posrule = "mid" THEN 2 * i - 1 ELSE 2 * i,
                                      !.pd = 2 * Len(s)]]
DropZeroStep(s) == SelectSeq(s, LAMBDA t : t.x # 0)

(* the whole pipeline; zerosfirst = TRUE models the deviation "zeros removed before ranking" *)
Final(d, w, wk, cosort, zerosfirst, posrule) ==
    LET s0 == IF zerosfirst THEN DropZeroStep(Obs(d, w)) ELSE Obs(d, w)
        ord == ArgSort([i \in 1..Len(s0) |-> s0[i].x])
        s1 == SortStep(s0, ord)
        s2 == IF wk = "array" THEN CoSortStep(s1, ord, cosort) ELSE KeywordStep(s1, wk)
        s3 == RankStep(s2, posrule)
    IN DropZeroStep(s3)

(* the state the code hands to the regression: sorted, weighted, ranked, zeros still there *)
Ranked(d, w, wk, cosort, posrule) ==
    LET s0 == Obs(d, w)
        ord == ArgSort(d)
        s1 == SortStep(s0, ord)
        s2 == IF wk = "array" THEN CoSortStep(s1, ord, cosort) ELSE KeywordStep(s1, wk)
    IN RankStep(s2, posrule)

(* ---- declarative statement of what the pipeline must deliver ---- *)
Less(d, v) == Cardinality({j \in 1..Len(d) : d[j] < v})
Cnt(d, v) == Cardinality({j \in 1..Len(d) : d[j] = v})
Vals(d) == {d[j] : j \in 1..Len(d)} \ {0}

(* positions: the observations of value v > 0 carry exactly the positions of the ranks   *)
(* Less+1 .. Less+Cnt among ALL n observations (zeros take part in the ranking)          *)
PositionsRule(f, d) ==
    /\ \A i \in 1..Len(f) : f[i].pd = 2 * Len(d)
    /\ \A v \in Vals(d) :
         {f[i].pn : i \in {k \in 1..Len(f) : f[k].x = v}} =
           {2 * r - 1 : r \in (Less(d, v) + 1)..(Less(d, v) + Cnt(d, v))}
    /\ IsSorted([i \in 1..Len(f) |-> f[i].pn])
ZerosDropped(f, d) ==
    /\ \A i \in 1..Len(f) : f[i].x # 0
    /\ Len(f) = Cardinality({j \in 1..Len(d) : d[j] # 0})
(* every weight stays with its observation: same bag of (value, weight) pairs *)
WeightsTravel(f, d, w, W) ==
    \A v \in Vals(d) : \A u \in W :
       Cardinality({i \in 1..Len(f) : f[i].x = v /\ f[i].w = u}) =
       Cardinality({j \in 1..Len(d) : d[j] = v /\ w[j] = u})

(* two results are the same regression problem: same bag of (x, p, w).  If tied values    *)
(* carry different weights the property does not say which tied rank goes with which     *)
(* weight; then only the bags of (x, p) and (x, w) are determined.                       *)
TieConsistent(d, w) == \A i, j \in 1..Len(d) : d[i] = d[j] => w[i] = w[j]
BagEq(f, g, key(_)) ==
    /\ Len(f) = Len(g)
    /\ \A i \in 1..Len(f) :
         Cardinality({k \in 1..Len(f) : key(f[k]) = key(f[i])}) =
         Cardinality({k \in 1..Len(g) : key(g[k]) = key(f[i])})
SameProblem(f, g, tc) ==
    /\ BagEq(f, g, LAMBDA t : <<t.x, t.pn, t.pd>>)
    /\ BagEq(f, g, LAMBDA t : <<t.x, t.w>>)
    /\ (tc => BagEq(f, g, LAMBDA t : <<t.x, t.pn, t.pd, t.w>>))

Permute(s, pi) == [i \in 1..Len(s) |-> s[pi[i]]]
Perms(n) == {f \in [1..n -> 1..n] : \A i, j \in 1..n : i # j => f[i] # f[j]}

----------------------------------------------------------------------------
(* (iii) clause operators over measured quantities.                              *)
(* rel = relative deviation x 10^12 (clamped at 2*10^9), dd = |delta difference| x 10^6,  *)
(* dq = delta x 10^6.                                                                     *)

(* closed-form regression in double precision: condition of the 2x2 normal equations     *)
(* <= 1e4 on the sampled classes, so 1e-8 relative on (alpha, beta) and on the           *)
(* normalised gradient is > 100x above the round-off and > 1000x below the effect of an  *)
(* unnormalised weight vector, a wrong plotting position or a wrong pairing.             *)
Tol8 == 10000
Small(rel) == rel <= Tol8
(* free delta: scipy.optimize.fmin stops when the 1-D simplex is <= xtol = 1e-4 wide      *)
(* (absolute) and the error differs <= ftol = 1e-4; two runs whose objectives differ by   *)
(* a constant factor (or by the order of summation) stop within a few xtol of each other: *)
(* 5e-4 absolute + 1e-4 relative (measured spread <= 1.9e-4).                             *)
DeltaClose(dd, dq) == dd <= 500 + (dq \div 10000)
(* local minimum: E(delta) <= E(delta +- h) with h = 1e-3*delta + 5e-4 (>= 2x the          *)
(* optimiser's uncertainty); em / ep = (E(delta -+ h) - E(delta)) / E(delta) x 10^12,      *)
(* 1e-9 slack for the round-off of E.                                                      *)
(* which metamorphic variants a law record must contain (coverage of the laws) *)
RequiredVariants(wk, haszeros) ==
    {"perm"} \cup (IF haszeros THEN {"zeroweights"} ELSE {})
             \cup (IF wk = "array" THEN {"scaled"} ELSE IF wk = "none" THEN {"ones"} ELSE {"kwarray"})
(* (a delta beyond the fixed-point range, 2000, is clamped by the driver: no step check)    *)
StepOk(hq, dq) == dq >= 2000000000 \/ Abs(hq - ((dq \div 1000) + 500)) <= 1
LocalMin(em, ep) == em >= -1000 /\ ep >= -1000
(* For samples with a bounded upper tail the error has no minimiser: it decreases          *)
(* monotonically to its infimum as delta -> 0 (checked with a log-space evaluation down to *)
(* delta = 1e-6), and the optimiser stops where p_1^(1/delta) leaves the double range      *)
(* (< 1e-308).  There E(delta - h) is not representable and only the other side can be     *)
(* judged.  emdef / epdef = the neighbour's error, evaluated with the cancellation-free    *)
(* log1p form, is finite; a stop at a NaN produced by an inaccurate formula (1 - q for      *)
(* q < 1e-16) is still a violation because the reference then evaluates the neighbour.     *)
LocalMinD(em, ep, emdef, epdef) ==
    /\ (emdef \/ epdef)
    /\ (emdef => em >= -1000)
    /\ (epdef => ep >= -1000)
=============================================================================
