SPECIFICATION Spec
CONSTANTS MaxRound = 2  NoRefit = TRUE  EmitBeh = FALSE
CHECK_DEADLOCK FALSE
INVARIANT FittedAfterConditioners
INVARIANT IndependentFitImmediately
