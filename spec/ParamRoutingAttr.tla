--------------------------- MODULE ParamRoutingAttr ---------------------------
(* "Evaluation reads the current attributes" (C05): cdf / icdf / pdf of an instance equal the *)
(* documented formula at the parameters the instance HAS - `parameters`, repr and the         *)
(* attributes are one state; an evaluation without explicit parameters after an attribute was  *)
(* assigned gives what a fresh instance constructed with the current values gives.             *)
(* ver[k] counts the assignments to parameter k; an evaluation uses a version vector.          *)
(* Frozen = TRUE models the deviation "values derived from the attributes (sigma and scale of  *)
(* the norm-fit log-normal, scale = exp(mu), scale = 1 / lambda_) are computed at the first    *)
(* keyword-less evaluation, kept, and reset only by fit", which must violate the invariant.    *)
EXTENDS ParamRoutingAttrOps, TLC, Json

CONSTANTS MaxLen, WithFit, Frozen
VARIABLES fam, h, k, ver, cache, okv

vars == <<fam, h, k, ver, cache, okv>>
NoCache == <<>>

Init == /\ fam \in Families
        /\ h \in AttrHistories(fam, MaxLen, WithFit)
        /\ k = 1 /\ okv = TRUE /\ cache = NoCache
        /\ ver = [i \in 1..Len(NamesSeq(fam)) |-> 1]

Step ==
    /\ k <= Len(h)
    /\ LET st == h[k] IN
         CASE st = "E" ->
                LET used == IF Frozen /\ cache # NoCache THEN cache ELSE ver IN
                  /\ okv' = (okv /\ used = ver)
                  /\ cache' = IF Frozen /\ cache = NoCache THEN ver ELSE cache
                  /\ ver' = ver
           [] st = "F" ->
                /\ ver' = [i \in DOMAIN ver |-> ver[i] + 1]
                /\ cache' = NoCache
                /\ okv' = okv
           [] OTHER ->
                /\ ver' = [ver EXCEPT ![AttrIndex(st)] = @ + 1]
                /\ UNCHANGED <<cache, okv>>
    /\ k' = k + 1
    /\ UNCHANGED <<fam, h>>
Spec == Init /\ [][Step]_vars

EvalReadsCurrentAttributes == okv
Emit == k = 1 => PrintT(<<"BEH", ToJson([fam |-> fam, steps |-> h])>>)
=============================================================================
