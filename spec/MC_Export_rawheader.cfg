SPECIFICATION Spec
CONSTANTS Decimals = 6  NoClose = FALSE  AlwaysTxt = FALSE  RawHeader = TRUE
CHECK_DEADLOCK FALSE
INVARIANT OneHeaderLine
