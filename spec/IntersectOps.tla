---------------------------- MODULE IntersectOps ----------------------------
(* Intersections of two polylines with integer vertices (virocon/_intersection.py).    *)
(* A point is <<x, y>>, a polyline a sequence of points, segment i joins pl[i], pl[i+1]. *)
(* Everything is decided with integer cross products; a crossing point is the rational  *)
(* pair (xnum / den, ynum / den).                                                        *)
EXTENDS Integers, Sequences, FiniteSets, Fix

NSeg(pl) == Len(pl) - 1
SegA(pl, i) == pl[i]
SegB(pl, i) == pl[i + 1]

Sgn(v) == IF v > 0 THEN 1 ELSE IF v < 0 THEN -1 ELSE 0
(* cross product (a - o) x (b - o): > 0 iff b is to the left of the ray o -> a *)
Cross(o, a, b) == (a[1] - o[1]) * (b[2] - o[2]) - (a[2] - o[2]) * (b[1] - o[1])

InBox(p, a, b) == /\ Min2(a[1], b[1]) <= p[1] /\ p[1] <= Max2(a[1], b[1])
                  /\ Min2(a[2], b[2]) <= p[2] /\ p[2] <= Max2(a[2], b[2])
OnSegment(p, a, b) == Cross(a, b, p) = 0 /\ InBox(p, a, b)

(* the two segments cross in one interior point of both *)
Crosses(a, b, c, d) ==
    /\ Sgn(Cross(a, b, c)) * Sgn(Cross(a, b, d)) < 0
    /\ Sgn(Cross(c, d, a)) * Sgn(Cross(c, d, b)) < 0

(* general position: no segment of length zero, no vertex of one polyline on the other  *)
(* (this also excludes collinear overlap: an overlap has an end point on the other)      *)
GeneralPosition(p, q) ==
    /\ \A i \in 1..NSeg(p) : p[i] # p[i + 1]
    /\ \A j \in 1..NSeg(q) : q[j] # q[j + 1]
    /\ \A k \in 1..Len(p) : \A j \in 1..NSeg(q) : ~OnSegment(p[k], q[j], q[j + 1])
    /\ \A k \in 1..Len(q) : \A i \in 1..NSeg(p) : ~OnSegment(q[k], p[i], p[i + 1])

CrossingPairs(p, q) ==
    {ij \in (1..NSeg(p)) \X (1..NSeg(q)) : Crosses(p[ij[1]], p[ij[1] + 1], q[ij[2]], q[ij[2] + 1])}

(* crossing point of the LINES through a,b and c,d (not parallel):                      *)
(*   den = (b-a) x (d-c),  t = ((c-a) x (d-c)) / den,  point = a + t (b-a)               *)
Den(a, b, c, d) == (b[1] - a[1]) * (d[2] - c[2]) - (b[2] - a[2]) * (d[1] - c[1])
TNum(a, b, c, d) == (c[1] - a[1]) * (d[2] - c[2]) - (c[2] - a[2]) * (d[1] - c[1])
UNum(a, b, c, d) == (c[1] - a[1]) * (b[2] - a[2]) - (c[2] - a[2]) * (b[1] - a[1])
(* <<xnum, ynum, den>> with den > 0 *)
CrossPoint(a, b, c, d) ==
    LET dn == Den(a, b, c, d) tn == TNum(a, b, c, d)
        xn == a[1] * dn + tn * (b[1] - a[1])
        yn == a[2] * dn + tn * (b[2] - a[2])
    IN IF dn > 0 THEN <<xn, yn, dn>> ELSE <<-xn, -yn, -dn>>

(* The dtype of the vertex coordinates is an input class of its own: the same lattice-valued   *)
(* curve / polygon, every coordinate exactly representable in the type, handed over as an array *)
(* of that type.  The crossings / design conditions are those of the NUMBERS (double precision): *)
(* differences, negations and products of narrow or unsigned integers wrap around when they are  *)
(* formed in the type of the input (int8: 100 - (-100); uint8: 0 - 10), half / single precision  *)
(* locates a crossing to 1e-3 / 1e-7 only.  harness/c17.py hands typed copies of lattice pairs,   *)
(* random integer polylines and lattice polygons (scaled so that the extent exceeds half the      *)
(* range of the signed types) to the real routines; Trace_C17 asserts that every type occurred.   *)
CoordTypes == {"int8", "int16", "int32", "int64", "uint8", "uint16", "uint32", "uint64",
               "float16", "float32", "float64"}

(* 0 <= num/den <= 1 for den # 0 *)
InUnit(num, den) == IF den > 0 THEN 0 <= num /\ num <= den ELSE den <= num /\ num <= 0
InUnitOpenRight(num, den) == IF den > 0 THEN 0 <= num /\ num < den ELSE den < num /\ num <= 0

(* num / den (den > 0) as fixed point with 6 decimals, rounded towards minus infinity,  *)
(* computed in three steps so that no product exceeds |num| + 1000 * den                *)
FloorDiv(n, d) == IF n >= 0 THEN n \div d ELSE -((-n + d - 1) \div d)
RatQ6(num, den) ==
    LET ip == FloorDiv(num, den)
        r0 == num - ip * den
        d1 == (r0 * 1000) \div den
        r1 == (r0 * 1000) % den
        d2 == (r1 * 1000) \div den
    IN ip * 1000000 + d1 * 1000 + d2

(* the expected crossings as a sequence in the order i-major, j-minor (any order is fine *)
(* for the comparison, which is a bag comparison)                                         *)
RECURSIVE SeqOfSet(_)
SeqOfSet(S) == IF S = {} THEN <<>>
               ELSE LET m == CHOOSE a \in S : \A b \in S : a[1] < b[1] \/ (a[1] = b[1] /\ a[2] <= b[2])
                    IN <<m>> \o SeqOfSet(S \ {m})
ExpectedPoints(p, q) ==
    LET prs == SeqOfSet(CrossingPairs(p, q))
    IN [k \in 1..Len(prs) |-> CrossPoint(p[prs[k][1]], p[prs[k][1] + 1], q[prs[k][2]], q[prs[k][2] + 1])]

(* observed point (fixed point 1e-6, lattice coordinates) equals the rational point *)
PointMatches(ox, oy, e, tol) == /\ Within(ox, RatQ6(e[1], e[3]), tol + 1)
                                /\ Within(oy, RatQ6(e[2], e[3]), tol + 1)
SameRat(e, f) == e[1] * f[3] = f[1] * e[3] /\ e[2] * f[3] = f[2] * e[3]

(* bag equality between observed points and expected rational points *)
BagMatches(oxs, oys, exp, tol) ==
    /\ Len(oxs) = Len(exp) /\ Len(oys) = Len(exp)
    /\ \A k \in 1..Len(exp) :
         Cardinality({m \in 1..Len(oxs) : PointMatches(oxs[m], oys[m], exp[k], tol)})
           = Cardinality({m \in 1..Len(exp) : SameRat(exp[m], exp[k])})
=============================================================================
