SPECIFICATION Spec
CONSTANTS Scen = "cond"  NGiven = 2  MutKind = "vecfirst"  MutFam = "none"  MutName = "none"
CHECK_DEADLOCK FALSE
INVARIANT VectorisedEqualsPointwise
