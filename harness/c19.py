"""C19 - evaluation is pure and repeatable; predefined models share no state.

M: TLC explores spec/Purity.tla (all histories of new / fit / eval on two models up to length
   5-6) against the ownership rules; the deviations shared dependence function, fit writes the
   template, caching evaluation must violate.
R: TLC emits every history of length 6; a seeded subset is replayed on real models built from
   the six predefined getters (data: the shipped 1-year data sets, subsampled).
V: after every operation the harness fingerprints every mutable object reachable from every
   model and every caller-owned array; spec/Trace_C19.tla judges the changed sets and result
   digests (EvalIsPure, InputsUntouched, FitIsLocal, TemplateUntouched, Repeatable,
   FreshGraphsDisjoint).
"""
import functools
import hashlib
import os
import types
import warnings

import numpy as np

from .common import Machinery, import_virocon, REPO

LEVEL = "model_checking"

GETTERS = ["get_DNVGL_Hs_Tz", "get_DNVGL_Hs_U", "get_OMAE2020_Hs_Tz", "get_OMAE2020_V_Hs",
           "get_Windmeier_EW_Hs_S", "get_Nonzero_EW_Hs_S"]
SKIP_ATTRS = {"_sample", "_sample_model_state"}  # TransformedModel's lazily drawn sample cache (not a parameter; results stay repeatable)


# ------------------------------------------------------------------------- fingerprints


def _scalar(v):
    if isinstance(v, float):
        return ("f", v.hex())
    if isinstance(v, (np.floating,)):
        return ("nf", float(v).hex())
    if isinstance(v, (np.integer,)):
        return ("ni", int(v))
    if isinstance(v, (int, bool, str, bytes, type(None), complex)):
        return ("s", repr(v))
    return None


def _is_container(v):
    return isinstance(v, (list, tuple, dict, set, np.ndarray, functools.partial)) or (
        hasattr(v, "__dict__") and not isinstance(v, (types.FunctionType, types.BuiltinFunctionType, types.MethodType,
                                                      type, types.ModuleType)))


def walk(root, rootlabel, model, out, role_of):
    """out: id -> (model, role, label, own fingerprint, obj)"""
    stack = [(root, rootlabel)]
    while stack:
        obj, label = stack.pop()
        if id(obj) in out:
            # reachable by several paths: the template path decides the role
            prev = out[id(obj)]
            if prev[1] != "template" and role_of(label, obj) == "template":
                out[id(obj)] = (prev[0], "template", label, prev[3], prev[4])
            continue
        items = []
        if isinstance(obj, np.ndarray):
            if obj.dtype == object:
                items = [(str(i), v) for i, v in enumerate(obj.ravel().tolist())]
                own = [("shape", obj.shape)]
            else:
                own = [("nd", obj.shape, str(obj.dtype), hashlib.sha1(np.ascontiguousarray(obj).tobytes()).hexdigest())]
        elif isinstance(obj, functools.partial):
            own = [("partial", id(obj.func))]
            items = [(f"kw[{k}]", v) for k, v in (obj.keywords or {}).items()] + [(f"arg[{i}]", v) for i, v in enumerate(obj.args)]
        elif isinstance(obj, dict):
            own = []
            items = [(f"[{k!r}]" if not isinstance(k, str) else f"[{k}]", v) for k, v in obj.items()]
        elif isinstance(obj, (list, tuple)):
            own = [("len", len(obj))]
            items = [(f"[{i}]", v) for i, v in enumerate(obj)]
        elif isinstance(obj, set):
            own = [("setlen", len(obj))]
            items = [(f"{{{i}}}", v) for i, v in enumerate(sorted(obj, key=id))]
        else:
            own = [("cls", type(obj).__name__)]
            items = [(f".{k}", v) for k, v in vars(obj).items() if k not in SKIP_ATTRS]
        for name, v in items:
            sc = _scalar(v)
            if sc is not None:
                own.append((name, sc))
            elif _is_container(v):
                own.append((name, ("ref", id(v))))
                stack.append((v, label + name))
            else:
                own.append((name, ("opaque", id(v))))
        fp = hashlib.sha1(repr(own).encode()).hexdigest()
        out[id(obj)] = (model, role_of(label, obj), label, fp, obj)
    return out


def role_of_factory(vc):
    def role_of(label, obj):
        if isinstance(obj, vc.intervals.IntervalSlicer) or ".interval_slicers" in label:
            return "config"
        # the template of a conditional dimension and everything below it
        parts = label.split(".")
        for i, p in enumerate(parts):
            if p == "distribution" and i > 0 and parts[i - 1].startswith("distributions["):
                return "template"
        if label.count(".") == 0 or label.endswith(".conditional_on") or label.endswith(".distributions") \
                or label.endswith(".model"):
            return "config"
        return "fitted"
    return role_of


# ------------------------------------------------------------------------- operations


class World:
    def __init__(self, vc, seed):
        self.vc = vc
        self.models = {}
        self.inputs = {}
        self.role_of = role_of_factory(vc)
        self.seed = seed
        self.datasets = {}

    def data_for(self, getter):
        vc = self.vc
        key = "D" if getter in ("get_DNVGL_Hs_U", "get_OMAE2020_V_Hs") else "A"
        if key not in self.datasets:
            f = REPO / "datasets" / f"ec-benchmark_dataset_{key}_1year.txt"
            self.datasets[key] = vc.read_ec_benchmark_dataset(str(f)).values[::3].copy()
        d = self.datasets[key]
        if getter == "get_DNVGL_Hs_U":
            d = d[:, ::-1]
        return np.ascontiguousarray(d)

    def snapshot(self):
        objs = {}
        for m, rec in self.models.items():
            walk(rec["model"], m, m, objs, self.role_of)
            walk(rec["model3d"], m + "3d", m, objs, self.role_of)
        inputs = {k: hashlib.sha1(np.ascontiguousarray(v).tobytes()).hexdigest() + str(v.shape)
                  for k, v in self.inputs.items()}
        return objs, inputs

    def new(self, m, getter):
        vc = self.vc
        r = getattr(vc, getter)()
        dd, fd = r[0], r[1]
        model = vc.GlobalHierarchicalModel(dd)
        if len(r) == 4:
            t = r[3]
            model = vc.TransformedModel(model, t["transform"], t["inverse"], t["jacobian"], precision_factor=0.1,
                                        random_state=11)
        self.models[m] = dict(model=model, getter=getter, fitdesc=fd, fitted=False)
        # a 3-D model of the same 'owner' (the getters are all 2-D; n-D contours use the sphere-point relaxation)

        def lin(x, a=1.0, b=0.3):
            return a + b * x

        DF = vc.DependenceFunction
        self.models[m]["model3d"] = vc.GlobalHierarchicalModel([
            {"distribution": vc.WeibullDistribution(alpha=2.0, beta=1.6, gamma=0.3)},
            {"distribution": vc.LogNormalDistribution(f_sigma=0.3), "conditional_on": 0, "parameters": {"mu": DF(lin)}},
            {"distribution": vc.WeibullDistribution(f_beta=2.0, f_gamma=0.0), "conditional_on": 1, "parameters": {"alpha": DF(lin)}}])
        self.inputs[f"data_{m}"] = self.data_for(getter).copy()
        rng = np.random.default_rng(self.seed + len(m))
        d = self.inputs[f"data_{m}"]
        xs = d[rng.integers(0, len(d), 7)] * 1.01 + 0.05
        xs[0, 0], xs[1, 1] = 0.0, -0.5        # boundary / outside-support values exercise masking paths
        # memory layout of the caller's arrays: row-major for every other model created in this world, column-major
        # (what np.array([hs, tz]).T or DataFrame.values give) for the others - a column of such an array is a
        # contiguous VIEW, so an in-place operation on "a column" writes into the caller's array
        self.nnew = getattr(self, "nnew", 0) + 1
        lay = np.asfortranarray if (self.seed + self.nnew) % 2 else np.ascontiguousarray
        self.inputs[f"data_{m}"] = lay(self.inputs[f"data_{m}"])
        self.inputs[f"x_{m}"] = lay(xs)
        self.inputs[f"sample_{m}"] = lay(d[rng.integers(0, len(d), 400)] + 0.01 * rng.random((400, 2)))
        # caller-owned grid limits, one entry deliberately in (upper, lower) order (accepted: min()/max() are taken)
        self.inputs[f"limits_{m}"] = np.array([[0.0, float(np.max(d[:, 0])) * 1.5], [float(np.max(d[:, 1])) * 1.5, 0.0]])
        return None

    def fit(self, m):
        rec = self.models[m]
        import copy
        rec["model"].fit(self.inputs[f"data_{m}"], copy.deepcopy(rec["fitdesc"]))
        rec["fitted"] = True
        return None

    def evaluate(self, m, kind):
        """returns an array-like result (digested) - deterministic given model state"""
        vc = self.vc
        rec = self.models[m]
        model = rec["model"]
        base = model.model if isinstance(model, vc.TransformedModel) else model
        x = self.inputs[f"x_{m}"]
        sample = self.inputs[f"sample_{m}"]
        # Evaluations whose inputs fix the result (explicit random_state, supplied sample, no Monte-Carlo at all)
        # must not consult the global numpy RNG: it is seeded DIFFERENTLY on every call, so a hidden dependence
        # shows up as a Repeatable violation.  The few Monte-Carlo evaluations without a random_state argument
        # (GLOBAL_RNG_KINDS) are only repeatable for a given global seed.
        self.ncalls = getattr(self, "ncalls", 0) + 1
        # (a TransformedModel of this world has random_state=11: its IFORM contour and its cached sample are seeded)
        uses_global = kind in GLOBAL_RNG_KINDS or (kind == "sample" and isinstance(model, vc.TransformedModel))
        np.random.seed(12345 if uses_global else 1000 + self.ncalls)
        import matplotlib
        matplotlib.use("Agg")
        import matplotlib.pyplot as plt

        class Stub:
            pass

        if kind == "pdf":
            return model.pdf(x)
        if kind == "cdf_icdf":
            p = np.array([0.1, 0.5, 0.9])
            d0, d1 = base.distributions
            g = np.array([1.0, 2.0, 3.0])
            return np.concatenate([d0.cdf(x[:, 0]), d0.icdf(p), d1.cdf(x[:, 1], given=x[:, 0]), d1.icdf(p, given=g),
                                   d1.pdf(x[:, 1], given=x[:, 0])])
        if kind == "sample":
            if isinstance(model, vc.TransformedModel):
                return model.draw_sample(500)
            return model.draw_sample(500, random_state=7)
        if kind == "marginal_icdf":
            return np.asarray(base.marginal_icdf(np.array([0.5, 0.9]), 1, precision_factor=0.1))
        if kind == "iform":
            return vc.IFORMContour(base, 0.01, n_points=16).coordinates
        if kind == "isorm":
            return vc.ISORMContour(base, 0.01, n_points=12).coordinates
        if kind == "hdc":
            hi = [float(np.max(self.inputs[f"data_{m}"][:, j])) * 1.5 for j in range(2)]
            c = vc.HighestDensityContour(base, 0.1, limits=[(0, hi[0]), (0, hi[1])], deltas=[hi[0] / 40, hi[1] / 40])
            co = c.coordinates
            return np.concatenate([np.ravel(np.asarray(a, dtype=float)) for a in (co if isinstance(co, list) else [co])])
        if kind == "ds":
            return vc.DirectSamplingContour(base, 0.05, sample=sample, deg_step=10).coordinates
        if kind == "and":
            return np.asarray(vc.AndContour(base, 0.1, sample=sample, deg_step=15, allowed_error=0.1).coordinates, dtype=float)
        if kind == "or":
            return np.asarray(vc.OrContour(base, 0.1, sample=sample, deg_step=15, allowed_error=0.1).coordinates, dtype=float)
        if kind in ("design", "plot", "save"):
            c = Stub()
            c.coordinates = self.inputs.setdefault(f"contour_{m}", np.ascontiguousarray(
                vc.DirectSamplingContour(base, 0.05, sample=sample, deg_step=20).coordinates))
            if kind == "design":
                return vc.calculate_design_conditions(c, steps=5)
            if kind == "plot":
                fig, ax = plt.subplots()
                try:
                    vc.plot_2D_contour(c, sample=sample, design_conditions=True, ax=ax)
                    return np.concatenate([ln.get_xydata().ravel() for ln in ax.get_lines()])
                finally:
                    plt.close(fig)
            path = os.path.join(str(self.tmp), f"contour_{m}")
            vc.save_contour_coordinates(c, path)
            return np.frombuffer(open(path + ".txt", "rb").read(), dtype=np.uint8)
        if kind == "plot_dep":
            axes = vc.plot_dependence_functions(base)
            try:
                return np.concatenate([ln.get_xydata().ravel() for ax in np.ravel(axes) for ln in ax.get_lines()])
            finally:
                plt.close("all")
        if kind == "plot_quantiles":
            axes = vc.plot_marginal_quantiles(base, sample)
            try:
                return np.concatenate([np.asarray(c.get_offsets()).ravel() for ax in np.ravel(axes) for c in ax.collections] +
                                      [ln.get_xydata().ravel() for ax in np.ravel(axes) for ln in ax.get_lines()])
            finally:
                plt.close("all")
        if kind == "tiform":
            # seeded Monte-Carlo IFORM of a TransformedModel (only the two Hs-steepness getters give one)
            if isinstance(model, vc.TransformedModel):
                return vc.IFORMContour(model, 0.1, n_points=4).coordinates
            return vc.IFORMContour(base, 0.1, n_points=4).coordinates
        if kind == "hdc_limits":
            # limits given by the caller as a mutable (n_dim, 2) array with one entry in (upper, lower) order
            lim = self.inputs[f"limits_{m}"]
            c = vc.HighestDensityContour(base, 0.1, limits=lim, deltas=[float(np.max(lim[0])) / 30, float(np.max(lim[1])) / 30])
            co = c.coordinates
            return np.concatenate([np.ravel(np.asarray(a, dtype=float)) for a in (co if isinstance(co, list) else [co])])
        if kind in ("iform3d", "isorm3d", "pdf3d", "sample3d"):
            m3 = rec["model3d"]
            if kind == "iform3d":
                return vc.IFORMContour(m3, 0.05, n_points=14).coordinates
            if kind == "isorm3d":
                return vc.ISORMContour(m3, 0.05, n_points=11).coordinates
            if kind == "pdf3d":
                return m3.pdf(np.c_[x, x[:, :1] + 0.5])
            return m3.draw_sample(300, random_state=5)
        if kind == "tpdf":
            return model.pdf(x)
        if kind == "jcdf":
            # joint cdf (nquad, slow) of the hierarchical model at ONE of the caller's points, the one with a negative
            # coordinate; the view x[1:2] shares its memory with the caller's array
            return base.cdf(x[1:2])
        if kind == "empcdf":
            # fills the lazily drawn sample of a TransformedModel (seeded by its random_state)
            if isinstance(model, vc.TransformedModel):
                return model.empirical_cdf(np.abs(x[:3]) + 0.1)
            return model.pdf(x)
        raise Machinery(f"unknown evaluation kind {kind}")


GLOBAL_RNG_KINDS = {"marginal_icdf", "plot_quantiles"}
EVALS_ANY = ["pdf", "cdf_icdf", "sample", "marginal_icdf", "iform", "isorm", "hdc", "ds", "and", "or", "design", "plot", "save",
             "iform3d", "isorm3d", "pdf3d", "sample3d", "tiform", "hdc_limits", "jcdf", "empcdf"]
EVALS_FITTED = ["plot_dep", "plot_quantiles"]


def replay_history(vc, rid, hist, conc, seed, tmp):
    """hist: list of {op, m, e}; conc: getters for A/B and evaluation kinds for e1/e2"""
    w = World(vc, seed)
    w.nnew = rid % 2      # alternates which models get column-major inputs
    w.tmp = tmp
    digests = {}
    events = []
    prev_objs, prev_in = w.snapshot()
    for h in hist:
        op, m, e = h["op"], h["m"], h["e"]
        kind = conc[e] if op == "eval" else ""
        res, exc = None, ""
        with warnings.catch_warnings():
            warnings.simplefilter("ignore")
            try:
                if op == "new":
                    w.new(m, conc[m])
                elif op == "fit":
                    w.fit(m)
                else:
                    if kind in EVALS_FITTED and not w.models[m]["fitted"]:
                        kind = "pdf"
                    res = w.evaluate(m, kind)
            except Exception as ex:  # noqa
                exc = f"{type(ex).__name__}: {ex}"[:160]
        objs, inp = w.snapshot()
        changed = []
        for oid, (mm, role, label, fp, _) in objs.items():
            if oid in prev_objs:
                if prev_objs[oid][3] != fp:
                    changed.append([mm, role, label])
            elif op != "new" or mm != m:
                # a new object appeared: its parent changed as well (id of the child); report only if
                # the parent is not reported, which cannot happen - nothing to do
                pass
        for oid, (mm, role, label, fp, _) in prev_objs.items():
            if oid not in objs and op == "new":
                changed.append([mm, role, label])
        inputchanged = any(prev_in.get(k) is not None and prev_in[k] != v for k, v in inp.items())
        dig = -1
        det = False
        if op == "eval" and exc == "" and res is not None:
            arr = np.ascontiguousarray(np.asarray(res, dtype=float) if not (isinstance(res, np.ndarray) and res.dtype == np.uint8) else res)
            hx = hashlib.sha1(arr.tobytes()).hexdigest() + str(arr.shape)
            dig = digests.setdefault(hx, len(digests) + 1)
            det = True
        events.append(dict(op=("eval" if op == "eval" else op), m=m, e=(kind if op == "eval" else ""), changed=changed,
                           inputchanged=bool(inputchanged), dig=dig, deterministic=det, exc=exc, twin=False, twinsame=True,
                           _hx=(hx if det else None)))
        prev_objs, prev_in = objs, inp
    # history independence: the LAST deterministic evaluation of the history must equal the same evaluation on a
    # twin object that went through the same new / fit operations but through NO earlier evaluation
    last = next((i for i in range(len(events) - 1, -1, -1) if events[i]["op"] == "eval" and events[i]["deterministic"]), None)
    if last is not None and any(ev["m"] == events[last]["m"] and ev["op"] in ("eval", "fit") for ev in events[:last]):
        m = events[last]["m"]
        w2 = World(vc, seed)
        w2.nnew = rid % 2
        w2.tmp = tmp
        try:
            with warnings.catch_warnings():
                warnings.simplefilter("ignore")
                for h, ev in zip(hist[:last], events[:last]):
                    if h["m"] != m or ev["exc"]:
                        continue
                    if h["op"] == "new":
                        w2.new(m, conc[m])
                    elif h["op"] == "fit":
                        w2.fit(m)
                res2 = w2.evaluate(m, events[last]["e"])
            arr2 = np.ascontiguousarray(np.asarray(res2, dtype=float) if not (isinstance(res2, np.ndarray) and res2.dtype == np.uint8) else res2)
            hx2 = hashlib.sha1(arr2.tobytes()).hexdigest() + str(arr2.shape)
            events[last]["twin"] = True
            events[last]["twinsame"] = bool(hx2 == events[last]["_hx"])
        except Exception:  # the twin raised although the original did not: also a dependence on the history
            events[last]["twin"] = True
            events[last]["twinsame"] = False
    for ev in events:
        ev.pop("_hx", None)
    # aliasing between the two models (mutable objects only)
    shared = []
    if len(w.models) == 2:
        a, b = {}, {}
        walk(w.models["A"]["model"], "A", "A", a, w.role_of)
        walk(w.models["B"]["model"], "B", "B", b, w.role_of)
        walk(w.models["A"]["model3d"], "A3d", "A", a, w.role_of)
        walk(w.models["B"]["model3d"], "B3d", "B", b, w.role_of)
        for oid in set(a) & set(b):
            if isinstance(a[oid][4], tuple):
                continue  # immutable (interned constants such as (0, None)); mutable members are walked themselves
            shared.append(a[oid][2] + " is " + b[oid][2])
    return dict(id=rid, events=events, shared=sorted(shared)[:10])


def concretise(i, seed):
    rng = np.random.default_rng(seed * 7919 + i)
    ga = GETTERS[int(rng.integers(0, 6))]
    gb = ga if rng.random() < 0.5 else GETTERS[int(rng.integers(0, 6))]
    pool = EVALS_ANY + EVALS_FITTED
    e1, e2 = (pool[int(k)] for k in rng.choice(len(pool), 2, replace=False))
    return {"A": ga, "B": gb, "e1": e1, "e2": e2}


def key_of(hist, conc):
    return ("hist=" + " ".join(f"{h['op']}{h['m']}{('(' + conc[h['e']] + ')') if h['op'] == 'eval' else ''}" for h in hist)
            + f" A={conc['A']} B={conc['B']}")


def run(ctx):
    vc = import_virocon()
    ctx.rule = ("TLC enumerates every history of length 6 over {new, fit, eval e1, eval e2} x {A, B}; a seeded subset is replayed with "
                "A, B from the six predefined getters (same or different getter) and e1, e2 from 21 evaluation kinds (incl. 3-D IFORM / ISORM / pdf / sampling) (pdf, cdf/icdf/pdf of "
                "the distributions, seeded sampling, marginal_icdf, IFORM, ISORM, HDC, direct sampling / AND / OR with supplied sample, design "
                "conditions, plots, save); distinct = (history, concretisation); non-trivial = contains an evaluation or a fit")
    ctx.trusted = ["TLC evaluating PurityOps / Trace_C19", "harness fingerprint walk over __dict__ / list / dict / tuple / ndarray / "
                   "functools.partial (floats by bit pattern); plain functions are treated as immutable"]
    ctx.assumptions = ["TransformedModel._sample (lazy sample cache) is excluded from the fingerprints",
                       "the global numpy RNG is re-seeded before every evaluation (Monte-Carlo entry points draw from it)",
                       "fit() filling the caller's fit_descriptions list in place is outside the property (fit input)"]
    ctx.model_check("Purity", ctx.pick("MC_Purity_quick.cfg", "MC_Purity_thorough.cfg"), timeout=3000)
    ctx.model_check("Purity", "MC_Purity_shared.cfg", expect_violation="FreshGraphsDisjoint")
    ctx.model_check("Purity", "MC_Purity_tmpl.cfg", expect_violation="TemplateUntouched")
    ctx.model_check("Purity", "MC_Purity_cache.cfg", expect_violation="EvalIsPure")
    hists = ctx.generate("Purity", "Gen_Purity.cfg", timeout=1200)
    hists = [h for h in hists if sum(1 for x in h if x["op"] != "new") >= 3]
    rng = np.random.default_rng(ctx.seed + 19)
    nrep = ctx.pick(80, 800)
    idx = rng.choice(len(hists), size=min(nrep, len(hists)), replace=False)
    tmp = ctx.work / "files"
    tmp.mkdir(exist_ok=True)
    recs, meta = [], []
    for k, i in enumerate(idx):
        conc = concretise(int(i), ctx.seed)
        recs.append(replay_history(vc, k + 1, hists[int(i)], conc, ctx.seed, tmp))
        meta.append((hists[int(i)], conc))
    # repeat leg: every evaluation kind twice in a row on one model (the global RNG is seeded differently for
    # the two calls unless the kind is Monte-Carlo without a random_state argument)
    pool = EVALS_ANY + EVALS_FITTED
    for j, kind in enumerate(pool):
        for g in ((j % 6, (j + 3) % 6) if ctx.tier != "quick" else (j % 6,)):
            h = [dict(op="new", m="A", e="")] + ([dict(op="fit", m="A", e="")] if kind in EVALS_FITTED or j % 2 else []) + \
                [dict(op="eval", m="A", e="e1"), dict(op="eval", m="A", e="e1")]
            conc = {"A": GETTERS[g], "B": GETTERS[g], "e1": kind, "e2": "pdf"}
            recs.append(replay_history(vc, len(recs) + 1, h, conc, ctx.seed, tmp))
            meta.append((h, conc))
    # cache interplay on TransformedModels: a seeded evaluation, then one that fills the lazily drawn sample, then the
    # seeded evaluation again (and the other way round)
    tgetters = [g for g in GETTERS if g.endswith("_Hs_S")]
    for g in tgetters:
        for e1, e2 in (("tiform", "empcdf"), ("empcdf", "tiform")):
            h = [dict(op="new", m="A", e="")] + ([dict(op="fit", m="A", e="")] if g == tgetters[0] else []) + \
                [dict(op="eval", m="A", e="e1"), dict(op="eval", m="A", e="e2"), dict(op="eval", m="A", e="e1")]
            conc = {"A": g, "B": g, "e1": e1, "e2": e2}
            recs.append(replay_history(vc, len(recs) + 1, h, conc, ctx.seed, tmp))
            meta.append((h, conc))
    failing = ctx.validate("Trace_C19", "Trace_C19.cfg", recs)
    nexc = 0
    for r, (h, conc) in zip(recs, meta):
        ctx.case(key_of(h, conc), nontrivial=True)
        nexc += sum(1 for e in r["events"] if e["exc"])
        for clause in failing.get(r["id"], []):
            bad = [e for e in r["events"] if e["changed"] or e["inputchanged"]]
            ctx.violation(clause, key_of(h, conc), f"events with changes: {bad[:3]} shared={r['shared'][:3]}"[:1200],
                          replay=dict(hist=h, conc=conc))
    ctx.notes.update(histories_emitted_by_TLC=len(hists), histories_replayed=len(recs),
                     operations_replayed=sum(len(r["events"]) for r in recs), evaluations_that_raised=nexc)
    ctx.sample({"history": key_of(*meta[0]), "events": recs[0]["events"][:6]})
    # binding self-test: a fabricated change during an evaluation must be rejected
    import copy
    bad = copy.deepcopy(next(r for r in recs if any(e["op"] == "eval" for e in r["events"])))
    bad["id"] = 1
    ev = next(e for e in bad["events"] if e["op"] == "eval")
    ev["changed"] = [[ev["m"], "fitted", "A.distributions[0]"]]
    if "EvalIsPure" not in ctx.validate("Trace_C19", "Trace_C19.cfg", [bad]).get(1, []):
        raise Machinery("self-test: fabricated mutation during evaluation was not rejected")
    # growth: the top-level session life cycle (spec/Virocon.tla) - results are functions of the mutators only
    from . import ext_virocon
    ext_virocon.run_ext(ctx)


def replay(ctx, case):
    if "virocon" in case.get("case", {}):
        from . import ext_virocon
        return ext_virocon.replay_ext(ctx, case["case"])
    vc = import_virocon()
    c = case["case"]
    tmp = ctx.work / "files"
    tmp.mkdir(exist_ok=True)
    r = replay_history(vc, 1, c["hist"], c["conc"], ctx.seed, tmp)
    failing = ctx.validate("Trace_C19", "Trace_C19.cfg", [r])
    ctx.case(key_of(c["hist"], c["conc"]))
    for clause in failing.get(1, []):
        ctx.violation(clause, key_of(c["hist"], c["conc"]), str([e for e in r["events"] if e["changed"]])[:1200], replay=c)
