"""C12: 3-parameter Weibull MLE from the default start values loses most of the
likelihood for data of small magnitude (scale 0.05 .. 0.15), location exactly 0,
shape 1.5 .. 4 -- and is therefore not scale-equivariant either."""
import sys
import numpy as np
import scipy.stats as sts
from virocon.distributions import WeibullDistribution


def loglik(data, alpha, beta, gamma):  # independent oracle: scipy's logpdf
    return float(np.sum(sts.weibull_min.logpdf(data, beta, loc=gamma, scale=alpha)))


violations = 0
cases = [  # (shape, scale, n, seed) ; location is 0 in all of them
    (2.0, 0.06, 5000, 1),
    (3.0, 0.06, 5000, 0),
    (3.0, 0.05, 1000, 0),
    (1.5, 0.10, 200, None),  # seed searched below
    (2.0, 0.08, 1000, None),
]
for shape, scale, n, seed in cases:
    seeds = [seed] if seed is not None else range(30)
    for s in seeds:
        data = sts.weibull_min.rvs(shape, 0, scale, size=n, random_state=s)
        assert 0 < data.min() and data.max() < 20 and 0.05 <= scale <= 20

        dist = WeibullDistribution()  # default start values, nothing fixed
        ll_start = loglik(data, dist.alpha, dist.beta, dist.gamma)
        dist.fit(data)
        ll_fit = loglik(data, dist.alpha, dist.beta, dist.gamma)
        ll_gen = loglik(data, scale, shape, 0.0)

        # the same data in other units (factor 10: scale 0.5 .. 1, still in [0.05, 20])
        dist10 = WeibullDistribution()
        dist10.fit(10 * data)
        not_equivariant = (
            abs(dist10.beta - dist.beta) > 0.1 * dist10.beta
            or abs(dist10.alpha - 10 * dist.alpha) > 0.1 * dist10.alpha
        )
        if ll_fit < ll_gen - 1.0:
            violations += 1
            print(
                f"shape={shape} scale={scale} loc=0 n={n} seed={s}: "
                f"loglik fitted {ll_fit:.1f} < generating {ll_gen:.1f} (start {ll_start:.1f})\n"
                f"   fitted: {dist}\n   fitted to 10*data: {dist10}  "
                f"scale-equivariant: {not not_equivariant}"
            )
            break

print("violations:", violations)
sys.exit(1 if violations else 0)
