------------------------------- MODULE Fix -------------------------------
(* Fixed-point / integer helpers shared by all modules.  TLC integers are 32 bit and *)
(* TLC aborts on overflow (never wraps), so comparisons are written overflow-free.   *)
EXTENDS Integers, Sequences, FiniteSets

Abs(x) == IF x < 0 THEN -x ELSE x
Max2(a, b) == IF a >= b THEN a ELSE b
Min2(a, b) == IF a <= b THEN a ELSE b
Within(x, y, tol) == Abs(x - y) <= tol

RECURSIVE SumSeq(_)
SumSeq(s) == IF s = <<>> THEN 0 ELSE Head(s) + SumSeq(Tail(s))

RECURSIVE MaxSeq(_)
MaxSeq(s) == IF Len(s) = 1 THEN s[1] ELSE Max2(Head(s), MaxSeq(Tail(s)))
RECURSIVE MinSeq(_)
MinSeq(s) == IF Len(s) = 1 THEN s[1] ELSE Min2(Head(s), MinSeq(Tail(s)))

SetMax(S) == CHOOSE x \in S : \A y \in S : y <= x
SetMin(S) == CHOOSE x \in S : \A y \in S : y >= x

Count(s, v) == Cardinality({i \in 1..Len(s) : s[i] = v})
Range(s) == {s[i] : i \in 1..Len(s)}
IsSorted(s) == \A i \in 1..(Len(s) - 1) : s[i] <= s[i + 1]
IsStrictlySorted(s) == \A i \in 1..(Len(s) - 1) : s[i] < s[i + 1]

(* relative tolerance without multiplication overflow: |x - y| <= tolAbs + |y| / relDiv *)
WithinRel(x, y, tolAbs, relDiv) == Abs(x - y) <= tolAbs + (Abs(y) \div relDiv)

(* failing clauses as a sequence of names: Clauses is a sequence of <<name, bool>> *)
RECURSIVE Failing(_)
Failing(cs) == IF cs = <<>> THEN <<>>
               ELSE IF Head(cs)[2] THEN Failing(Tail(cs))
                    ELSE <<Head(cs)[1]>> \o Failing(Tail(cs))
=============================================================================
