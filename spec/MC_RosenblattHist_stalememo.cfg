SPECIFICATION Spec
CONSTANTS MaxN = 3  K = 2  Shapes = {2,3,4}  Mut = "stalememo"  EmitCfg = FALSE
CHECK_DEADLOCK FALSE
INVARIANT InverseRosenblattNow
INVARIANT MapsIncreasing
