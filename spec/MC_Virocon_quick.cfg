SPECIFICATION Spec
CONSTANTS
  MaxLen = 5
  MaxMut = 2
  MaxContours = 2
  Deviation = "none"
  EmitBeh = FALSE
INVARIANT ResultCurrent
INVARIANT PostOnSnapshot
INVARIANT EvalInvisible
INVARIANT CacheSane
INVARIANT HistBasisAgrees
PROPERTY SnapshotStable
PROPERTY OnlyMutatorsMutate
CHECK_DEADLOCK FALSE
