------------------------------- MODULE Virocon -------------------------------
(* Top-level life cycle of one user session with the library (DESIGN section 1 and 9.5):   *)
(* one joint model object, optionally wrapped in a TransformedModel, the contours computed  *)
(* from it and what is done with them afterwards.                                           *)
(*                                                                                          *)
(* The point of this module is the REFINEMENT MAPPING of a session onto its canonical form: *)
(* the only operations that change what any later operation returns are the MUTATORS         *)
(* (fit, direct parameter writes); the abstract state of the model is therefore the          *)
(* sequence mut of mutators applied so far, and every observable result is a function of      *)
(*     (operation, arguments, prefix of mut it is based on)                                   *)
(* and of nothing else - not of evaluations, contours, plots, saved files, wrappers or caches *)
(* that happened in between.  The prefix is                                                   *)
(*   - the whole of mut for evaluations of the model, for new contours and for evaluations    *)
(*     through a TransformedModel wrapper (the wrapper holds the model, not a copy; its       *)
(*     Monte-Carlo sample cache is redrawn when the model has changed),                       *)
(*   - the prefix at the moment of its construction for everything done with a contour        *)
(*     (contours are snapshots: coordinates are computed in the constructor).                 *)
(* Replay (harness/ext_virocon.py) executes TLC-simulated sessions in a fresh process, and    *)
(* for every observable operation computes the same operation in another fresh process on a   *)
(* fresh model to which only the mutators of the basis prefix were applied; the two must be    *)
(* bit-identical (Trace_Virocon.tla).                                                         *)
(*                                                                                          *)
(* Named deviations (each must violate the invariant named with it):                         *)
(*   "LazyContour"   a contour evaluates the model when it is used       -> PostOnSnapshot    *)
(*   "EvalMutates"   icdf leaves something behind that later results see  -> EvalInvisible     *)
(*   "StaleCache"    the wrapper's sample is never redrawn (pre D27/D59)  -> ResultCurrent     *)
(*   "WrapCopies"    the wrapper works on a copy made at wrap time        -> ResultCurrent     *)
(* A freshly constructed model is not "empty": every family has default parameter values and *)
(* every dependence function its defaults, so evaluations and contours are defined from the  *)
(* first moment on (basis = the empty prefix).                                               *)
EXTENDS ViroconOps, FiniteSets, TLC, Json

CONSTANTS MaxLen,        \* operations per session
          MaxMut,        \* mutators per session
          MaxContours,
          Deviation,
          EmitBeh

Datasets     == {"d1", "d2"}
Mutators     == {"fit_d1", "fit_d2", "set0", "setdep"}
EvalKinds    == {"pdf", "icdf", "sample", "marginal", "condcdf"}
ContourKinds == {"iform", "isorm", "hdc", "ds", "and", "or"}
TmKinds      == {"tpdf", "tecdf", "tsample"}
PostKinds    == {"design", "save", "plot", "coords"}

VARIABLES exists,     \* the model object has been constructed
          mut,        \* sequence of mutators applied to it = its abstract state
          hidden,     \* number of hidden state changes (only deviations make it non-zero)
          contours,   \* contours[k] = [kind, basis]   basis = Len(mut) at construction
          wrapped,    \* a TransformedModel around the model exists; wrapBasis = Len(mut) when it was made
          wrapBasis,
          cache,      \* -1: the wrapper's sample cache is empty, else Len(mut) it was drawn at
          last,       \* observation of the last operation: [op, kind, arg, basis]
          hist
vars == <<exists, mut, hidden, contours, wrapped, wrapBasis, cache, last, hist>>

Gen == Len(mut)
(* basis: the length of the prefix of mut the result of this operation is a function of (-1: the operation returns nothing to compare) *)
Log(op, kind, arg, basis) == hist' = Append(hist, [op |-> op, kind |-> kind, arg |-> arg, basis |-> basis])
Obs(op, kind, arg, basis) ==
    last' = [op |-> op, kind |-> kind, arg |-> arg, basis |-> basis]
More == Len(hist) < MaxLen

Init == /\ exists = FALSE /\ mut = <<>> /\ hidden = 0 /\ contours = <<>> /\ wrapped = FALSE
        /\ wrapBasis = 0 /\ cache = -1 /\ last = <<>> /\ hist = <<>>

New == /\ More /\ ~exists
       /\ exists' = TRUE /\ Log("new", "", 0, -1) /\ last' = <<>>
       /\ UNCHANGED <<mut, hidden, contours, wrapped, wrapBasis, cache>>

(* fit(data) / a direct write of a parameter of the first distribution / of a dependence   *)
(* function of the second                                                                  *)
Mutate(m) ==
    /\ More /\ exists /\ Len(mut) < MaxMut
    /\ mut' = Append(mut, m) /\ Log("mut", m, 0, -1) /\ last' = <<>>
    /\ UNCHANGED <<exists, hidden, contours, wrapped, wrapBasis, cache>>

(* pdf / cdf / icdf / seeded sample / marginal_* / conditional cdf of the model *)
Eval(k) ==
    /\ More /\ exists
    /\ hidden' = IF Deviation = "EvalMutates" /\ k = "icdf" THEN hidden + 1 ELSE hidden
    /\ Obs("eval", k, 0, Gen)
    /\ Log("eval", k, 0, Gen)
    /\ UNCHANGED <<exists, mut, contours, wrapped, wrapBasis, cache>>

(* a contour object is constructed: the coordinates are computed now *)
Contour(k) ==
    /\ More /\ exists /\ Len(contours) < MaxContours
    /\ contours' = Append(contours, [kind |-> k, basis |-> Gen])
    /\ Obs("contour", k, Len(contours) + 1, Gen)
    /\ Log("contour", k, Len(contours) + 1, Gen)
    /\ UNCHANGED <<exists, mut, hidden, wrapped, wrapBasis, cache>>

(* design conditions / save + read back / plot / the coordinates attribute of contour c *)
Post(p, c) ==
    /\ More /\ c \in 1..Len(contours)
    /\ LET b == IF Deviation = "LazyContour" THEN Gen ELSE contours[c].basis
       IN Obs("post", p, c, b) /\ Log("post", p, c, b)
    /\ UNCHANGED <<exists, mut, hidden, contours, wrapped, wrapBasis, cache>>

Wrap ==
    /\ More /\ exists /\ ~wrapped
    /\ wrapped' = TRUE /\ wrapBasis' = Gen /\ Log("wrap", "", 0, -1) /\ last' = <<>>
    /\ UNCHANGED <<exists, mut, hidden, contours, cache>>

(* evaluations through the wrapper; tecdf reads the Monte-Carlo sample cache *)
UsesCache(k) == k \in {"tecdf"}
TmEval(k) ==
    /\ More /\ wrapped
    /\ LET cur == IF Deviation = "WrapCopies" THEN wrapBasis ELSE Gen
           redraw == cache = -1 \/ (cache # cur /\ Deviation # "StaleCache")
           c2 == IF UsesCache(k) THEN (IF redraw THEN cur ELSE cache) ELSE cache
           b == IF UsesCache(k) THEN c2 ELSE cur
       IN /\ cache' = c2
          /\ Obs("tm", k, 0, b) /\ Log("tm", k, 0, b)
    /\ UNCHANGED <<exists, mut, hidden, contours, wrapped, wrapBasis>>

Next == \/ New
        \/ \E m \in Mutators : Mutate(m)
        \/ \E k \in EvalKinds : Eval(k)
        \/ \E k \in ContourKinds : Contour(k)
        \/ \E p \in PostKinds : \E c \in 1..MaxContours : Post(p, c)
        \/ Wrap
        \/ \E k \in TmKinds : TmEval(k)
Spec == Init /\ [][Next]_vars

------------------------------------------------------------------------------
(* what the refinement mapping promises *)

(* every result of the model, of a new contour and of the wrapper reflects ALL mutators so far *)
ResultCurrent == (last # <<>> /\ last.op \in {"eval", "contour", "tm"}) => last.basis = Gen
(* what is done with a contour reflects the model as it was when the contour was constructed *)
PostOnSnapshot == (last # <<>> /\ last.op = "post") => last.basis = contours[last.arg].basis
(* no operation other than a mutator leaves anything behind that a later result could see *)
EvalInvisible == hidden = 0
(* contours never change after construction, and only mutators extend mut *)
SnapshotStable == [][\A c \in 1..Len(contours) : contours'[c] = contours[c]]_vars
OnlyMutatorsMutate == [][mut' # mut => (hist'[Len(hist')]).op = "mut"]_vars
(* the cache, when filled, was drawn from a model state that existed *)
CacheSane == cache \in -1..Gen

(* the operator form of the mapping (ViroconOps, used by the trace specification) agrees with the state machine *)
HistBasisAgrees == Deviation = "none" => \A i \in 1..Len(hist) : hist[i].basis = ExpectedBasis(hist, i)

Emit == (EmitBeh /\ Len(hist) = MaxLen) => PrintT(<<"BEH", ToJson([hist |-> hist])>>)
LevelBound == TLCGet("level") <= MaxLen + 1
=============================================================================
