--------------------------- MODULE RosenblattHist ---------------------------
(* C01, histories: a model state can also be reached by MODIFYING a model that has already  *)
(* been used.  One behaviour = one contour point computed twice on one model object:          *)
(*                                                                                          *)
(*   phase "first"   the chain x_i = Qm_i(u_i | x_cond[i]) of Rosenblatt.tla (IcdfStep)       *)
(*   phase "modify"  Modify(i, s): an INNER object of dimension i is written directly - a     *)
(*                   parameter of one of its dependence functions (dep.parameters[..] = v),   *)
(*                   a dependence function re-fitted directly (dep.fit(x, y)), a parameter    *)
(*                   attribute of an unconditional distribution (dist.mu = v).  On the        *)
(*                   lattice: the quantile map of dimension i becomes that of another shape   *)
(*                   class s.  Every non-empty set of dimensions may be modified; dimension 1 *)
(*                   (the column most conditional dimensions read) is in it or not.           *)
(*   phase "second"  the same request again (same levels u: same alpha, same n_points)        *)
(*                                                                                          *)
(* The clause is the one of Rosenblatt.tla: mapped back through the cdfs of the model AS IT  *)
(* IS NOW the point returns the levels it was built from.  The history is only another way   *)
(* of reaching a model state; nothing an earlier call left behind may show in a later one.    *)
(*                                                                                          *)
(* Mut switches on one named deviation:                                                      *)
(*   "stalememo"  every conditional dimension remembers, per value of the given, the          *)
(*                parameter values (shape class) of its FIRST evaluation at that value and     *)
(*                serves them again; only a re-fit through the model would empty the memory.  *)
(*                Visible exactly when the conditioning column is unchanged and the dimension  *)
(*                itself was modified.                                                        *)
EXTENDS RosenblattOps, Json, TLC

CONSTANTS MaxN,        \* dimensions 2..MaxN
          K,           \* probability lattice 0..K-1
          Shapes,      \* shape classes explored
          Mut,         \* "none" | "stalememo"
          EmitCfg      \* TRUE: print every history (generator for leg R)

VARIABLES phase, pc, n, cond, sh0, sh, u, x, mods,
          memo         \* memo[i] = set of <<given, shape class>>: what dimension i used first at that given
vars == <<phase, pc, n, cond, sh0, sh, u, x, mods, memo>>

Lat == 0..(K - 1)
CondSet(m) == {c \in [1..m -> 0..m] : c[1] = 0 /\ \A i \in 2..m : c[i] < i}

Init ==
    /\ phase = "first" /\ pc = 1
    /\ n \in 2..MaxN
    /\ cond \in CondSet(n)
    /\ sh0 \in [1..n -> Shapes]
    /\ sh = sh0
    /\ u \in [1..n -> Lat]
    /\ x = [i \in 1..n |-> 0]
    /\ mods = {}
    /\ memo = [i \in 1..n |-> {}]

Known(i, g) == \E e \in memo[i] : e[1] = g
ShUsed(i, g) == IF Mut = "stalememo" /\ cond[i] # 0 /\ Known(i, g)
                THEN (CHOOSE e \in memo[i] : e[1] = g)[2] ELSE sh[i]

IcdfStep(i) ==
    /\ phase \in {"first", "second"} /\ pc = i /\ i <= n
    /\ LET g == GivenOf(cond, x, i) IN
         /\ x' = [x EXCEPT ![i] = Qm(ShUsed(i, g), u[i], g)]
         /\ memo' = [memo EXCEPT ![i] = IF Known(i, g) THEN @ ELSE @ \cup {<<g, sh[i]>>}]
    /\ pc' = i + 1
    /\ UNCHANGED <<phase, n, cond, sh0, sh, u, mods>>

EndFirst ==
    /\ phase = "first" /\ pc = n + 1
    /\ phase' = "modify"
    /\ UNCHANGED <<pc, n, cond, sh0, sh, u, x, mods, memo>>

(* dimensions are modified in ascending order (the order of the writes does not matter) *)
Modify(i, s) ==
    /\ phase = "modify" /\ i <= n /\ s # sh[i]
    /\ \A j \in mods : j < i
    /\ sh' = [sh EXCEPT ![i] = s]
    /\ mods' = mods \cup {i}
    /\ UNCHANGED <<phase, pc, n, cond, sh0, u, x, memo>>

StartSecond ==
    /\ phase = "modify" /\ mods # {}
    /\ phase' = "second" /\ pc' = 1
    /\ x' = [i \in 1..n |-> 0]
    /\ UNCHANGED <<n, cond, sh0, sh, u, mods, memo>>

Next == \/ \E i \in 1..MaxN : IcdfStep(i)
        \/ EndFirst
        \/ \E i \in 1..MaxN, s \in Shapes : Modify(i, s)
        \/ StartSecond
Spec == Init /\ [][Next]_vars

----------------------------------------------------------------------------
Done == phase \in {"first", "second"} /\ pc = n + 1

(* the clause of C01 on the CURRENT model: sh, not sh0 and not what a memo holds *)
InverseRosenblattNow ==
    Done => \A i \in 1..n : Cm(sh[i], x[i], GivenOf(cond, x, i), Lat) = u[i]

(* the second contour is a contour of the modified model, not a copy of the first: wherever  *)
(* the two models' maps differ at the point, the point moved                                 *)
MapsIncreasing ==
    \A i \in 1..n : pc > i /\ phase # "modify" => StrictlyIncreasing(sh[i], GivenOf(cond, x, i), Lat)

(* leg R: every history (structure, shape classes at construction, set of modified dimensions), *)
(* printed at the first state of its second contour with all levels 0                           *)
SetToSeq(S) == [k \in 1..Cardinality(S) |->
                  CHOOSE e \in S : Cardinality({f \in S : f < e}) = k - 1]
Emit ==
    EmitCfg /\ phase = "second" /\ pc = 1 /\ (\A i \in 1..n : u[i] = 0) =>
       PrintT(<<"BEH", ToJson([n |-> n, cond |-> cond, sh |-> sh0, mods |-> SetToSeq(mods)])>>)
=============================================================================
