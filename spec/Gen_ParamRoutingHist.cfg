SPECIFICATION Spec
CONSTANTS HFams = {"ScipyGamma", "ScipyRayleigh", "ScipyBeta"}  MaxInst = 3  MaxOps = 4  SharedIndex = FALSE  SharedFitKw = FALSE
CHECK_DEADLOCK FALSE
INVARIANT Emit
