------------------------------ MODULE SlicingOps ---------------------------
(* Interval slicing (virocon/intervals.py) on an integer lattice.                       *)
(*                                                                                      *)
(* Values are integers in lattice units.  An equal-width slicer has `upw` units per     *)
(* interval width, lower limit `lo` and upper limit `hi` (units).  A reference or a     *)
(* boundary is given in QUARTER units ("q", = 4 * value) so that centres and medians    *)
(* are integers.  Interval indices are 1-based.                                         *)
(*                                                                                      *)
(* The module has three layers:                                                         *)
(*   1. the declarative meaning of the three slicers (IdealIdx, Acceptable, RefQ, Kept);      *)
(*   2. the algorithm as the code performs it (centres, edges recomputed from centres,  *)
(*      argsort chunks turned into masks), with the code's float behaviour at edges     *)
(*      modelled by the constant Skew, as a small state machine                         *)
(*      Slice -> DropSmall -> CheckMin that TLC explores for all small inputs;          *)
(*   3. the clause operators used by Trace_C10 to judge recorded executions.            *)
EXTENDS Integers, Sequences, FiniteSets, SequencesExt, Fix

----------------------------------------------------------------------------
(* 1. declarative semantics                                                   *)

Ones(mask) == {j \in 1..Len(mask) : mask[j] = 1}
Cnt(mask) == Cardinality(Ones(mask))
InSet(raw, j) == {i \in 1..Len(raw) : raw[i][j] = 1}

(* number of intervals np.arange(lo, hi + w, w) yields in exact arithmetic *)
(* (none at all when the lower limit lies a whole width or more above the upper one) *)
WidthCount(lo, hi, upw) == IF hi + upw <= lo THEN 0 ELSE ((hi - lo + upw - 1) \div upw) + 1

(* the 1-based ideal interval of value v for [a,b) resp. (a,b] intervals starting at lo *)
IdealIdx(v, lo, upw, ropen) ==
    IF ropen THEN ((v - lo) \div upw) + 1 ELSE ((v - lo - 1) \div upw) + 1
OnEdge(v, lo, upw) == (v - lo) % upw = 0

(* covered value range of an equal-width slicer *)
Covered(v, lo, hi, ropen) == IF ropen THEN lo <= v /\ v <= hi ELSE lo < v /\ v <= hi

(* the intervals a covered value may legitimately be assigned to.  exact = the float     *)
(* width is a power of two, so edges are exact and the documented [a,b) / (a,b] rule     *)
(* decides; otherwise a value sitting on an ideal edge may go to either neighbour.       *)
Acceptable(v, lo, upw, ropen, exact, K) ==
    IF exact \/ ~OnEdge(v, lo, upw)
    THEN {IdealIdx(v, lo, upw, ropen)} \cap (1..K)
    ELSE {(v - lo) \div upw, ((v - lo) \div upw) + 1} \cap (1..K)

(* NumberOfIntervalsSlicer: n intervals over [lo, hi], the last one closed iff incmax.    *)
(* Data are pre-scaled by n, so the width upw = (hi - lo) / n is an integer.             *)
NumCovered(v, lo, hi, incmax) == lo <= v /\ (v < hi \/ (incmax /\ v = hi))
NumAcceptable(v, lo, hi, upw, n, incmax, exact) ==
    IF upw = 0 THEN (IF incmax /\ v = lo THEN {n} ELSE {})
    ELSE IF v = hi THEN (IF incmax THEN {n} ELSE {})
    ELSE IF exact \/ ~OnEdge(v, lo, upw) THEN {((v - lo) \div upw) + 1} \cap (1..n)
    ELSE {(v - lo) \div upw, ((v - lo) \div upw) + 1} \cap (1..n)

(* reference values, quarter units *)
RefQ(kind, i, lo, upw) ==
    CASE kind = "center" -> 4 * lo + 4 * (i - 1) * upw + 2 * upw
      [] kind = "left"   -> 4 * lo + 4 * (i - 1) * upw
      [] kind = "right"  -> 4 * lo + 4 * i * upw
LoQ(i, lo, upw) == 4 * lo + 4 * (i - 1) * upw
HiQ(i, lo, upw) == 4 * lo + 4 * i * upw

(* median (x4) of the data values selected by a mask; -1 for an empty selection *)
SortedVals(data, mask) ==
    LET idx == SetToSeq(Ones(mask))
    IN SortSeq([i \in 1..Len(idx) |-> data[idx[i]]], <)
MedianQ(data, mask) ==
    LET s == SortedVals(data, mask) n == Len(s)
    IN IF n = 0 THEN -1
       ELSE IF n % 2 = 1 THEN 4 * s[(n + 1) \div 2]
       ELSE 2 * (s[n \div 2] + s[(n \div 2) + 1])

(* PointsPerIntervalSlicer: sorted data cut into chunks of np points; the short chunk   *)
(* comes first (lastfull) or last.  ChunkBounds = <<first rank, last rank>> per chunk.  *)
ChunkBounds(N, np, lastfull) ==
    LET full == N \div np rem == N % np
    IN IF rem = 0 THEN [c \in 1..full |-> <<(c - 1) * np + 1, c * np>>]
       ELSE IF lastfull
            THEN [c \in 1..(full + 1) |-> IF c = 1 THEN <<1, rem>>
                                          ELSE <<rem + (c - 2) * np + 1, rem + (c - 1) * np>>]
            ELSE [c \in 1..(full + 1) |-> IF c = full + 1 THEN <<full * np + 1, N>>
                                          ELSE <<(c - 1) * np + 1, c * np>>]
AllOnes(n) == [j \in 1..n |-> 1]
SubSeqS(s, a, b) == [k \in 1..(b - a + 1) |-> s[a + k - 1]]

(* drop rule and minimum-interval rule *)
KeepIdx(raw, minpts) == {i \in 1..Len(raw) : Cnt(raw[i]) >= minpts}
RECURSIVE SelectIdx(_, _, _)
SelectIdx(s, keep, i) == IF i > Len(s) THEN <<>>
                         ELSE (IF i \in keep THEN <<s[i]>> ELSE <<>>) \o SelectIdx(s, keep, i + 1)
Kept(s, raw, minpts) == SelectIdx(s, KeepIdx(raw, minpts), 1)

=============================================================================
