----------------------------- MODULE EwLsqCases -----------------------------
(* C13 leg R: the law cases (weights kind x delta fixed/free x method x sample class x   *)
(* n x replicate) enumerated by TLC; the driver draws the sample, fits, and Trace_C13     *)
(* judges the laws.  A fixed delta rotates over moderate, tiny and huge values (the       *)
(* linearised positions must be accurate over the whole range).                           *)
EXTENDS EwLsqOps, TLC, Json
CONSTANTS NSet, Reps, ZPWeights, ZPSizes
VARIABLE c
SampleClassSeq == <<"ew", "weibull", "lognormal", "uniform", "zeros", "ties", "integers", "smalldelta">>
WeightSeq == <<"none", "linear", "quadratic", "cubic", "array">>
MethodSeq == <<"lsq", "wlsq">>
FixedDeltas == <<"0.7", "0.001", "1.0", "50", "2.5", "0.01", "1.6", "10000">>
Pos(seq, v) == CHOOSE k \in 1..Len(seq) : seq[k] = v
SetOfSeq(seq) == {seq[k] : k \in 1..Len(seq)}
FixedDeltaOf(x) ==
    IF ~x.fixed THEN "free"
    ELSE FixedDeltas[((Pos(SampleClassSeq, x.cls) + 3 * Pos(WeightSeq, x.wk) + 5 * Pos(MethodSeq, x.method)
                       + (x.n % 7) + x.rep) % Len(FixedDeltas)) + 1]
Base == [wk : SetOfSeq(WeightSeq), fixed : BOOLEAN, method : SetOfSeq(MethodSeq),
         cls : SetOfSeq(SampleClassSeq), n : NSet, rep : Reps]
LawCases == {[wk |-> x.wk, fixed |-> x.fixed, method |-> x.method, cls |-> x.cls, n |-> x.n, rep |-> x.rep,
              fd |-> FixedDeltaOf(x)] : x \in Base}
(* pairs of consecutive fits with the SAME delta in force on samples with the same number of  *)
(* non-zero observations and different numbers of zeros (za then zb), on one object or on two *)
ZeroCounts == {0, 1, 12}
ZeroPairBase == [wk : ZPWeights, method : SetOfSeq(MethodSeq), npos : ZPSizes, za : ZeroCounts, zb : ZeroCounts,
                 objs : {"one", "two"}]
ZeroPairCases ==
    {[kind |-> "zeropair", wk |-> x.wk, method |-> x.method, npos |-> x.npos, za |-> x.za, zb |-> x.zb,
      objs |-> x.objs,
      fd |-> FixedDeltas[((Pos(WeightSeq, x.wk) + 3 * Pos(MethodSeq, x.method) + x.za + 2 * x.zb + x.npos
                           + (IF x.objs = "one" THEN 0 ELSE 1)) % Len(FixedDeltas)) + 1]] :
       x \in {y \in ZeroPairBase : y.za # y.zb}}
(* one dominating weight: an array with weight 1 for the largest observation and 1e-14 / 1e-16 /  *)
(* 1e-18 for all others, and 'cubic' weights on a sample with one outlier 1e5 / 1e6 x typical.     *)
(* The regression is then decided by the tiny weights; one-pass sums cancel.  Judged against the   *)
(* EXACT rational solution of the normal equations on the same float coordinates.                  *)
DominantKinds == {"w1e14", "w1e16", "w1e18", "cubic1e5", "cubic1e6"}
DominantCases ==
    {[kind |-> "dominant", dom |-> x.dom, method |-> x.method, rep |-> x.rep,
      fd |-> FixedDeltas[((Pos(MethodSeq, x.method) + 2 * x.rep + (IF x.dom \in {"w1e14", "cubic1e5"} THEN 0 ELSE 3))
                          % Len(FixedDeltas)) + 1]] :
       x \in [dom : DominantKinds, method : SetOfSeq(MethodSeq), rep : Reps]}
Init == c \in LawCases \cup ZeroPairCases \cup DominantCases
Next == UNCHANGED c
Spec == Init /\ [][Next]_c
Emit == PrintT(<<"BEH", ToJson(c)>>)
=============================================================================
