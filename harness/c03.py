"""C03 - direct-sampling contour edges are (1-alpha)-quantile tangent lines of the sample.

M: TLC explores the direction table of DirectSamplingContour._compute (spec/DirectSampling.tla)
   for all 19 admissible deg_step and M = N + 2 generated angles; the table with M = N + 1
   (what exact arithmetic - and float arange for 15 of the 19 steps - yields) must violate
   NoSelfMeet / FullCircleOnce, an index shift must violate AllAdjacent.
R: TLC (spec/DirectSamplingGen.tla) enumerates deg_step x sample class x alpha class with plain
   Python arguments, and the TYPE of alpha (float, np.float64, np.float32) x the type of deg_step
   (int, float, np.float32) x the container of a supplied sample (ndarray, DataFrame, list of
   rows); the driver supplies seeded data for the class and runs the real DirectSamplingContour.
V: per contour one "contour" record and one "edge" record per polygon edge, judged by
   spec/Trace_C03.tla (StepExact, EdgeOnTangent, FractionBeyond, FullCircleOnce, DefaultN,
   GivenN, SampleKept, FiniteVertices).
"""
import copy
import math
import warnings
import zlib
from fractions import Fraction

import numpy as np

from .common import Q, Qc, Machinery, import_virocon, INT_MAX

LEVEL = "model_checking"

STEPS = [1, 2, 3, 4, 5, 6, 8, 9, 10, 12, 15, 18, 20, 24, 30, 36, 40, 45, 60]
FULL = 360_000_000
SHORT_REL = 1e-4          # edges shorter than this fraction of the polygon size are "short"
CLAMP = 2_000_000_000


# ----------------------------------------------------------------------------------
# seeded data per class


def alpha_of(acls, rng, cls, quick, round_quotient=False):
    """alpha = a / b exactly (both ints).  round_quotient: 100 / (a / b) is a whole number, so that
    int(100 / alpha) of the single-precision neighbour of a / b depends on the precision of the division."""
    if round_quotient:
        lo, hi, b = {"tiny": (5 if quick else 1, 10, 10000), "small": (10, 100, 10000),
                     "mid": (10, 100, 1000)}.get(acls, (100, 300, 1000))
        div = [a for a in range(lo, hi + 1) if (100 * b) % a == 0]
        return div[int(rng.integers(0, len(div)))], b
    if acls == "tiny":      # [1e-4, 1e-3]
        a, b = int(rng.integers(1, 11)), 10000
        if cls.endswith("default_n") and quick:
            a = int(rng.integers(5, 11))
    elif acls == "small":   # [1e-3, 1e-2]
        a, b = int(rng.integers(10, 101)), 10000
    elif acls == "mid":     # [1e-2, 1e-1]
        a, b = int(rng.integers(10, 101)), 1000
    else:                   # [0.1, 0.3]
        a, b = int(rng.integers(100, 301)), 1000
    return a, b


PLAIN = dict(atype="float", stype="int", cont="ndarray")


def alpha_object(case):
    """The alpha handed to the code.  np.float32(a / b) is ANOTHER real number than a / b (off by up
    to 6e-8 relative); where it falls outside the quantified range [1e-4, 0.3] the neighbouring
    single-precision number inside the range is taken."""
    v = case["a"] / case["b"]
    t = case.get("atype", "float")
    if t == "float64":
        return np.float64(v)
    if t == "float32":
        x = np.float32(v)
        if float(x) > 0.3:
            x = np.nextafter(x, np.float32(0))
        if float(x) < 1e-4:
            x = np.nextafter(x, np.float32(1))
        return x
    return v


def step_object(case):
    t = case.get("stype", "int")
    d = case["deg_step"]
    return np.float32(d) if t == "float32" else float(d) if t == "float" else int(d)


def contain(sample, cont):
    if cont == "dataframe":
        import pandas as pd
        return pd.DataFrame(sample, columns=["hs", "tz"])
    if cont == "list":
        return sample.tolist()
    return sample


def exact_refs(alpha, n):
    """floor / ceiling of alpha (n-1) and floor(100 / alpha) for the real number alpha (a double)"""
    fa = Fraction(float(alpha))
    x = fa * (n - 1)
    return dict(kmin=int(x.__floor__()), kmax=int(x.__ceil__()), nref=int((100 / fa).__floor__()))


class StubModel:
    """A 2-D 'model' that only offers what DirectSamplingContour uses: n_dim and
    draw_sample(n).  Records the requested n."""
    n_dim = 2

    def __init__(self, seed):
        self.seed = seed
        self.requested = []

    def draw_sample(self, n):
        self.requested.append(n)
        rng = np.random.default_rng(self.seed)
        z = rng.standard_normal((n, 2))
        rho = 0.6
        x = 3.0 + 1.5 * z[:, 0]
        y = 5.0 + 2.0 * (rho * z[:, 0] + math.sqrt(1 - rho * rho) * z[:, 1])
        return np.c_[x, y]


def real_model(vc, rng):
    from . import models
    fams = ["weibull", "lognormal", "normal", "expweibull", "gengamma"]
    f0 = fams[int(rng.integers(0, len(fams)))]
    f1 = fams[int(rng.integers(0, len(fams)))]
    cond = [None, 0 if rng.random() < 0.7 else None]
    return models.build_model(vc, rng, 2, cond, [f0, f1])


def cloud(cls, rng, n):
    if cls == "gauss":
        c = rng.uniform(-5, 5, size=2)
        A = rng.normal(size=(2, 2))
        return c + rng.standard_normal((n, 2)) @ A.T
    if cls == "ties":
        grid = float(rng.choice([0.25, 0.5, 1.0]))
        c = rng.uniform(-3, 6, size=2)
        A = rng.normal(size=(2, 2)) * 1.5
        p = c + rng.standard_normal((n, 2)) @ A.T
        return np.round(p / grid) * grid
    if cls == "heavy":
        k = int(rng.integers(0, 3))
        if k == 0:      # Student t, 2-3 degrees of freedom
            p = rng.standard_t(float(rng.uniform(2, 3)), size=(n, 2))
        elif k == 1:    # log-normal with large sigma (positive, skewed)
            p = np.exp(rng.normal(0, 1.2, size=(n, 2)))
        else:           # Pareto-like radius
            r = (1 - rng.random(n)) ** (-1 / 2.5)
            t = rng.uniform(0, 2 * np.pi, n)
            p = np.c_[r * np.cos(t), r * np.sin(t)]
        return p * rng.uniform(0.5, 3, size=2) + rng.uniform(-2, 2, size=2)
    if cls in ("int64", "int32"):       # whole-number data in an integer array: many ties
        c = rng.uniform(-20, 40, size=2)
        A = rng.normal(size=(2, 2)) * float(rng.uniform(2, 8))
        p = np.round(c + rng.standard_normal((n, 2)) @ A.T)
        return p.astype(np.int64 if cls == "int64" else np.int32)
    if cls == "float32":
        c = rng.uniform(-5, 5, size=2)
        A = rng.normal(size=(2, 2))
        return (c + rng.standard_normal((n, 2)) @ A.T).astype(np.float32)
    if cls == "pareto02":               # radius with tail index 0.2: largest values ~ n^5
        r = (1 - rng.random(n)) ** (-1 / 0.2)
        t = rng.uniform(0, 2 * np.pi, n)
        return np.c_[r * np.cos(t), r * np.sin(t)] * rng.uniform(0.5, 3, size=2) + rng.uniform(-2, 2, size=2)
    if cls == "t025":                   # Student t with 0.25 degrees of freedom
        return rng.standard_t(0.25, size=(n, 2)) * rng.uniform(0.5, 3, size=2) + rng.uniform(-2, 2, size=2)
    if cls == "outlier":                # Gaussian cloud plus one point at 1e15 .. 1e17
        c = rng.uniform(-5, 5, size=2)
        A = rng.normal(size=(2, 2))
        p = c + rng.standard_normal((n, 2)) @ A.T
        t = rng.uniform(0, 2 * np.pi)
        p[int(rng.integers(0, n))] = 10 ** rng.uniform(15, 17) * np.array([math.cos(t), math.sin(t)])
        return p
    if cls == "ring":   # non-convex: banana / annulus sector
        t = rng.uniform(0, float(rng.uniform(1.0, 2 * np.pi)), n)
        r = float(rng.uniform(2, 5)) + 0.3 * rng.standard_normal(n)
        return np.c_[r * np.cos(t), r * np.sin(t)] + rng.uniform(-3, 3, size=2)
    raise Machinery(f"unknown sample class {cls}")


def pick_n(rng, a, b, quick):
    nmax = min(20000 if not quick else 6000, (INT_MAX - 1) // max(a, 1))
    lo = 50
    return int(math.exp(rng.uniform(math.log(lo), math.log(nmax))))


# ----------------------------------------------------------------------------------
# run one case on the real code


def execute(vc, case, quick):
    """-> dict(coords, sample, exc, defaultn, givenn, samplekept)"""
    types = "".join(case.get(k, v) for k, v in PLAIN.items())
    tag = case["cls"] + case["acls"] + (types if types != "".join(PLAIN.values()) else "")
    rng = np.random.default_rng([case["seed"], case["deg_step"], zlib.crc32(tag.encode())])
    cls = case["cls"]
    a, b = case["a"], case["b"]
    alpha = alpha_object(case)
    deg_step = step_object(case)
    out = dict(exc="", defaultn=False, givenn=0, samplekept=True, alpha=float(alpha))
    np.random.seed(case["seed"] % (2**32))
    with warnings.catch_warnings():
        warnings.simplefilter("ignore")
        try:
            if cls == "model_default_n":
                model = real_model(vc, rng)
                if case.get("given_n"):
                    out["givenn"] = int(case["given_n"])
                    c = vc.DirectSamplingContour(model, alpha, n=out["givenn"], deg_step=deg_step)
                else:
                    out["defaultn"] = True
                    c = vc.DirectSamplingContour(model, alpha, deg_step=deg_step)
            elif cls == "stub_default_n":
                model = StubModel(case["seed"])
                out["defaultn"] = True
                c = vc.DirectSamplingContour(model, alpha, deg_step=deg_step)
                if model.requested != [len(c.sample)]:
                    out["samplekept"] = False
            else:
                n = pick_n(rng, a, b, quick)
                if cls == "model":
                    model = real_model(vc, rng)
                    sample = model.draw_sample(n, random_state=int(rng.integers(0, 2**31)))
                else:
                    model = StubModel(0)
                    sample = cloud(cls, rng, n)
                sample = contain(sample, case.get("cont", "ndarray"))
                keep = copy.deepcopy(sample)
                out["sample"] = np.asarray(keep, dtype=float)
                c = vc.DirectSamplingContour(model, alpha, deg_step=deg_step, sample=sample)
                out["samplekept"] = bool(c.sample is sample and type(sample) is type(keep)
                                         and np.array_equal(np.asarray(sample), np.asarray(keep)))
            out["coords"] = np.asarray(c.coordinates, dtype=float)
            if "sample" not in out:      # drawn inside; a supplied sample is judged as it was handed over
                out["sample"] = np.asarray(c.sample, dtype=float)
        except Exception as e:  # noqa
            out["exc"] = f"{type(e).__name__}: {e}"[:200]
    return out


# ----------------------------------------------------------------------------------
# measurement (independent of virocon's direction table)


def _eval_dir(P, norms, lev, phi_deg, pts, n, alpha):
    """Project the sample and the given points on the direction phi: offsets of the points,
    reference quantile (order statistics lo, lo+1 and linear interpolation at (n-1)(1-alpha)),
    counts relative to the first point's offset."""
    th = math.radians(phi_deg)
    nx, ny = math.cos(th), math.sin(th)
    z = P[:, 0] * nx + P[:, 1] * ny
    offs = [p[0] * nx + p[1] * ny for p in pts]
    h = (n - 1) * (1 - alpha)
    lo = int(math.floor(h))
    hi = min(lo + 1, n - 1)
    part = np.partition(z, [lo, hi])
    cref = float(part[lo] + (h - lo) * (part[hi] - part[lo]))
    clo = chi = cref
    if float(norms.max()) * 1e-15 > 1e-8 * max(abs(cref), 1e-300):
        # conditioning of the reference: cos / sin of a float angle are accurate to a few 1e-16, and a
        # sample point moves by (its tangential coordinate) * 1e-16 in the projection.  With points at
        # 1e15 and beyond the quantile itself is only defined up to that.  The quantile is monotone in
        # every projection, so the quantiles of z -+ d |t| bracket it for every direction within d.
        d = 2e-15
        tang = np.abs(-P[:, 0] * ny + P[:, 1] * nx)
        for sgn in (-1.0, 1.0):
            p2 = np.partition(z + sgn * d * tang, [lo, hi])
            c2 = float(p2[lo] + (h - lo) * (p2[hi] - p2[lo]))
            clo, chi = min(clo, c2), max(chi, c2)
    eps = 1e-12 * (lev + norms)
    above = int((z > offs[0] + eps).sum())
    atleast = int((z >= offs[0] - eps).sum())
    return offs, (cref, clo, chi), above, atleast


def _wrap(x, period):
    return (x + period / 2.0) % period - period / 2.0


def _snap_to_grid(phi, longs, weight, step):
    """The measured normals lie on a grid origin + k * step.  The origin is estimated from the
    largest cluster of the residuals (phi mod step), weighted by the squared relative edge length,
    and every measured normal within 1e-6 degree of a grid direction is replaced by it: the
    direction error drops from ~1e-10 rad (a single edge) to ~1e-15 rad, which matters when the
    point that fixes the quantile is a far tail point (lever arm |p| times direction error).
    Normals off the grid are left as measured (StepExact rejects them anyway)."""
    if not longs:
        return dict()
    rho = np.array([_wrap(phi[j] - phi[longs[0]], step) for j in longs])
    diff = np.abs(_wrap(rho[:, None] - rho[None, :], step)) < 1e-6
    c = rho[int(np.argmax(diff.sum(axis=1)))]
    sel = np.abs(_wrap(rho - c, step)) < 1e-6
    w = np.array([weight[j] for j in longs])[sel]
    origin = phi[longs[0]] + c + float(np.sum(w * _wrap(rho[sel] - c, step)) / np.sum(w))
    out = {}
    for j in longs:
        k = round((phi[j] - origin) / step)
        psi = origin + k * step
        out[j] = psi % 360.0 if abs(_wrap(phi[j] - psi, 360.0)) <= 1e-6 else phi[j]
    return out


def _collinear(P):
    """all sample points on one straight line (robust against single huge outliers)"""
    p0 = np.median(P, axis=0)
    d = P - p0
    r = np.hypot(d[:, 0], d[:, 1])
    ok = r > 0
    if ok.sum() < 2:
        return True
    ux, uy = d[ok, 0] / r[ok], d[ok, 1] / r[ok]
    return bool(np.all(np.abs(ux * uy[0] - uy * ux[0]) < 1e-9))


def measure(coords, sample, alpha, kmin, kmax, step):
    """Per long edge: outward normal (micro-degrees), offsets of both end points, reference
    quantile, counts, number of short edges up to the next long edge.  Per short edge: the
    same at the two directions it can stand for (counted from the long edge before / after).
    Every edge record carries its own power-of-ten scale (offsets of one polygon can differ by
    many orders of magnitude for very heavy tails).  alpha: the double-precision value of the alpha
    handed to the code; kmin / kmax: floor / ceiling of alpha (n-1) in exact arithmetic.
    Returns (contour_fields, edge_list)."""
    V = np.asarray(coords, dtype=float)
    P = np.asarray(sample, dtype=float)
    E = len(V)
    n = len(P)
    finite = bool(np.isfinite(V).all()) and V.ndim == 2 and V.shape[1] == 2
    norms = np.hypot(P[:, 0], P[:, 1])
    if not finite:
        bad = [int(j) for j in np.nonzero(~np.isfinite(V).all(axis=1))[0]] if V.ndim == 2 else []
        return dict(finite=False, badvertices=bad, E=E, n=n), []
    W = np.roll(V, -1, axis=0)
    D = W - V
    L = np.hypot(D[:, 0], D[:, 1])
    # lever arm of an edge: its vertices are accurate to ~1e-16 / sin(step) of their distance from the origin
    lev = np.maximum(np.maximum(np.hypot(V[:, 0], V[:, 1]), np.hypot(W[:, 0], W[:, 1])), 1e-300)
    short = L < SHORT_REL * lev
    collinear = _collinear(P)
    phi = np.full(E, np.nan)
    alt = {}                                   # long edges whose line is a tangent for BOTH normals
    for j in range(E):
        if short[j]:
            continue
        nx, ny = D[j, 1] / L[j], -D[j, 0] / L[j]
        z = P[:, 0] * nx + P[:, 1] * ny
        o = V[j, 0] * nx + V[j, 1] * ny
        eps = 1e-12 * lev[j] + 1e-10 * norms     # measured direction: ~6e-11 rad times the lever arm |p|
        ca = int((z > o + eps).sum())           # beyond the line on the side of (nx, ny)
        cb = int((z < o - eps).sum())           # beyond the line on the other side
        on = n - ca - cb
        if ca > cb:                             # outward = the side with the minority of the sample
            nx, ny = -nx, -ny
            ca, cb = cb, ca
        phi[j] = math.degrees(math.atan2(ny, nx)) % 360.0
        # with massive ties ON the line it can be the (1-alpha)-tangent for both of its normals
        if cb <= kmax and cb + on >= kmin and ca <= kmax and ca + on >= kmin:
            alt[j] = (phi[j] + 180.0) % 360.0
    longs = [int(j) for j in np.nonzero(~short)[0]]
    u = lambda p: int(round(p * 1e6)) % FULL
    K = len(longs)
    if alt and K > 1:
        # "outward" of an ambiguous line: the normal that continues the sequence of its neighbours
        for t in range(2 * K):
            j = longs[t % K]
            if j not in alt:
                continue
            jp, jn = longs[(t - 1) % K], longs[(t + 1) % K]
            gap_p, gap_n = (j - jp - 1) % E, (jn - j - 1) % E
            score = lambda c: (int(adv_ok(u(phi[jp]), u(c), gap_p, step))
                               + int(adv_ok(u(c), u(phi[jn]), gap_n, step)))
            if score(alt[j]) > score(phi[j]):
                phi[j], alt[j] = alt[j], phi[j]
    psi = _snap_to_grid(phi, longs, (L / lev) ** 2, step)     # directions used for the projections

    def rec_of(kind, j, evals, **extra):
        """evals: list of (offs, cref, above, atleast); one scale per record"""
        mx = max([abs(v) for offs, cr, _, _ in evals for v in list(offs) + list(cr)] + [1e-9 * lev[j], 1e-200])
        scale = 10.0 ** math.floor(9 - math.log10(mx))
        qq = lambda x: Qc(x, scale, -CLAMP, CLAMP)
        r = dict(kind=kind, j=j, lev=Qc(lev[j] * scale, 1.0, 0, CLAMP), **extra)
        for t, (offs, cr, above, atleast) in enumerate(evals):
            sfx = "" if t == 0 else "2"
            r.update({"offa" + sfx: qq(offs[0]), "offb" + sfx: qq(offs[1]), "cref" + sfx: qq(cr[0]),
                      "clo" + sfx: qq(cr[1]), "chi" + sfx: qq(cr[2]),
                      "above" + sfx: above, "atleast" + sfx: atleast})
        return r

    edges = []
    for t, j in enumerate(longs):
        jn = longs[(t + 1) % len(longs)]
        gap = (jn - j - 1) % E if len(longs) > 1 else E - 1
        ev = _eval_dir(P, norms, lev[j], psi[j], [V[j], W[j]], n, alpha)
        edges.append(rec_of("edge", j, [ev], jn=jn, gap=int(gap), phi=u(phi[j]), phin=u(phi[jn])))
        # the short edges between this long edge and the next one
        for i in range(1, gap + 1):
            js = (j + i) % E
            fw = (psi[j] - i * step) % 360.0
            bw = (psi[jn] + (gap - i + 1) * step) % 360.0
            edges.append(rec_of("short", js, [_eval_dir(P, norms, lev[js], fw, [V[js], W[js]], n, alpha),
                                              _eval_dir(P, norms, lev[js], bw, [V[js], W[js]], n, alpha)]))
    cf = dict(finite=True, E=E, n=n, degenerate=len(longs) == 0 or collinear, nlong=len(longs), longs=longs,
              ambiguous=len(alt), phis=[u(phi[j]) for j in longs],
              gaps=[e["gap"] for e in edges if e["kind"] == "edge"])
    return cf, edges


def adv_ok(p, q, gap, step):
    adv = (p - q) % FULL
    for m in (gap, gap + 1):
        if m >= 1 and abs(adv - m * step * 1_000_000) <= 1000:
            return True
    return False


# ----------------------------------------------------------------------------------
# records


class Batch:
    def __init__(self):
        self.records = []
        self.meta = {}       # record id -> (case index, kind, j, jn)
        self.next_id = 1

    def add(self, rec, ci, kind, j, jn=-1):
        rec["id"] = self.next_id
        self.meta[self.next_id] = (ci, kind, j, jn)
        self.next_id += 1
        self.records.append(rec)
        return rec


def make_records(batch, ci, case, ex):
    a, b, step = case["a"], case["b"], case["deg_step"]
    dyadic = case.get("atype", "float") == "float32"
    base = dict(kind="contour", step=step, a=a, b=b, exc=ex["exc"], finite=True, degenerate=False,
                phis=[0], gaps=[0], defaultn=ex["defaultn"], givenn=ex["givenn"], nsample=0,
                samplekept=ex["samplekept"], ncol=2, n=0, dyadic=dyadic, nref=0, kmin=0, kmax=0)
    if ex["exc"]:
        batch.add(base, ci, "contour", -1)
        return None
    coords, sample = ex["coords"], ex["sample"]
    ncol = int(coords.shape[1]) if coords.ndim == 2 else 0
    n = len(sample)
    if a * (n - 1) > INT_MAX:
        raise Machinery("alpha numerator times sample size does not fit 32 bit")
    if dyadic:
        refs = exact_refs(ex["alpha"], n)
    else:       # alpha = a / b (the double nearest to it): the same numbers TLC derives from a, b, n
        refs = dict(kmin=(a * (n - 1)) // b, kmax=-((-a * (n - 1)) // b), nref=(100 * b) // a)
    base.update(nsample=n, n=n, ncol=ncol, **(refs if dyadic else {}))
    if ncol != 2:
        batch.add(base, ci, "contour", -1)
        return None
    cf, edges = measure(coords, sample, ex["alpha"], refs["kmin"], refs["kmax"], step)
    if not cf["finite"]:
        base.update(finite=False)
        batch.add(base, ci, "contour", -1)
        return cf
    base.update(degenerate=cf["degenerate"], nv=cf["E"])
    if not cf["degenerate"]:
        base.update(phis=cf["phis"], gaps=cf["gaps"])
    batch.add(base, ci, "contour", -1)
    for e in ([] if cf["degenerate"] else edges):
        rec = dict(step=step, a=a, b=b, n=n, dyadic=dyadic, kmin=base["kmin"], kmax=base["kmax"])
        rec.update({k: v for k, v in e.items() if k not in ("j", "jn")})
        batch.add(rec, ci, e["kind"], e["j"], e.get("jn", -1))
    return cf


def case_label(case):
    s = f"deg_step={case['deg_step']} cls={case['cls']} alpha={case['a']}/{case['b']} seed={case['seed']}"
    if case.get("given_n"):
        s += f" n={case['given_n']}"
    if any(case.get(k, v) != v for k, v in PLAIN.items()):
        s += (f" alpha_type={case.get('atype', 'float')} deg_step_type={case.get('stype', 'int')}"
              f" sample_as={case.get('cont', 'ndarray')}")
    return s


def violation_key(case, cf, kind, j, jn, clause):
    """The key names deg_step and the place.  Everything caused by the LAST returned vertex
    (the edge into it, the closing edge out of it, an advance measured from or to one of these
    two edges) gets the stable key 'deg_step=<d> vertex=last'; anything else carries the edge
    and the case."""
    d = case["deg_step"]
    E = cf["E"] if cf else 0
    last = {E - 2, E - 1}
    if kind in ("edge", "short"):
        if j in last or (clause == "StepExact" and jn in last):
            return f"deg_step={d} vertex=last"
        return f"deg_step={d} edge={j} of {E} {case_label(case)}"
    if clause == "FiniteVertices" and cf and cf.get("badvertices") == [E - 1]:
        return f"deg_step={d} vertex=last"
    if clause == "FullCircleOnce" and cf and cf.get("finite"):
        lg, ph, gp = cf["longs"], cf["phis"], cf["gaps"]
        K = len(lg)
        bad = [t for t in range(K) if not adv_ok(ph[t], ph[(t + 1) % K], gp[t], d)]
        if bad and all(lg[t] in last or lg[(t + 1) % K] in last for t in bad):
            return f"deg_step={d} vertex=last"
        return f"deg_step={d} advances_from_edges={[lg[t] for t in bad][:6]} of {E} {case_label(case)}"
    return f"deg_step={d} {case_label(case)}"


SELFTEST_BASE = 1_000_000_000


def selftest_records():
    """Synthetic records: the three good ones must be accepted, every corrupted copy must be
    rejected by the clause it violates (independent of the tree under test)."""
    common = dict(step=10, a=1, b=10, n=101, lev=1_000_000, dyadic=False, kmin=0, kmax=0)
    edge = dict(common, kind="edge", gap=0, phi=90_000_000, phin=80_000_000,
                offa=500_000, offb=500_001, cref=499_999, clo=499_999, chi=499_999, above=10, atleast=11)
    shortr = dict(common, kind="short", offa=500_000, offb=500_000, cref=500_000, clo=500_000, chi=500_000,
                  above=10, atleast=11,
                  offa2=700_000, offb2=700_000, cref2=500_000, clo2=500_000, chi2=500_000, above2=0, atleast2=0)
    cont = dict(kind="contour", step=10, a=1, b=10, exc="", finite=True, degenerate=False,
                phis=[((90 - 10 * k) % 360) * 1_000_000 for k in range(36)], gaps=[0] * 36,
                defaultn=True, givenn=0, nsample=1000, samplekept=True, ncol=2, n=1000,
                dyadic=False, nref=0, kmin=0, kmax=0)
    out = []
    k = 0

    def put(src, expect, **chg):
        nonlocal k
        k += 1
        r = dict(src)
        r.update(chg)
        r["id"] = SELFTEST_BASE + k
        out.append((r, expect))

    put(edge, None)
    put(shortr, None)
    put(cont, None)
    put(cont, None, phis=cont["phis"][:35], gaps=[0] * 34 + [1])          # one short edge
    put(cont, None, gaps=[0] * 34 + [1, 0])                               # duplicated closing tangent ...
    put(cont, "FullCircleOnce", phis=cont["phis"] + [100_000_000], gaps=[0] * 37)   # ... needs a short edge
    put(edge, "StepExact", phin=70_000_000)
    put(edge, "StepExact", phin=80_002_000)
    put(edge, "StepExact", gap=2, phin=80_000_000)
    put(edge, None, gap=1, phin=80_000_000)
    put(edge, None, gap=1, phin=70_000_000)
    put(edge, "EdgeOnTangent", offb=500_010)
    put(edge, "EdgeOnTangent", cref=400_000, clo=400_000, chi=400_000)
    put(edge, None, clo=400_000, chi=600_000, offb=590_000)
    put(edge, "EdgeOnTangent", clo=400_000, chi=600_000, offb=600_010)
    put(edge, "FractionBeyond", above=11)
    put(edge, "FractionBeyond", atleast=9)
    # alpha handed over as np.float32: the exact bounds come with the record (here alpha slightly above 0.1)
    put(edge, None, dyadic=True, kmin=10, kmax=11, above=11)
    put(edge, "FractionBeyond", dyadic=True, kmin=10, kmax=11, above=12)
    put(edge, "FractionBeyond", dyadic=True, kmin=11, kmax=12, atleast=10)
    # offset tolerance: 1e-8 below the clamp of lev, 1e-6 at the clamp
    big = dict(offa=500_000_000, cref=500_000_000, clo=500_000_000, chi=500_000_000)
    put(edge, None, lev=1_900_000_000, offb=500_000_020, **big)
    put(edge, "EdgeOnTangent", lev=1_900_000_000, offb=500_000_030, **big)
    put(edge, None, lev=2_000_000_000, offb=500_002_400, **big)
    put(edge, "EdgeOnTangent", lev=2_000_000_000, offb=500_002_600, **big)
    put(shortr, "EdgeOnTangent", offb=500_010)
    put(shortr, "FractionBeyond", above=11)
    put(shortr, None, above=11, above2=10, atleast2=10)
    ph2 = list(cont["phis"])
    ph2[1] = 75_000_000
    put(cont, "FullCircleOnce", phis=ph2)
    put(cont, "FullCircleOnce", phis=cont["phis"] * 2, gaps=[0] * 72)     # twice round
    put(cont, "FullCircleOnce", phis=cont["phis"][::-1])                  # counter-clockwise
    put(cont, "DefaultN", nsample=1001)
    put(cont, None, dyadic=True, nref=999, nsample=999)        # np.float32(0.1) > 0.1: int(100 / alpha) = 999
    put(cont, "DefaultN", dyadic=True, nref=999, nsample=1000)
    put(cont, "GivenN", defaultn=False, givenn=999)
    put(cont, "SampleKept", samplekept=False)
    put(cont, "TwoColumns", ncol=3)
    put(cont, "FiniteVertices", finite=False)
    put(cont, "UnexpectedException", exc="ValueError: x")
    return out


def judge(ctx, vc, cases, label, selftest=False):
    batch = Batch()
    cfs = []
    extras = {}
    first = set()
    for ci, case in enumerate(cases):
        ex = execute(vc, case, ctx.quick)
        cf = make_records(batch, ci, case, ex)
        cfs.append(cf)
        if cf and not ex["exc"]:
            extras.setdefault(case["deg_step"], set()).add(cf["E"] + 1 - 360 // case["deg_step"])
            if cf.get("finite") and cf.get("longs") and cf["longs"][0] == 0:
                first.add(round(cf["phis"][0] / 1e6, 3))
    records = list(batch.records)
    st = selftest_records() if selftest else []
    records += [r for r, _ in st]
    failing = ctx.validate("Trace_C03", "Trace_C03.cfg", records, chunk=60000, xss="256m")
    for r, expect in st:
        got = failing.pop(r["id"], [])
        if (expect is None and got) or (expect is not None and got != [expect]):
            raise Machinery(f"selftest: synthetic record {r} expected rejection by {expect}, got {got}")
    rejected_cases = set()
    per = {}
    for rid, clauses in sorted(failing.items()):
        ci, kind, j, jn = batch.meta[rid]
        rejected_cases.add(ci)
        rec = batch.records[rid - 1]
        for clause in clauses:
            key = violation_key(cases[ci], cfs[ci], kind, j, jn, clause)
            if "vertex=last" not in key:
                # a broken contour breaks most of its edges: 3 edges per clause identify it
                per[(ci, clause)] = per.get((ci, clause), 0) + 1
                if per[(ci, clause)] > 3:
                    continue
            detail = {k: rec[k] for k in rec if k not in ("phis", "gaps")}
            ctx.violation(clause, key,
                          f"{case_label(cases[ci])} record={detail}", replay=cases[ci])
    for ci, case in enumerate(cases):
        cf = cfs[ci]
        nontrivial = bool(cf and cf.get("finite") and not cf.get("degenerate")
                          and cf.get("nlong", 0) >= (360 // case["deg_step"]) // 2)
        ctx.case(case_label(case), nontrivial)
    ctx.log(f"{label}: {len(cases)} contours, {len(batch.records)} records judged, "
            f"{len(rejected_cases)} contours with a rejected record")
    ctx.notes.setdefault("normal_of_first_edge_deg", [])
    ctx.notes["normal_of_first_edge_deg"] = sorted(set(ctx.notes["normal_of_first_edge_deg"]) | first)[:12]
    return batch, cfs, extras


def expand(ctx, gen):
    """TLC's configuration cases -> concrete seeded cases."""
    reps = ctx.pick(1, 6)
    cases = []
    for rep in range(reps):
        for gi, g in enumerate(gen):
            seed = ctx.seed * 1000 + rep
            types = {k: g.get(k, v) for k, v in PLAIN.items()}
            typed = types != PLAIN
            if g["deg_step"] == 0:      # typed configuration: the driver rotates through all steps
                g = dict(g, deg_step=STEPS[(gi * 7 + rep * 5 + ctx.seed) % len(STEPS)])
            tag = g["cls"] + g["alpha"] + ("".join(types.values()) if typed else "")
            rng = np.random.default_rng([seed, g["deg_step"], zlib.crc32(tag.encode())])
            rq = g["cls"].endswith("default_n") and types["atype"] == "float32"
            a, b = alpha_of(g["alpha"], rng, g["cls"], ctx.quick, round_quotient=rq)
            if rq:
                pass
            elif rep == 0 and g["alpha"] == "tiny":
                a = 1 if not ctx.quick or not g["cls"].endswith("default_n") else a   # alpha = 1e-4 exactly
            elif rep == 1 and g["alpha"] == "large":
                a, b = 3, 10                                                          # alpha = 0.3 exactly
            case = dict(deg_step=int(g["deg_step"]), cls=g["cls"], acls=g["alpha"], a=a, b=b, seed=seed)
            if typed:
                case.update(types)
            if g["cls"] == "model_default_n" and g["alpha"] in ("mid", "large") and rep % 2 == 1:
                case["given_n"] = int(rng.integers(50, 4000))
            if g["cls"].endswith("default_n") and types["atype"] != "float32":
                if int(100 / (a / b)) != (100 * b) // a:
                    continue     # float int(100/alpha) differs from the exact quotient: not decided here
            cases.append(case)
    return cases


def run(ctx):
    vc = import_virocon()
    ctx.rule = ("TLC enumerates deg_step (all 19 divisors of 360 in [1,60]) x sample class (random 2-D "
                "model draw, default-n draw from a random model / a stub model, Gaussian cloud, lattice-"
                "rounded cloud with ties, heavy-tailed cloud, non-convex ring, int64 / int32 / float32 arrays, Pareto(0.2), "
                "Student t(0.25), Gaussian cloud with one point at 1e15..1e17) x alpha class "
                "([1e-4,1e-3],[1e-3,1e-2],[1e-2,0.1],[0.1,0.3]) with plain Python arguments, and - for model draw, "
                "Gaussian, tied, heavy-tailed supplied samples and both default-n classes, deg_step rotating - every "
                "non-plain combination of the type of alpha (float, np.float64, np.float32) x type of deg_step (int, "
                "float, np.float32) x container of the supplied sample (ndarray, pandas DataFrame, list of rows); "
                "the driver draws seeded data (quick 1, "
                "thorough 6 repetitions). distinct = distinct (deg_step, class, alpha, types, seed); non-trivial = "
                "finite polygon with at least N/2 edges long enough to measure their direction")
    ctx.trusted = ["TLC 1.8 evaluating spec/Trace_C03.tla / spec/DirectSampling.tla",
                   "harness/c03.py measure(): edge normals by atan2 of the end-point difference, outward = "
                   "minority side of the sample, projections, order statistics via numpy.partition and "
                   "hand-written linear interpolation at index (n-1)(1-alpha) in double precision with "
                   "alpha = float(the alpha handed over), counts",
                   "fractions.Fraction for floor / ceiling of alpha (n-1) and floor(100 / alpha) of a single-precision alpha",
                   "fixed-point projection Q/Qc with a per-contour power-of-ten scale"]
    ctx.assumptions = ["edges shorter than 1e-4 of the polygon size have no measurable direction; they are "
                       "assigned the predecessor's normal minus one step and judged at that direction",
                       "default-n cases with a double-precision alpha use only alpha = a/b with int(100/alpha) == "
                       "floor(100 b / a); a single-precision alpha is the real number float(alpha), n = floor(100 / alpha)",
                       "samples whose polygon has no measurable edge at all (degenerate) are not judged"]
    # M
    cfg = ctx.pick("MC_DirectSampling_quick.cfg", "MC_DirectSampling_thorough.cfg")
    ctx.model_check("DirectSampling", cfg, must_cover=("GenAngles", "Close", "Intersect"))
    ctx.model_check("DirectSampling", "MC_DirectSampling_extra2.cfg")   # the other correct table (N+2 angles, closed with angles[0])
    ctx.model_check("DirectSampling", "MC_DirectSampling_extra1.cfg", expect_violation="NoSelfMeet")
    ctx.model_check("DirectSampling", "MC_DirectSampling_extra1b.cfg", expect_violation="FullCircleOnce")
    ctx.model_check("DirectSampling", "MC_DirectSampling_shift.cfg", expect_violation="AllAdjacent")
    # R
    gen = ctx.generate("DirectSamplingGen", "Gen_DirectSampling.cfg")
    gen.sort(key=lambda g: (g["deg_step"], g["cls"], g["alpha"], g["atype"], g["stype"], g["cont"]))
    cases = expand(ctx, gen)
    # V
    batch, cfs, extras = judge(ctx, vc, cases, "generated cases", selftest=True)
    ctx.notes["generated_configurations"] = len(gen)
    ctx.notes["contours"] = len(cases)
    ctx.notes["vertices_minus_N_plus_1_per_deg_step"] = {str(k): sorted(v) for k, v in sorted(extras.items())}
    ctx.notes["deg_steps_with_self_intersected_closing_vertex"] = sorted(k for k, v in extras.items() if 1 in v)
    ctx.exhaustive = True
    mid = len(cases) // 2
    ctx.sample({"generated": gen[len(gen) // 2], "case": cases[mid],
                "edge_record": next((r for r in batch.records if r["kind"] == "edge"), None)})


def replay(ctx, case):
    vc = import_virocon()
    judge(ctx, vc, [case["case"]], "replay")
