SPECIFICATION Spec
CONSTANTS G = 4  MaxV = 4  XLeft = 0  YDown = 0  UseMin = FALSE  MaxHits = 99  Algo = "edges"  BothOrders = FALSE
CHECK_DEADLOCK FALSE
INVARIANT NoError
INVARIANT DesignHolds
INVARIANT OnContour
INVARIANT SwapIsExchange
INVARIANT InsideKept
