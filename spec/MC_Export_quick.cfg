SPECIFICATION Spec
CONSTANTS Decimals = 6  NoClose = FALSE  AlwaysTxt = FALSE
CHECK_DEADLOCK FALSE
INVARIANT PathRule
INVARIANT Shape
INVARIANT ParsedIsRound6
INVARIANT TextIsFmt6
INVARIANT ClosedPolyline
