#!/usr/bin/env python3
"""tools/make_hunt_round.py TAG A:B [A:B ...] - prepare scratch worktrees /tmp/hunt<TAG>-A of /repo HEAD and
/tmp/hunt<TAG>-A-scratch/INSTRUCTIONS.txt for independent bug hunters (property text only, nothing from /verif)."""
import json, os, subprocess, sys
tag = sys.argv[1]
pairs = [tuple(x.split(':')) for x in sys.argv[2:]]
props = {json.loads(l)['id']: json.loads(l) for l in open('/verif/properties.jsonl') if l.strip()}
for a, b in pairs:
    wt = f'/tmp/hunt{tag}-{a}'
    subprocess.run(['git', '-C', '/repo', 'worktree', 'add', '-q', '--detach', wt, 'HEAD'], check=False)
    txt = f"""You are given a git worktree of the Python library virocon (fits hierarchical joint distributions to metocean data and computes environmental contours) at {wt} (detached at the current HEAD). Run Python as /venv/bin/python with PYTHONPATH={wt} (verify with `cd /tmp && PYTHONPATH={wt} /venv/bin/python -W ignore -c "import virocon; print(virocon.__file__)"`). Do NOT modify the library. Do not read, list or touch /verif or /repo; work only in {wt} (read-only) and your own scratch directory {wt}-scratch.

You are a bug hunter. Below are two semantic properties that users of the library rely on. The current code is BELIEVED to satisfy them: an earlier round of bug hunting already found and repaired about sixty defects (see `git -C {wt} log --oneline | grep fix:` - read those commit messages first, they show what kinds of defects existed and what is already repaired; do not report those again). Your task: find concrete, reproducible inputs / configurations / operation sequences INSIDE the stated quantifier for which the CURRENT code still violates a property - genuine defects, not matters of taste. Read the relevant source carefully (virocon/*.py), think about boundary values, special values (0, negative, ties, integer-typed / float32 / list / pandas input, 1-element input, F-ordered or non-contiguous arrays), rarely used options and option combinations, higher dimensions than the tests use, sequences of operations on one object (construct, evaluate, fit, re-fit, evaluate again; inner objects modified directly; objects shared or reused), numerical precision in extreme but in-scope regions, float round-off at edges, and the interplay of the recent repairs with each other; then TEST your hypotheses by running small programs. Be rigorous: a finding counts only if you have a small self-contained script that demonstrates the violation against the unmodified library and you have checked that it is inside the property's stated scope and that your expectation (oracle) is computed independently and correctly (e.g. statistical claims need distribution-free bounds at error probability <= 1e-12, not eyeballing).

PROPERTY {a}: {props[a]['title']}
STATEMENT: {props[a]['statement']}
QUANTIFIED OVER: {props[a]['quantifier']['text']}

PROPERTY {b}: {props[b]['title']}
STATEMENT: {props[b]['statement']}
QUANTIFIED OVER: {props[b]['quantifier']['text']}

Known and already recorded (do NOT report these again): von Mises cdf/icdf inaccuracy for kappa >= 50 and in the far tails (inherited from scipy); marginal_pdf / marginal_cdf / cdf lose probability mass that is narrow relative to its distance from 0 (nquad over (0, inf) or (0, x)); PointsPerIntervalSlicer with tied conditioning values is order-dependent for the tied rows; 3-parameter Weibull MLE from the default start values misses the optimum when the location is far from 0 or the shape is <= 1.2; MLE of the exponentiated Weibull / generalized gamma / 3-parameter Weibull from a far user-supplied start ends far from the maximum, and the generalized gamma MLE is not scale-equivariant where scipy stops at its iteration cap; conditional_sample / conditional_cdf / conditional_icdf of MultivariateModel still truncate about 2e-4 of the conditional tail at the most extreme conditioning values (absolute density threshold); exact density ties at the highest-density threshold (i.i.d. variables on identical grids) are split by index; an unknown weights keyword together with method 'mle' is ignored (documented); OrContour raises IndexError when every ray result lies beyond 1.1 * max(sample); HighestDensityContour raises IndexError when the densest cell alone exceeds 1 - alpha; with default cell sizes a 1-element or scalar limits entry ends as IndexError/TypeError instead of ValueError; PointsPerIntervalSlicer raises ZeroDivisionError when there are fewer data points than n_points; dependence function bounds with lower == upper raise ValueError inside scipy.

Deliver in {wt}-scratch/findings/<k>/ for each finding k: repro.py (self-contained, exits non-zero when the violation is present, run as `cd /tmp && PYTHONPATH={wt} /venv/bin/python -W ignore repro.py`), and note.md (which property and clause is violated, the exact input, observed vs expected, why it is in scope, and - if you see one - a minimal fix). Spend your effort on depth, not on quantity: 0 findings is an acceptable outcome if you looked hard; say what you examined. Final answer: a concise list of findings (or none) with one paragraph each, plus the list of things you examined and found correct."""
    os.makedirs(f'{wt}-scratch/findings', exist_ok=True)
    open(f'{wt}-scratch/INSTRUCTIONS.txt', 'w').write(txt)
    print(wt)
