"""C14: a constrained dependence-function fit of small-magnitude data returns
(almost) the start value of a parameter, far from a local optimum, without error.

Shape  a + b * exp(c * x)  (the exp3 shape of the predefined DNVGL model),
15 support points, bounds [(0, None), (0, None), (0.5, 1.5)], one inequality
constraint (a + 1 >= 0) that is inactive everywhere inside the bounds.
"""
import sys
import numpy as np
from virocon import DependenceFunction


def exp3(x, a, b, c):
    return a + b * np.exp(c * x)


x = np.arange(1.0, 16.0)
y = 0.002 - 0.00003 * x  # e.g. steepness-like values of magnitude 1e-3
bounds = [(0, None), (0, None), (0.5, 1.5)]


def sse(p):
    return float(np.sum((exp3(x, *p) - y) ** 2))


failed = False
for label, constraints in (
    ("dict", {"type": "ineq", "fun": lambda p: p[0] + 1.0}),
    ("list", [{"type": "ineq", "fun": lambda p: p[0] + 1.0}]),
):
    dep = DependenceFunction(exp3, bounds=bounds, constraints=constraints)
    dep.fit(x, y)  # no error, no warning
    p = np.array(list(dep.parameters.values()), dtype=float)
    err = sse(p)

    # admissible? (inside the bounds, constraint satisfied with large slack)
    inside = p[0] >= 0 and p[1] >= 0 and 0.5 <= p[2] <= 1.5 and p[0] + 1.0 >= 0

    # nearby admissible perturbation: lower a by 1 % (still >= 0, constraint slack ~2)
    q = p.copy()
    q[0] = 0.99 * p[0]
    q_admissible = q[0] >= 0 and q[0] + 1.0 >= 0
    err_q = sse(q)

    # an admissible reference point (constant fit: b = 0), no optimiser involved
    ref = np.array([np.mean(y), 0.0, 1.0])
    err_ref = sse(ref)

    print(f"[{label}] fitted parameters {p}, squared residual {err:.6g}")
    print(f"[{label}] a lowered by 1 %: squared residual {err_q:.6g} (admissible: {q_admissible})")
    print(f"[{label}] admissible reference {ref}: squared residual {err_ref:.6g}")
    if inside and q_admissible and err_q < err * (1 - 1e-3):
        print(f"[{label}] VIOLATION: a nearby admissible perturbation lowers the "
              f"squared residual by {100 * (1 - err_q / err):.2f} %; "
              f"the result is {err / err_ref:.3g} times worse than the reference")
        failed = True

# For comparison: the same fit without the (inactive) constraint uses curve_fit
dep = DependenceFunction(exp3, bounds=bounds)
dep.fit(x, y)
print("without constraint:", dep.parameters, sse(list(dep.parameters.values())))

sys.exit(1 if failed else 0)
