"""C09: a first fit returns the START parameters of a dependence function as the
'fitted' ones (squared error 1e282) when the conditioning variable is given in a
small unit (Hs in centimetres), without error or warning."""
import os, sys
import numpy as np
import virocon
from virocon import GlobalHierarchicalModel, get_DNVGL_Hs_Tz, read_ec_benchmark_dataset

path = os.path.join(os.path.dirname(os.path.dirname(virocon.__file__)),
                    "datasets", "ec-benchmark_dataset_A_1year.txt")
data_m = read_ec_benchmark_dataset(path).values          # Hs in m, Tz in s
data_cm = data_m * np.array([100.0, 1.0])                 # Hs in cm


def fitted(data, width):
    dd, fd, _ = get_DNVGL_Hs_Tz()
    dd[0]["intervals"].width = width                       # 0.5 m = 50 cm
    m = GlobalHierarchicalModel(dd)
    m.fit(data, fd)
    cond = m.distributions[1]
    f = cond.conditional_parameters["sigma"]
    y = np.array([p["sigma"] for p in cond.parameters_per_interval])
    x = np.asarray(cond.conditioning_values)
    return m, f, x, y


m_m, f_m, x_m, y_m = fitted(data_m, 0.5)
m_cm, f_cm, x_cm, y_cm = fitted(data_cm, 50.0)

# same intervals, same per-interval estimates (sigma of Tz does not depend on the unit of Hs)
assert np.allclose(x_cm, 100 * x_m) and np.allclose(y_cm, y_m, rtol=1e-6)

sse_m = np.sum((f_m(x_m) - y_m) ** 2)
with np.errstate(all="ignore"):
    sse_cm = np.sum((f_cm(x_cm) - y_cm) ** 2)
print("sigma(hs) fitted, Hs in m :", {k: float(v) for k, v in f_m.parameters.items()}, "SSE", sse_m)
print("sigma(hs) fitted, Hs in cm:", {k: float(v) for k, v in f_cm.parameters.items()}, "SSE", sse_cm)
# independent oracle: the optimum in cm is the optimum in m with c / 100
a, b, c = f_m.parameters.values()
print("SSE of (a, b, c/100) on the cm pairs:", np.sum((f_cm(x_cm, a, b, c / 100) - y_cm) ** 2))
with np.errstate(all="ignore"):
    print("pdf at Hs = 3 m, Tz = 7 s:", m_m.pdf([[3.0, 7.0]]), " (cm model, per m):", 100 * m_cm.pdf([[300.0, 7.0]]))

if tuple(float(v) for v in f_cm.parameters.values()) == (1.0, 1.0, 1.0) or sse_cm > 100 * sse_m:
    print("VIOLATION: the dependence function was not fitted to the pairs "
          "(start parameters returned, no error)")
    sys.exit(1)
print("ok")
