"""Shared by C05 / C08 / C11: the distribution families of spec/ParamRoutingOps.tla bound to
virocon's real classes, pairwise distinct admissible numbers for the opaque tokens of the
specification (stored / explicit / fixed values), call helpers and result comparison.

Nothing in here computes a reference value; it only builds objects and calls them.
"""
from __future__ import annotations

import numpy as np

from .common import Machinery

# name in the specification -> (virocon class name or scipy name, parameter names in signature order)
FAMILIES = {
    "Weibull": ("WeibullDistribution", ["alpha", "beta", "gamma"]),
    "LogNormal": ("LogNormalDistribution", ["mu", "sigma"]),
    "Normal": ("NormalDistribution", ["mu", "sigma"]),
    "ExpWeibull": ("ExponentiatedWeibullDistribution", ["alpha", "beta", "delta"]),
    "GenGamma": ("GeneralizedGammaDistribution", ["m", "c", "lambda_"]),
    "VonMises": ("VonMisesDistribution", ["kappa", "mu"]),
    "NormFit": ("LogNormalNormFitDistribution", ["mu_norm", "sigma_norm"]),
    "ScipyGamma": ("scipy:gamma", ["a", "loc", "scale"]),
    "ScipyRayleigh": ("scipy:rayleigh", ["loc", "scale"]),
    "ScipyBeta": ("scipy:beta", ["a", "b", "loc", "scale"]),
    # only in C11 (spec/ParamRoutingOps.tla VmSubCases): scipy's vonmises wrapped as ScipyDistribution
    "ScipyVonMises": ("scipy:vonmises", ["kappa", "loc", "scale"]),
}
NAMES = {f: v[1] for f, v in FAMILIES.items()}

# the "stored" token of every name: admissible, pairwise distinct within a family
STORED = {
    "Weibull": dict(alpha=1.3, beta=1.7, gamma=0.4),
    "LogNormal": dict(mu=0.6, sigma=0.45),
    "Normal": dict(mu=0.8, sigma=1.4),
    "ExpWeibull": dict(alpha=1.9, beta=1.25, delta=2.3),
    "GenGamma": dict(m=1.6, c=1.15, lambda_=0.55),
    "VonMises": dict(kappa=2.2, mu=0.35),
    "NormFit": dict(mu_norm=2.4, sigma_norm=0.9),
    "ScipyGamma": dict(a=2.7, loc=0.3, scale=1.45),
    "ScipyRayleigh": dict(loc=0.25, scale=1.85),
    "ScipyBeta": dict(a=2.1, b=3.4, loc=0.15, scale=4.2),
    "ScipyVonMises": dict(kappa=2.4, loc=0.45, scale=1.0),
}


def explicit_values(fam):
    """the "explicit" token of every name: distinct from every stored value of the family"""
    return {n: round(v * 1.37 + 0.11, 6) for n, v in STORED[fam].items()}


def fixed_values(fam):
    """the "fixed" token of every name (C08 / C11): distinct from stored and explicit"""
    return {n: round(v * 1.12 + 0.03, 6) for n, v in STORED[fam].items()}


def check_distinct():
    for fam in FAMILIES:
        vals = list(STORED[fam].values()) + list(explicit_values(fam).values()) + list(fixed_values(fam).values())
        if len(set(vals)) != len(vals):
            raise Machinery(f"token values of {fam} are not pairwise distinct: {vals}")


_CLASS_CACHE = {}


def classes(vc):
    """family -> real class (ScipyDistribution subclasses are declared here, as a user would)"""
    key = id(vc)
    if key in _CLASS_CACHE:
        return _CLASS_CACHE[key]
    import virocon.distributions as vd

    out = {}
    for fam, (cname, _) in FAMILIES.items():
        if cname.startswith("scipy:"):
            out[fam] = type(f"Scipy{cname[6:].title()}Distribution", (vd.ScipyDistribution,),
                            {"scipy_dist_name": cname[6:]})
        else:
            out[fam] = getattr(vd, cname)
    _CLASS_CACHE[key] = out
    return out


def build(vc, fam, values=None, fixed=None, order="plain_first"):
    """Fam(**values, f_<n>=fixed[n]) with the keywords in the requested order:
    plain_first  Fam(a=.., b=.., f_a=..)      f_first  Fam(f_a=.., a=.., b=..)
    positional   Fam(a_value, b_value, f_a=..)  (plain values positionally, in signature order)"""
    values = dict(values or {})
    fkw = {f"f_{n}": v for n, v in (fixed or {}).items()}
    if order == "f_first":
        return classes(vc)[fam](**fkw, **values)
    if order == "positional":
        names = NAMES[fam]
        k = 0
        while k < len(names) and names[k] in values:
            k += 1
        rest = {n: v for n, v in values.items() if n not in names[:k]}
        return classes(vc)[fam](*[values[n] for n in names[:k]], **rest, **fkw)
    return classes(vc)[fam](**values, **fkw)


def call(dist, fam, method, arg, overrides=None, pass_kind="kw", random_state=None):
    """dist.method(arg, <overrides>) with the overrides as keywords or positionally
    (None for names that are not overridden)."""
    overrides = overrides or {}
    fn = getattr(dist, method)
    extra = {}
    if method == "draw_sample":
        extra["random_state"] = random_state
    if pass_kind == "kw":
        return fn(arg, **overrides, **extra)
    pos = [overrides.get(n) for n in NAMES[fam]]
    while pos and pos[-1] is None:
        pos.pop()
    return fn(arg, *pos, **extra)


def compare(a, b):
    """(bitwise same incl. NaN positions, same shape, max relative difference)"""
    try:
        aa = np.asarray(a, dtype=float)
        bb = np.asarray(b, dtype=float)
    except Exception:
        return False, False, float("inf")
    if aa.shape != bb.shape:
        return False, False, float("inf")
    same = bool(np.array_equal(aa, bb, equal_nan=True))
    if same:
        return True, True, 0.0
    with np.errstate(all="ignore"):
        both_nan = np.isnan(aa) & np.isnan(bb)
        eq = (aa == bb) | both_nan
        den = np.maximum(np.abs(aa), np.abs(bb))
        rel = np.where(eq, 0.0, np.abs(aa - bb) / np.where(den > 0, den, 1.0))
        rel = np.where(np.isfinite(rel), rel, np.inf)
    return False, True, float(np.max(rel)) if rel.size else 0.0


# evaluation points used by the routing checks (inside every family's support for every
# combination of stored / explicit / fixed values; 0.0 and a negative value are included
# because the exponentiated Weibull pdf has a special path for x <= 0)
X_BODY = [0.9, 1.6, 2.3, 3.1]
X_WITH_EDGE = [0.9, 1.6, 2.3, 3.1, 0.0, -0.7]
P_BODY = [0.05, 0.3, 0.62, 0.97]


def arg_of(method, kind, with_edge=True):
    """the x / prob / n argument of a method in the requested array_like kind"""
    if method == "draw_sample":
        return 6 if kind != "ndarray" else np.int64(6)
    vals = P_BODY if method == "icdf" else (X_WITH_EDGE if with_edge else X_BODY)
    if kind == "scalar":
        return vals[1]
    if kind == "list":
        return list(vals)
    return np.array(vals)


def random_state_of(kind, seed):
    """draw_sample: random_state as int (scalar), numpy Generator (list), int with numpy n (ndarray)"""
    if kind == "list":
        return np.random.default_rng(seed)
    return int(seed)


# ---------------------------------------------------------------------------------------
# parameter classes of the formula half (spec/DistLawsOps.tla): slot kinds per family and
# the parameter each slot sets

LAW_SLOTS = {
    "Weibull": [("shape", "beta"), ("scale", "alpha"), ("loc", "gamma")],
    "LogNormal": [("shape", "sigma"), ("logscale", "mu")],
    "Normal": [("scale", "sigma"), ("loc", "mu")],
    "ExpWeibull": [("shape", "beta"), ("scale", "alpha"), ("shape", "delta")],
    "GenGamma": [("shape", "c"), ("invscale", "lambda_"), ("shape", "m")],
    "VonMises": [("kappa", "kappa"), ("angle", "mu")],
    "NormFit": [("ratio", "sigma_norm"), ("scale", "mu_norm")],
    "ScipyGamma": [("shape", "a"), ("scale", "scale"), ("loc", "loc")],
    "ScipyRayleigh": [("scale", "scale"), ("loc", "loc")],
    "ScipyBeta": [("shape", "a"), ("scale", "scale"), ("loc", "loc"), ("shape", "b")],
}

_CANON = {
    "shape": [0.6, 1.0, 2.7], "scale": [0.004, 1.8, 2500.0], "loc": [0.0, 1.3, -0.8],
    "kappa": [0.5, 1.0, 7.0], "angle": [0.0, 1.1, -2.0], "ratio": [0.35, 1.0, 2.2],
}
_RANGE = {
    "shape": [(0.5, 0.95), (1.0, 1.0), (1.2, 9.0)],
    "scale": [(1e-3, 2e-2), (0.5, 4.0), (1e2, 2e4)],
    "loc": [(0.0, 0.0), (0.3, 3.0), (-3.0, -0.3)],
    # scipy switches the von Mises cdf to a normal approximation at kappa >= 50; the random
    # concretisations stay below it and harness/c05.py adds fixed probes at kappa = 60 and 200 so
    # that this region is tabulated in every run under a stable key
    "kappa": [(0.2, 0.95), (1.0, 1.0), (1.5, 45.0)],
    "angle": [(0.0, 0.0), (0.2, 3.0), (-3.0, -0.2)],
    "ratio": [(0.15, 0.9), (1.0, 1.0), (1.2, 3.0)],
}


EXT_KIND = {"shape": [0.1, 0.3, 0.5, 25.0], "kappa": [0.05, 0.1, 0.3, 45.0], "ratio": [0.05, 0.1, 0.3, 5.0, 1e-9, 1e-6, 1e-4],
            "scale": [1e-8, 1e8], "logscale": [1e-8, 1e8], "invscale": [1e-8, 1e8]}
EXT_NAME = {("LogNormal", "sigma"): [0.05, 0.1, 0.3, 4.0]}


def concretise(fam, cl, rep, rng, ext=(0, 0)):
    """numbers for one parameter class; rep 0 = canonical values, rep > 0 = seeded random in
    the class range (log-uniform for positive ranges).  A location is given in units of the
    scale so that it matters at every order of magnitude."""
    raw = {}
    for (kind, name), c in zip(LAW_SLOTS[fam], cl):
        k = {"logscale": "scale", "invscale": "scale"}.get(kind, kind)
        slot = [nm for _, nm in LAW_SLOTS[fam]].index(name) + 1
        if ext[0] == slot:      # extreme level of this slot (spec/DistLawsOps.tla ExtremeCases)
            v = EXT_NAME.get((fam, name), EXT_KIND[kind])[ext[1] - 1]
        elif rep == 0:
            v = _CANON[k][c]
        else:
            lo, hi = _RANGE[k][c]
            if lo == hi:
                v = lo
            elif lo > 0:
                v = float(np.exp(rng.uniform(np.log(lo), np.log(hi))))
            else:
                v = float(rng.uniform(lo, hi))
            v = float(f"{v:.6g}")
        raw[name] = (kind, v)
    par = {}
    scale = 1.0
    for name, (kind, v) in raw.items():
        if kind in ("scale", "logscale", "invscale"):
            scale = v
    for name, (kind, v) in raw.items():
        if kind == "logscale":
            par[name] = float(np.log(v))
        elif kind == "invscale":
            par[name] = 1.0 / v
        elif kind == "loc":
            par[name] = v * scale
        elif kind == "ratio":
            par[name] = v * scale  # sigma_norm = ratio * mu_norm
        else:
            par[name] = v
    return {n: float(par[n]) for n in NAMES[fam]}
