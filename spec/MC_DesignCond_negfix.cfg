SPECIFICATION Spec
CONSTANTS G = 4  MaxV = 3  XLeft = 0  YDown = 8  UseMin = FALSE  MaxHits = 99  Algo = "probe_range"  BothOrders = TRUE
CHECK_DEADLOCK FALSE
INVARIANT NoError
INVARIANT DesignHolds
INVARIANT OnContour
INVARIANT SwapIsExchange
INVARIANT InsideKept
