SPECIFICATION Spec
CONSTANTS Scen = "override"  NGiven = 2  MutKind = "none"  MutFam = "none"  MutName = "none"
CHECK_DEADLOCK FALSE
INVARIANT OverrideEqualsInstance
INVARIANT OverrideOutcomeAsSpecified
