"""plot_2D_isodensity with automatic levels for a model of small-magnitude variables.

The automatic levels are built as np.logspace(-1, min_lvl, n)[::-1] with min_lvl the decimal exponent
of the median grid density. This is only increasing for min_lvl < -1. For a model whose median grid
density rounds to 1e0 no level at all is drawn (empty plot, empty legend); for 1e+2 and above
matplotlib raises 'Contour levels must be increasing'. The pdf of the model is perfectly regular.
"""
import sys
import numpy as np
import matplotlib

matplotlib.use("Agg")
from virocon import GlobalHierarchicalModel, WeibullDistribution, LogNormalDistribution
from virocon.plotting import plot_2D_isodensity

bad = 0
for scale in (1.0, 0.04, 0.005):  # the same sea state model in other units of measurement
    model = GlobalHierarchicalModel(
        [
            {"distribution": WeibullDistribution(alpha=2 * scale, beta=1.5, gamma=0)},
            {"distribution": LogNormalDistribution(mu=np.log(7 * scale), sigma=0.2)},
        ]
    )
    rng = np.random.RandomState(1)
    sample = np.c_[
        model.distributions[0].icdf(rng.uniform(0.001, 0.999, 2000)),
        model.distributions[1].icdf(rng.uniform(0.001, 0.999, 2000)),
    ]
    try:
        ax = plot_2D_isodensity(
            model, sample, limits=[(0, 6 * scale), (3 * scale, 12 * scale)]
        )
        n_lines = len(ax.get_legend().get_texts())
        print(f"scale {scale}: {n_lines} isodensity levels drawn")
        if n_lines == 0:
            bad += 1
    except ValueError as e:
        print(f"scale {scale}: ValueError: {e}")
        bad += 1
sys.exit(1 if bad else 0)
