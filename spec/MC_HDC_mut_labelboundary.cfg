SPECIFICATION Spec
CONSTANTS S1 = 7 S2 = 7 S3 = 0  MaxV = 1  Start = "Holes"  Strict = FALSE  Cross = FALSE  Close = FALSE  LabelBoundary = TRUE  RankByArray = FALSE  Coarse = 1
CHECK_DEADLOCK FALSE
INVARIANT OneSetPerRegion
