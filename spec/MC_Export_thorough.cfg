SPECIFICATION Spec
CONSTANTS Decimals = 6  NoClose = FALSE  AlwaysTxt = FALSE  RawHeader = FALSE
CHECK_DEADLOCK FALSE
INVARIANT PathRule
INVARIANT Shape
INVARIANT OneHeaderLine
INVARIANT ParsedIsRound6
INVARIANT TextIsFmt6
INVARIANT ClosedPolyline
