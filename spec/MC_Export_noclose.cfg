SPECIFICATION Spec
CONSTANTS Decimals = 6  NoClose = TRUE  AlwaysTxt = FALSE
CHECK_DEADLOCK FALSE
INVARIANT ClosedPolyline
