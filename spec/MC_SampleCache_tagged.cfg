SPECIFICATION Spec
CONSTANTS MaxOps = 5  Policy = "tagged"  EmitBeh = FALSE
CHECK_DEADLOCK FALSE
INVARIANT CacheCurrent
