SPECIFICATION Spec
CONSTANTS ClipInit = TRUE
CHECK_DEADLOCK FALSE
INVARIANT BoundsDoNotInfluenceEvaluation
