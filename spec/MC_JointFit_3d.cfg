SPECIFICATION Spec
CONSTANTS NRows = 3  MaxV = 2  Upw = 2  MinPts = 1  NDim = 3  MaskSpace = "position"  WeightSpace = "sliced"  Opts = {"none", "wlsqarr"}
CHECK_DEADLOCK FALSE
INVARIANT IntervalOwnData
INVARIANT KeptExactly
INVARIANT DepFitInputs
INVARIANT OptionsPerDim
