SPECIFICATION Spec
CONSTANT Tier = "thorough"
CHECK_DEADLOCK FALSE
INVARIANT Emit
