-------------------------------- MODULE HDC --------------------------------
(* HighestDensityContour._compute as a state machine over HDCOps (properties C02, C15). *)
(*                                                                                      *)
(*   Sort -> Accumulate -> (Select | Warn) -> Erode -> Label -> done                    *)
(*                                                                                      *)
(* Start = "P":    every array key of cell densities in [Cells -> 0..MaxV] (P = key div   *)
(*                 Coarse the cell probabilities) and every                             *)
(*                 limit L in 0..N*MaxV+1 (L plays the role of 1-alpha);                *)
(* Start = "Mask": every region mask on the grid enters directly at Erode (the          *)
(*                 boundary part does not depend on how the region was selected).       *)
(* Start = "Holes": the whole grid minus any subset of its inner block (cells at least  *)
(*                 two cells away from every border): regions with holes whose inner    *)
(*                 and outer boundary are separate pieces (needs a 7 x 7 grid, where    *)
(*                 enumerating all masks is out of reach).                               *)
(* Deviations switched on by constants (mutation configs, must violate an invariant):   *)
(*   Strict = TRUE : prefix with cum <  L instead of cum <= L                           *)
(*   Cross  = TRUE : erosion / labelling with the 2n axis neighbours instead of 3^n-1   *)
(*   RankByArray = TRUE : the cells are ordered by their probability P instead of by the *)
(*                   key (their density; the code before fix 6dfb42b).  P is a monotone  *)
(*                   but not injective image of the density (density * cell sizes,       *)
(*                   rounded: densities a few ulps apart give equal products), modelled  *)
(*                   as P = key div Coarse.  Ties of P are then split by index and an    *)
(*                   excluded cell can be strictly denser than an enclosed one.          *)
(*   LabelBoundary = TRUE : the connected pieces of the BOUNDARY are labelled instead of *)
(*                   the regions (the code before fix 87ce4d1): a region with a hole     *)
(*                   comes back as two coordinate sets                                   *)
(*   Close  = TRUE : "limit not reachable" only when the total misses the limit by more *)
(*                   than one unit (a tolerance in the comparison cum[-1] < limit): a   *)
(*                   grid that falls just short is returned whole without a warning     *)
EXTENDS HDCOps

CONSTANTS S1, S2, S3,   \* grid shape <<S1, S2, S3>>; S3 = 0: 2-D <<S1, S2>>; S2 = 0: 1-D <<S1>>
          MaxV,         \* cell probabilities 0..MaxV
          Start,        \* "P" or "Mask"
          Coarse,       \* P[c] = key[c] div Coarse (1: the probabilities order the cells like the densities)
          Strict, Cross, Close, LabelBoundary, RankByArray

VARIABLES pc, key, P, L, order, cum, R, last, warned, hdc, sets
vars == <<pc, key, P, L, order, cum, R, last, warned, hdc, sets>>

Shape == IF S3 > 0 THEN <<S1, S2, S3>> ELSE IF S2 > 0 THEN <<S1, S2>> ELSE <<S1>>
N == NCells(Shape)
All == 1..N
Full == Offsets(Len(Shape))                        \* what the property prescribes
Struct == IF Cross THEN CrossOffsets(Len(Shape)) ELSE Full    \* what the algorithm uses

InnerBlock == {c \in All : \A d \in 1..Len(Shape) :
                  LET x == Coord(c, Shape, Strides(Shape), d) IN 2 <= x /\ x <= Shape[d] - 3}

Init ==
    /\ order = <<>> /\ cum = <<>> /\ hdc = {} /\ sets = <<>>
    /\ \/ /\ Start = "P"
          /\ key \in [All -> 0..MaxV]
          /\ P = [c \in All |-> key[c] \div Coarse]
          /\ L \in 0..(N * (MaxV \div Coarse) + 1)
          /\ pc = "start" /\ R = {} /\ last = 0 /\ warned = FALSE
       \/ /\ Start = "Mask"
          /\ P = [c \in All |-> 0] /\ L = 0 /\ key = P
          /\ R \in SUBSET All
          /\ pc = "selected" /\ last = 0 /\ warned = FALSE
       \/ /\ Start = "Holes"
          /\ P = [c \in All |-> 0] /\ L = 0 /\ key = P
          /\ R \in {All \ H : H \in SUBSET InnerBlock}
          /\ pc = "selected" /\ last = 0 /\ warned = FALSE

(* np.argsort(flat_key, kind="mergesort")[::-1]: ordered by the key, the array is only accumulated *)
Sort ==
    /\ pc = "start"
    /\ order' = DescOrder(IF RankByArray THEN P ELSE key)
    /\ pc' = "sorted"
    /\ UNCHANGED <<key, P, L, cum, R, last, warned, hdc, sets>>

(* np.cumsum(sort_vals) *)
Accumulate ==
    /\ pc = "sorted"
    /\ cum' = PrefixSums(P, order, N)
    /\ pc' = "summed"
    /\ UNCHANGED <<key, P, L, order, R, last, warned, hdc, sets>>

Short == IF Close THEN cum[N] + 1 < L ELSE cum[N] < L
(* cum_sum[-1] < limit: RuntimeWarning -> HDR = ones, prob_m = 0 *)
Warn ==
    /\ pc = "summed"
    /\ Short
    /\ warned' = TRUE /\ R' = All /\ last' = 0
    /\ pc' = "selected"
    /\ UNCHANGED <<key, P, L, order, cum, hdc, sets>>

(* sort_inds[cum_sum <= limit]; last_summed = array[summed_flat_inds[-1]].  When even    *)
(* the densest cell exceeds the limit the code raises IndexError (pc = "error": recorded *)
(* behaviour, nothing is claimed about it).                                             *)
Select ==
    /\ pc = "summed"
    /\ ~Short
    /\ LET K == {k \in 1..N : IF Strict THEN cum[k] < L ELSE cum[k] <= L} IN
         IF K = {} THEN /\ pc' = "error" /\ UNCHANGED <<R, last>>
         ELSE /\ R' = {order[k] : k \in K}
              /\ last' = P[order[SetMax(K)]]
              /\ pc' = "selected"
    /\ UNCHANGED <<key, P, L, order, cum, warned, hdc, sets>>

(* HDC = HDR - binary_erosion(HDR, structure) *)
Erode ==
    /\ pc = "selected"
    /\ hdc' = BoundaryByErosion(MaskOf(R, N), Shape, Struct \cup {[d \in 1..Len(Shape) |-> 0]})
    /\ pc' = "eroded"
    /\ UNCHANGED <<key, P, L, order, cum, R, last, warned, sets>>

(* ndi.label(HDR, structure); one coordinate set per region label: the boundary cells that *)
(* carry the label, cells in raster order                                                 *)
Label ==
    /\ pc = "eroded"
    /\ sets' = IF LabelBoundary THEN ComponentsSeq(hdc, Shape, Struct)
               ELSE LET regs == ComponentsSeq(R, Shape, Struct)
                    IN [i \in 1..Len(regs) |-> regs[i] \cap hdc]
    /\ pc' = "done"
    /\ UNCHANGED <<key, P, L, order, cum, R, last, warned, hdc>>

Next == Sort \/ Accumulate \/ Warn \/ Select \/ Erode \/ Label
Spec == Init /\ [][Next]_vars

----------------------------------------------------------------------------
(* C02: the selected region is the highest-density region of content L       *)
Selected == Start = "P" /\ pc \in {"selected", "eroded", "done"}
Total == SumOver(P, All)
Out == All \ R

Content   == Selected => SumOver(P, R) <= L
Tight     == Selected /\ Out # {} => L - SumOver(P, R) < MaxOver(P, Out)
Densest   == Selected => \A r \in R : \A c \in Out : P[r] >= P[c]
Threshold == Selected /\ ~warned => last = MinOver(P, R)
(* "the cells whose density is at least fm": with ties only a sandwich holds *)
Sandwich  == Selected => /\ {c \in All : P[c] > last} \subseteq R
                         /\ R \subseteq {c \in All : P[c] >= last}
(* no excluded cell is strictly denser than an enclosed one - on the DENSITIES (key) *)
DensityOrder == Selected => \A r \in R : \A c \in Out : key[r] >= key[c]
(* fm = least density of the region: every denser cell is enclosed *)
FmByDensity == Selected /\ ~warned /\ R # {} => {c \in All : key[c] > MinOver(key, R)} \subseteq R
WarnIff   == Selected => (warned <=> Total < L)
WarnAll   == Selected /\ warned => R = All /\ last = 0
(* the naive reading R = {c : P[c] >= last} is false with ties (kept for the record,    *)
(* listed only in the config that expects its violation)                                *)
NaiveEq   == Selected /\ ~warned => R = {c \in All : P[c] >= last}
PrefixOfOrder == Selected /\ ~warned => \E k \in 1..N : R = {order[j] : j \in 1..k}

----------------------------------------------------------------------------
(* C15: the returned coordinate sets are the boundary cells of the region    *)
Done == pc = "done"
Coords == UNION Range(sets)
RegionComps == Components(R, Shape, Full)

ErosionIsBoundary == pc \in {"eroded", "done"} => hdc = BoundaryDef(MaskOf(R, N), Shape, Full)
CoordsAreBoundary == Done => Coords = BoundaryDef(MaskOf(R, N), Shape, Full)
EachOnce == Done => /\ \A i, j \in 1..Len(sets) : i # j => sets[i] \cap sets[j] = {}
                    /\ SumSeq([i \in 1..Len(sets) |-> Cardinality(sets[i])]) = Cardinality(Coords)
SetsDoNotMixRegions == Done => \A i \in 1..Len(sets) : \E K \in RegionComps : sets[i] \subseteq K
(* one coordinate set per region: the boundary cells of that region (a region with a hole  *)
(* has a boundary of several pieces - they belong to one set)                             *)
OneSetPerRegion ==
    Done => /\ Range(sets) = {K \cap BoundaryDef(MaskOf(R, N), Shape, Full) : K \in RegionComps}
            /\ Len(sets) = Cardinality(RegionComps)
(* every region component contributes at least one set (its boundary is never empty) *)
EveryRegionHasASet == Done => \A K \in RegionComps : \E i \in 1..Len(sets) : sets[i] \subseteq K
(* the large-grid formulations used by Trace_C15 agree with the definitions *)
FastIsDef ==
    pc \in {"selected", "eroded", "done"} =>
      /\ BoundaryFast(MaskOf(R, N), Shape, Full) = BoundaryDef(MaskOf(R, N), Shape, Full)
      /\ ComponentsFast(R, Shape, Full) = Components(R, Shape, Full)
      /\ ComponentsFast(hdc, Shape, Full) = Components(hdc, Shape, Full)
(* the coordinate sets of Label are the notion Trace_C15 judges with (OneSetPerRegion),      *)
(* computed there with the large-grid operators                                            *)
LabelIsTraceNotion ==
    Done /\ ~Cross /\ ~LabelBoundary =>
       Range(sets) = {K \cap BoundaryFast(MaskOf(R, N), Shape, Full) :
                        K \in ComponentsOfMask(MaskOf(R, N), Shape, Full)}
(* raster label order *)
LabelOrder == Done => \A i \in 1..(Len(sets) - 1) : LeastOf(sets[i]) < LeastOf(sets[i + 1])

=============================================================================
