------------------------------ MODULE Trace_C08 ------------------------------
(* Trace validation for C08.  A "cond" record is one TLC-generated case                    *)
(* (ParamRouting!Emit, scenario "cond": family, dependent set D, chain kind, call shape,    *)
(* method) executed on a real ConditionalDistribution, two calls in a row with different    *)
(* conditioning values.  Measured (relative differences in 1e-15, clamped):                 *)
(*   tplrel  result element i  vs  a FRESH template instance constructed with the           *)
(*           dependence values at given_i (computed by the harness' own arithmetic, inner    *)
(*           functions at the same given_i) and the fixed values, evaluated at x_i           *)
(*   vecrel  result element i of the vectorised call  vs  the scalar call (x_i, given_i)     *)
(*   parrel  value of every dependence function object at the given(s)  vs  that reference   *)
(*   fixedok fixed parameters are the declared values for every given                        *)
(*   shapeok result has the broadcast shape of (x, given); draw_sample: (n,) / (n, len(given)) *)
(* For draw_sample "same numbers" means the same draw under the same seed.                   *)
(* The "summary" record makes TLC assert that the executed cases are exactly CondCases        *)
(* (each executed r.fullreps times with different evaluation points / conditioning values,     *)
(* the QuickIntChains kinds r.partreps times more with integer-typed conditioning values).      *)
(* For chain kind "const" (every dependence callable constant in given) a pdf/cdf/icdf result   *)
(* of the shape of x stands for every conditioning value (shapeok); samples always have one     *)
(* column per conditioning value.                                                                *)
EXTENDS ParamRoutingOps, ParamRoutingMemoOps, Json, IOUtils, TLC

TraceLog == ndJsonDeserialize(IOEnv.TRACE_FILE)
VARIABLE l

(* 1e-13 relative (units 1e-15): the conditional object performs the same floating-point   *)
(* operations as the template at the same numbers; only the loop kind (array vs scalar)      *)
(* may differ, which numpy/scipy keep to the last bit or two of exp/log/pow.                 *)
CondTolE15 == 100

CondClauses(r) ==
  IF r.exc # "" THEN << <<"UnexpectedException", FALSE>> >>
  ELSE <<
    <<"ResultShape", r.shapeok>>,
    <<"CondEqualsTemplateAtValues", r.tplrel <= CondTolE15>>,
    <<"VectorisedEqualsPointwise", r.vecrel <= CondTolE15>>,
    <<"ChainedSameGiven", r.parrel <= CondTolE15>>,
    <<"FixedSameForAllGiven", r.fixedok>>,
    (* given is "float or array_like": the vector of conditioning values as list, tuple or pandas   *)
    (* Series gives, bit for bit, the result (seeded sample) of the same values as ndarray           *)
    <<"GivenKindsAgree", r.kindsame>>,
    (* draw_sample(n, given): n rows with one variate per conditioning value - shape (n,) for a    *)
    (* scalar, (n, len(given)) for a vector given (part of shapeok) - and no variate repeated, also  *)
    (* when every parameter value is constant in given (ParamRouting!OneResultPerGiven)              *)
    <<"SampleRowsIndependent", r.method = "draw_sample" => r.indep>>,
    <<"Compared", r.ncmp >= (IF GivenIsVector(r.shape) \/ XIsVector(r.shape) THEN 4 ELSE 2)>>
  >>

(* "condhist" records: one history of ParamRoutingMemo (depth, steps) replayed on a real      *)
(* ConditionalDistribution with a chained dependence function; tplrel / parrel are the worst    *)
(* deviations over ALL evaluation steps of the history (after coefficients of any level were    *)
(* re-assigned or the innermost level was fitted), nev the number of evaluations compared.       *)
NEval(steps) == Cardinality({i \in 1..Len(steps) : steps[i] \in {"E1", "E2"}})
CondHistClauses(r) ==
  IF r.exc # "" THEN << <<"UnexpectedException", FALSE>> >>
  ELSE <<
    <<"CondEqualsTemplateAtValues", r.tplrel <= CondTolE15>>,
    <<"ChainedSameGiven", r.parrel <= CondTolE15>>,
    <<"Compared", r.nev = 3 * NEval(r.steps)>>
  >>

(* "conddtype" records: one case of ParamRoutingOps!DtypeCases - the conditioning values      *)
(* 100, 200, 300 (scalar kinds: 300) in a narrow type, every parameter a + b x^2 or a + b x^-1;  *)
(* tplrel against the fresh template at the values computed in double precision, vecrel against  *)
(* the call with one element of the container at a time                                          *)
CondDtypeClauses(r) ==
  IF r.exc # "" THEN << <<"UnexpectedException", FALSE>> >>
  ELSE <<
    <<"ResultShape", r.shapeok>>,
    <<"CondEqualsTemplateAtValues", r.tplrel <= CondTolE15>>,
    <<"VectorisedEqualsPointwise", r.vecrel <= CondTolE15>>,
    <<"Compared", r.ncmp >= 1>>
  >>

(* "condbounds" records: one case of ParamRoutingOps!BoundsCases (ParamRoutingBounds.tla) - every   *)
(* parameter of the family has a dependence function declared WITH the fit-time option bounds=      *)
(* (defaults of the callable inside / outside these bounds) and the conditional distribution is      *)
(* evaluated WITHOUT a preceding fit.  parrel: the value of every dependence function object at the  *)
(* given(s) vs the driver's own call of the python callable with its declared defaults (1 where it   *)
(* declares none), chained: the inner callable at the same given; tplrel vs the fresh template at    *)
(* these values; vecrel vs one (x, given) pair at a time.  The bounds are no input of an evaluation   *)
(* (ParamRoutingBounds!BoundsDoNotInfluenceEvaluation).                                               *)
CondBoundsClauses(r) ==
  IF r.exc # "" THEN << <<"UnexpectedException", FALSE>> >>
  ELSE <<
    <<"ResultShape", r.shapeok>>,
    <<"DependenceValueIsCallableValue", r.parrel <= CondTolE15>>,
    <<"CondEqualsTemplateAtValues", r.tplrel <= CondTolE15>>,
    <<"VectorisedEqualsPointwise", r.vecrel <= CondTolE15>>,
    <<"Compared", r.ncmp >= 1>>
  >>

Idx(kind) == {i \in 1..Len(TraceLog) : TraceLog[i].kind = kind}
CondSeen == {<<TraceLog[i].fam, TraceLog[i].D, TraceLog[i].chain, TraceLog[i].shape,
               TraceLog[i].method>> : i \in Idx("cond")}
HistSeen == {<<TraceLog[i].depth, TraceLog[i].steps>> : i \in Idx("condhist")}
SummaryClauses(r) ==
  << <<"CondCoverage", CondSeen = CondCases /\ Cardinality(Idx("cond")) = r.fullreps * Cardinality(CondCases)
                               + r.partreps * Cardinality({cc \in CondCases : cc[3] \in QuickIntChains})>>,
     <<"HistoryCoverage", HistSeen = MemoHistoryCases(4)>>,
     <<"DtypeCoverage", {<<TraceLog[i].fam, TraceLog[i].gkind, TraceLog[i].fn, TraceLog[i].method>> :
                           i \in Idx("conddtype")} = DtypeCases>>,
     <<"BoundsCoverage", {<<TraceLog[i].fam, TraceLog[i].bkind, TraceLog[i].chain, TraceLog[i].shape,
                            TraceLog[i].method>> : i \in Idx("condbounds")} = BoundsCases>> >>

Clauses(r) == CASE r.kind = "cond" -> CondClauses(r)
                [] r.kind = "condhist" -> CondHistClauses(r)
                [] r.kind = "conddtype" -> CondDtypeClauses(r)
                [] r.kind = "condbounds" -> CondBoundsClauses(r)
                [] r.kind = "summary" -> SummaryClauses(r)

Verdict(r) == Failing(Clauses(r))

Init == l = 1
Next == /\ l <= Len(TraceLog)
        /\ LET r == TraceLog[l] v == Verdict(r) IN
             IF v = <<>> THEN TRUE ELSE \A q \in 1..Len(v) : PrintT(<<"VERDICT", r.id, v[q]>>)
        /\ l' = l + 1
Spec == Init /\ [][Next]_l
Consumed == l = Len(TraceLog) + 1 => PrintT(<<"CONSUMED", l - 1>>)
=============================================================================
