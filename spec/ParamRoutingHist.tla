--------------------------- MODULE ParamRoutingHist ---------------------------
(* Histories of SEVERAL distribution objects in one process (C05, C11):                  *)
(* instances of different families / with different fixed sets share no state.            *)
(*   New(f, F)      construct an instance of family f with fixed set F                    *)
(*   EvalKw(i, n)   evaluate instance i with parameter n overridden by keyword             *)
(*   Fit(i)         MLE fit of instance i                                                  *)
(* Every operation on instance i must give the result it gives when instance i is alone    *)
(* in the process (InstancesShareNoState); consequently executing a set of cases in any    *)
(* order, or twice, gives the same results (what harness/c05.py, c11.py replay: clause     *)
(* CaseOrderIndependent).  The code keeps everything per instance; the constants switch    *)
(* on the two deviations of this class:                                                    *)
(*   SharedIndex   one name -> position table shared by all ScipyDistribution subclasses,  *)
(*                 overwritten by New; EvalKw writes the override to the slot it finds      *)
(*   SharedFitKw   one table of fixed-parameter keywords per family, filled by Fit and      *)
(*                 never cleared: a later Fit of the same family keeps those names fixed    *)
EXTENDS ParamRoutingOps, TLC, Json

CONSTANTS HFams, MaxInst, MaxOps, SharedIndex, SharedFitKw
VARIABLES insts, idx, kw, hist, ok

vars == <<insts, idx, kw, hist, ok>>

Pos(f, n) == CHOOSE k \in 1..Len(NamesSeq(f)) : NamesSeq(f)[k] = n
AllNames == UNION {Names(f) : f \in HFams}
HFix(f) == {{}, {NamesSeq(f)[1]}}          \* nothing fixed / the first parameter fixed

Init == /\ insts = <<>> /\ hist = <<>> /\ ok = TRUE
        /\ idx = [n \in AllNames |-> 0]
        /\ kw = [f \in HFams |-> {}]

New(f, F) ==
    /\ Len(insts) < MaxInst /\ Len(hist) < MaxOps
    /\ insts' = Append(insts, [fam |-> f, F |-> F])
    /\ idx' = IF SharedIndex /\ f \in {"ScipyGamma", "ScipyRayleigh", "ScipyBeta"}
              THEN [n \in AllNames |-> IF n \in Names(f) THEN Pos(f, n) ELSE idx[n]]
              ELSE idx
    /\ hist' = Append(hist, <<"new", f, AsSeq(f, F)>>)
    /\ UNCHANGED <<kw, ok>>

(* the slot the override is written to; alone in the process it is Pos(own family, n) *)
Slot(i, n) == IF SharedIndex /\ insts[i].fam \in {"ScipyGamma", "ScipyRayleigh", "ScipyBeta"}
              THEN idx[n] ELSE Pos(insts[i].fam, n)
EvalKw(i, n) ==
    /\ Len(hist) < MaxOps /\ i <= Len(insts) /\ n \in Names(insts[i].fam)
    /\ ok' = (ok /\ Slot(i, n) = Pos(insts[i].fam, n))
    /\ hist' = Append(hist, <<"eval", i, n>>)
    /\ UNCHANGED <<insts, idx, kw>>

(* the names the fit keeps fixed; alone in the process it is the instance's own F *)
Kept(i) == IF SharedFitKw THEN kw[insts[i].fam] \cup insts[i].F ELSE insts[i].F
Fit(i) ==
    /\ Len(hist) < MaxOps /\ i <= Len(insts)
    /\ kw' = IF SharedFitKw THEN [kw EXCEPT ![insts[i].fam] = Kept(i)] ELSE kw
    /\ ok' = (ok /\ Kept(i) = insts[i].F)
    /\ hist' = Append(hist, <<"fit", i, "-">>)
    /\ UNCHANGED <<insts, idx>>

Next == \/ \E f \in HFams : \E F \in HFix(f) : New(f, F)
        \/ \E i \in 1..MaxInst : \E n \in AllNames : EvalKw(i, n)
        \/ \E i \in 1..MaxInst : Fit(i)
Spec == Init /\ [][Next]_vars

InstancesShareNoState == ok

(* leg R (C05): complete construct / evaluate histories (nothing fixed, no fit) that end   *)
(* with an evaluation                                                                      *)
EvalOnly == \A j \in 1..Len(hist) : hist[j][1] # "fit" /\ (hist[j][1] = "new" => hist[j][3] = <<>>)
Emit == (Len(hist) = MaxOps /\ hist[MaxOps][1] = "eval" /\ EvalOnly) => PrintT(<<"BEH", ToJson(hist)>>)
=============================================================================
