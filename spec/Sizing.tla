------------------------------- MODULE Sizing -------------------------------
(* Documented sizing rules (beyond the listed properties, DESIGN section 7 item 2):          *)
(*   calculate_alpha(state_duration, return_period) = state_duration / (return_period * 8766) *)
(*   default Monte-Carlo size of the sampling contours:      n = int(100 / alpha)             *)
(*   marginal_icdf (Monte-Carlo branch): n = max(int(100 * pf / p_small), 100 000) with        *)
(*       p_small = min(min p, 1 - max p)                                                       *)
(*   conditional_icdf: per point n = int(min(max(100 * pf / p_small, 100 000), 10 000 000))     *)
(*   plot grid table _get_n_axes(n_intervals) for 1..16 intervals                              *)
(* All quantities are rationals a/b; floor(x / y) of floats may legitimately differ from the   *)
(* exact floor by one when the quotient is an integer, so sizes are accepted as exact floor or  *)
(* exact floor - 1 in that case.                                                             *)
EXTENDS Integers, Sequences, Fix

FloorDiv(x, y) == x \div y
(* int(num / den) computed in floats *)
IntOf(n, num, den) == n = FloorDiv(num, den) \/ (num % den = 0 /\ n = FloorDiv(num, den) - 1)

(* alpha = a/b *)
DefaultN(n, a, b) == IntOf(n, 100 * b, a)
(* p_small = s/t, pf = f/g:  100 * pf / p_small = 100 f t / (g s) *)
MarginalN(n, s, t, f, g) ==
    \/ (FloorDiv(100 * f * t, g * s) >= 100000 /\ IntOf(n, 100 * f * t, g * s))
    \/ (FloorDiv(100 * f * t, g * s) <= 100000 /\ n = 100000)
ConditionalN(n, s, t, f, g) ==
    LET q == FloorDiv(100 * f * t, g * s) IN
      \/ (q < 100000 /\ n = 100000)
      \/ (q >= 10000000 /\ n = 10000000)
      \/ (q >= 100000 /\ q <= 10000000 /\ IntOf(n, 100 * f * t, g * s))

AxesTable == << <<1,1>>, <<1,2>>, <<1,3>>, <<2,2>>, <<2,3>>, <<2,3>>, <<3,3>>, <<3,3>>, <<3,3>>,
                <<4,4>>, <<4,4>>, <<4,4>>, <<4,4>>, <<4,4>>, <<4,4>>, <<4,4>> >>
(* entry n (1-based) is the grid for n intervals: enough axes, and no smaller grid of the table would do *)
AxesEnough(n) == AxesTable[n][1] * AxesTable[n][2] >= n
=============================================================================
