"""C09: a re-fit of an already fitted GlobalHierarchicalModel does not give the
model of a first fit to the same data: DependenceFunction._fit starts from the
parameters of the PREVIOUS fit and ends in a far worse local optimum."""
import os, sys
import numpy as np
import virocon
from virocon import (GlobalHierarchicalModel, get_OMAE2020_V_Hs, get_DNVGL_Hs_Tz,
                     get_OMAE2020_Hs_Tz, read_ec_benchmark_dataset)

ddir = os.path.join(os.path.dirname(os.path.dirname(virocon.__file__)), "datasets")
A = read_ec_benchmark_dataset(os.path.join(ddir, "ec-benchmark_dataset_A_1year.txt")).values
C = read_ec_benchmark_dataset(os.path.join(ddir, "ec-benchmark_dataset_C_1year.txt")).values
D = read_ec_benchmark_dataset(os.path.join(ddir, "ec-benchmark_dataset_D_1year.txt")).values
D_shuffled = D.copy()   # same marginals, second column permuted
D_shuffled[:, 1] = np.random.default_rng(1).permutation(D_shuffled[:, 1])


def dependence_errors(model):
    """(weighted) sum of squared residuals of each dependence function w.r.t. the
    (interval reference, per-interval estimate) pairs stored by the model"""
    cond = model.distributions[1]
    out = {}
    for name, func in cond.conditional_parameters.items():
        x = np.asarray(cond.conditioning_values, dtype=float)
        y = np.array([p[name] for p in cond.parameters_per_interval], dtype=float)
        w = np.ones_like(y) if func.weights is None else func.weights(x, y)
        out[name] = float(np.sum(w * (func(x) - y) ** 2))
    return out


cases = [
    # (getter, data of the earlier fit, data, parameter)
    ("DNVGL Hs-Tz, first fitted to rows 5000:6000 of dataset A, re-fitted to all of A",
     get_DNVGL_Hs_Tz, A[5000:6000], A, "sigma"),
    ("DNVGL Hs-Tz, first fitted to rows 1048:2096 of dataset C, re-fitted to all of C",
     get_DNVGL_Hs_Tz, C[1048:2096], C, "sigma"),
    ("OMAE2020 Hs-Tz, first fitted to rows 2000:3000 of dataset C, re-fitted to all of C",
     get_OMAE2020_Hs_Tz, C[2000:3000], C, "sigma"),
    ("OMAE2020 V-Hs, first fitted to column-shuffled dataset D, re-fitted to D",
     get_OMAE2020_V_Hs, D_shuffled, D, "alpha"),
]

violations = 0
for title, getter, first, data, par in cases:
    dd, fd, _ = getter()
    fresh = GlobalHierarchicalModel(dd)
    fresh.fit(data, fd)                      # first fit of a fresh model

    dd, fd, _ = getter()
    refit = GlobalHierarchicalModel(dd)
    refit.fit(first, fd)                     # already fitted model ...
    refit.fit(data, fd)                      # ... re-fitted to the same data

    c_f, c_r = fresh.distributions[1], refit.distributions[1]
    # both saw exactly the same (reference, estimate) pairs in the last fit
    assert np.array_equal(c_f.conditioning_values, c_r.conditioning_values)
    assert c_f.parameters_per_interval == c_r.parameters_per_interval

    e_f, e_r = dependence_errors(fresh)[par], dependence_errors(refit)[par]
    p_f = {k: float(v) for k, v in c_f.conditional_parameters[par].parameters.items()}
    p_r = {k: float(v) for k, v in c_r.conditional_parameters[par].parameters.items()}
    print(title)
    print("   first fit:", p_f, "squared error", e_f)
    print("   re-fit   :", p_r, "squared error", e_r, "= %.1f x" % (e_r / e_f))
    if e_r > 1.5 * e_f:
        violations += 1

if violations:
    print(f"VIOLATION in {violations} of {len(cases)} cases: the re-fitted dependence "
          "function is not the least squares fit to the pairs that a first fit finds")
    sys.exit(1)
print("ok")
