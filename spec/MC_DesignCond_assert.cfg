SPECIFICATION Spec
CONSTANTS G = 4  MaxV = 3  XLeft = 0  YDown = 0  UseMin = FALSE  MaxHits = 2  Algo = "edges"  BothOrders = TRUE
CHECK_DEADLOCK FALSE
INVARIANT NoError
